"""Source of MANIFEST.json (bin/gen_manifest writes it). One entry per claimed property."""

CLAIMED = {'C01': {'design_ref': 'DESIGN.md §5 C01',
         'note': 'Trusted: Lean kernel (axioms of every listed theorem audited each run ⊆ '
                 'propext/Classical.choice/Quot.sound), the translator of protocol constants, the simulation harness '
                 '(fake UDP sockets, virtual clock, real threads) and the compiled model driver. Modelled rather '
                 'than verified: CPython and stdlib pieces, UDP delivery (script order stands for network order). '
                 'Partial: kernel-level reordering/duplication beyond the script is not modelled.',
         'technique': 'Lean 4 proof (reader invariant + prefix-of-ideal by induction over blocks/tries/script) + '
                      'differential correspondence on simulated sockets',
         'text': "Lean theorems: for every content, short-read pattern and block size the reader model's blocks "
                 'concatenate to the content with correct framing, independent of read splitting; for every event '
                 'script and configuration (wrap 0/1/None) the DATA packets of the transfer model are a prefix of '
                 'the ideal numbered packet sequence and all of it unless the trace shows an abort, where an ERROR '
                 "packet of the server's own only counts after the client's abort or after the whole sequence; numbering "
                 '1..65535 then the wrap value; without wrap value the sequence stops and an ERROR follows. Tied to '
                 'the code by running the real server on simulated sockets and evaluating the same Lean checker '
                 "(c01Check) on the implementation's trace."},
 'C02': {'design_ref': 'DESIGN.md §5 C02',
         'note': 'Trusted: Lean kernel (axioms audited ⊆ propext/Classical.choice/Quot.sound), translator of '
                 'protocol constants, the simulation harness and the compiled driver. Wall-clock scheduling of a '
                 'loaded host and UDP reordering beyond script order are outside the model (partial).',
         'technique': 'Lean 4 proof (trace automaton accepted for all scripts, induction over tries/blocks/script) + '
                      'differential correspondence on simulated sockets',
         'text': 'Lean theorems (all event scripts, contents, option sets, configurations with wrap in {0,1,None}): '
                 'every trace of the transfer model is accepted by the lock-step/retransmission automaton c02Check, '
                 'a packet is sent at most 1+max_retries times, and the transfer ends within '
                 'packets*(1+max_retries)*timeout plus handling slack. The model is tied to the code by running the '
                 'real TftpServer and transfer threads on simulated sockets with a virtual clock and comparing '
                 "traces; the same Lean automaton is evaluated on the implementation's trace."},
 'C07': {'design_ref': 'DESIGN.md §5 C07',
         'note': 'Trusted: Lean kernel (axioms of every listed theorem audited each run ⊆ '
                 'propext/Classical.choice/Quot.sound), the translator of protocol constants, the simulation harness '
                 '(fake UDP sockets, virtual clock, real threads) and the compiled model driver. Modelled rather '
                 'than verified: CPython and stdlib pieces, UDP delivery (script order stands for network order). '
                 "How the server probes a stream's size (isinstance/fstat/tell) is differential evidence; the model "
                 "only knows 'size known'.",
         'technique': 'Lean 4 proof (decision-logic iff specs, numeral round trip, trace theorems) + differential '
                      'correspondence',
         'text': 'Lean theorems: iff-characterisations of blksize/timeout/tsize acceptance incl. str(int(v)) = v for '
                 'every canonical decimal (so timeout is echoed unchanged), the OACK names only options the client '
                 "sent (case-insensitive) in fixed order, the constructor's clamps, block size within [8, max]; for "
                 'every script the first datagram is exactly the prescribed OACK (or no OACK at all), the DATA '
                 'packets use the negotiated block size (C01 theorem), retransmission uses the negotiated interval '
                 'and block 1 follows only ACK 0 (C02 theorem), and tsize equals the bytes delivered by an unaborted '
                 'transfer. Correspondence: option grids × server limits × stream kinds (BytesIO/file at offsets, '
                 'pipe, raw) through the real server.'},
 'C08': {'design_ref': 'DESIGN.md §5 C08',
         'note': 'Trusted: Lean kernel (axioms of every listed theorem audited each run ⊆ '
                 'propext/Classical.choice/Quot.sound), the translator of protocol constants, the simulation harness '
                 '(fake UDP sockets, virtual clock, real threads) and the compiled model driver. Modelled rather '
                 'than verified: CPython and stdlib pieces, UDP delivery (script order stands for network order). ',
         'technique': 'Lean 4 proof (stream invariant buf ++ refSkip lastCR rest, induction over reads) + exhaustive '
                      'small-scope correspondence',
         'text': 'Lean theorems: one converted read contributes exactly what the whole-buffer reference conversion '
                 'says whatever follows (chunk_ref); hence for every content, every partition into short reads and '
                 'every block size ≥ 1 the concatenated blocks equal the reference conversion (CR LF kept, every '
                 'other CR/LF → CR LF) with octet-mode framing; netascii never acknowledges tsize; whole netascii '
                 'transfers satisfy the C01 prefix/completeness checker. Correspondence: exhaustive {CR,LF,x}^≤n × '
                 'cut sets × block sizes at reader level plus full sessions.'},
 'C09': {'design_ref': 'DESIGN.md §5 C09',
         'note': 'Trusted: Lean kernel (axioms of every listed theorem audited each run ⊆ '
                 'propext/Classical.choice/Quot.sound), the translator of protocol constants, the simulation harness '
                 '(fake UDP sockets, virtual clock, real threads) and the compiled model driver. Modelled rather '
                 'than verified: CPython and stdlib pieces, UDP delivery (script order stands for network order). '
                 "Partial: the HTTP half rests on http.server's parser (not modelled). Foreign non-interference is a "
                 'trace-equality theorem for whole transfers (foreign_noninterference) under the script condition '
                 'foreignOK: foreign datagrams cost no CPU time, and one with a non-zero delay is not followed by '
                 "the script event 'silence' (whose meaning is relative to the current try; the unconditional "
                 'statement is refuted in Lean, foreign_noninterference_needs_side_condition; every arrival pattern '
                 'has a script that meets the condition). The HTTP '
                 "request parser is not modelled; clients that reset the connection (not 'client-controlled bytes') "
                 'are outside the default stream.',
         'technique': 'Lean 4 proof (total decoders, trace automaton accepted for all scripts) + differential '
                      'correspondence incl. exhaustive short datagrams',
         'text': 'Lean theorems (TFTP half): the decoders are total; any ERROR packet (any code, any length) is a '
                 'peer error after which nothing is sent; an invalid packet is the last thing received and is '
                 'answered by exactly one well-formed ERROR; foreign peers get ERROR 5 only, and the rest of the trace '
                 '(everything to and from the client, timeouts, closes, with time stamps) equals the run on the script '
                 'without the foreign datagrams (foreign_noninterference); no exception record '
                 'unless the handler/stream raised (c09Check accepted for every script); the request port answers '
                 'every datagram with nothing, one well-formed ERROR, or a transfer; RRQ decoding round-trips and is '
                 'sound w.r.t. the RFC 1350/2347 shape. Correspondence: exhaustive/grammar/mutated datagrams on the '
                 'request port and packets injected into transfers. HTTP half: the request gate of _delegate_request '
                 'is a theorem (400 without any handler call iff the path lacks a leading slash or contains NUL; '
                 "every outcome is one well-formed response); everything before the gate is http.server's parser and "
                 'is differential: malformed/unsupported request heads over real loopback TCP, each followed by a '
                 'liveness request; responses are parsed by the Lean parseResponse; no exception record may appear.'},
 'C10': {'design_ref': 'DESIGN.md §5 C10',
         'note': 'Trusted: Lean kernel (axioms of every listed theorem audited each run ⊆ '
                 'propext/Classical.choice/Quot.sound), the translator of protocol constants, the simulation harness '
                 '(fake UDP sockets, virtual clock, real threads) and the compiled model driver. Modelled rather '
                 'than verified: CPython and stdlib pieces, UDP delivery (script order stands for network order). '
                 "'Contexts never mixed between concurrent requests' is true in the model by construction; for the "
                 'code it is differential evidence.',
         'technique': 'Lean 4 proof (dispatch decision logic) + differential correspondence with recording handlers',
         'text': 'Lean theorems (TFTP half): the handler used is the least index whose can_handle accepts; '
                 'prepare_context/can_handle are called for exactly the handlers up to it in order and handle once; '
                 'FILE_NOT_FOUND iff none accepts; the server address keeps port, flow info and scope of the socket '
                 "and takes the packet's destination host when reported. Correspondence: handler lists with accept "
                 'tables, pktinfo on/off, bind addresses; recorded call arguments compared with the statement. HTTP '
                 'half: dispatch_first/dispatch_calls/dispatch_raise/none_404 for the HTTP dispatcher; '
                 'correspondence with scripted handlers recording all arguments (method, undecoded URI, headers, '
                 'body, client and server socket addresses) for IPv4/IPv6 clients and several bind addresses, plus '
                 'concurrent requests with distinct URIs.'},
 'C19': {'design_ref': 'DESIGN.md §5 C19',
         'note': 'Trusted: Lean kernel (axioms audited), the deterministic scheduler harness/sched.py (real threads '
                 'serialised at traced source lines, cooperative locks) and the compiled driver. The theorems are '
                 "about a lock-granularity model; that the code's critical sections are where the model says is "
                 'established only by the enumerated schedules (exploration supporting the tie, not standing in for '
                 'the theorem). For all four components the linearization search (threads\' results AND the probe of '
                 'the state left behind) runs in Lean: the driver evaluates Conc.linearizableP at step functions '
                 'built from the models that C15 (DataStore), C14 (TextFileSource) and C12 (YamlTargetSource) verify '
                 'against the code; calls/results travel in those properties\' canonical JSON, lines pre-classified '
                 'by the real re, YAML texts rendered/parsed/matched by the real libraries, version hashes mapped to '
                 'the model\'s symbolic versions through tables computed with the real hash functions. The real code '
                 'run sequentially is kept only as a cross-check of the two references (a disagreement is a broken '
                 'correspondence, not a violation). YamlTargetSource.get_data is not one critical section: for it '
                 'the lock-granularity theorem is an idealisation and the real interleavings rest on the sweeps. '
                 'Partial: '
                 'pre-emption inside one source line and C-level sqlite/GIL behaviour; the one-read-per-file repair '
                 'of the YAML source is keyed by file name, two names of one file are still read separately.',
         'technique': 'Lean 4 proof (lock-granularity small-step model: mutex invariant, sequential log, '
                      'linearizability checker accepted, no deadlock, for all thread counts and schedules) + '
                      'enumerated schedules of real threads',
         'text': 'Lean theorems for every component whose operations each run inside one critical section of one '
                 'lock, for every number of threads, every program and EVERY schedule of acquire/load/store/release '
                 'steps (the critical section is not atomic in the model): mutual exclusion, the log is a valid '
                 'sequential execution, the per-thread results together with the answers to any calls made afterwards '
                 'pass the linearizability checker (linearizable_run_probe; the checker is sound: what it accepts is '
                 'explained by a sequential order — linearizableP_sound), no deadlock; instances at the Lean models of '
                 'the synchronized LRU, DataStore (C15), TextFileSource (C14) and YamlTargetSource (C12). '
                 'Correspondence: real threads on '
                 'SynchronizedCache(LRUCache), DataStore, TextFileSource and YamlTargetSource under a deterministic '
                 'scheduler with enumerated single pre-emptions at every traced line (sweeps) and sampled double '
                 'pre-emptions, a file rewrite placed at every point; the same checker is evaluated in Lean on what the '
                 'real threads returned and on the probe calls made after the run (cross-checked against the real '
                 'code run sequentially).'},
 'C20': {'design_ref': 'DESIGN.md §5 C20',
         'note': 'Trusted: Lean kernel (axioms of every listed theorem audited each run ⊆ '
                 'propext/Classical.choice/Quot.sound), the translator of protocol constants, the simulation harness '
                 '(fake UDP sockets, virtual clock, real threads) and the compiled model driver. Modelled rather '
                 'than verified: CPython and stdlib pieces, UDP delivery (script order stands for network order). '
                 'Partial: OS port release and thread death are observed, not proved; real-thread pre-emption inside '
                 'a critical section is not explored for the lifecycle calls (random delays only).',
         'technique': 'Lean 4 proof (resource events over all endings) + differential correspondence',
         'text': 'Lean theorems: (transfers) every ending of a TFTP transfer closes the socket exactly once as the '
                 "last action and the handler's file exactly once directly before it; (lifecycle, TFTP and HTTP "
                 'servers) invariant-based proof that for ANY number of threads calling start()/stop() under EVERY '
                 'interleaving of their critical sections the server ends fully running or fully stopped, no '
                 'deadlock, start/stop idempotent, a quiescent stop ends the main thread and releases the socket, '
                 'restart serves. Correspondence: all sequential start/stop/request histories up to a length bound '
                 'and concurrent calls from 2-4 threads on the real servers (TFTP on simulated sockets; HTTP on real '
                 'loopback with connect/bind/thread probes), all transfer endings through the real transfer '
                 'threads.'}}

IN_PROGRESS_REASON = 'not claimed yet: model/theorems/correspondence for this property are still being built in this round (see DESIGN.md §9); the technique applies'
