"""Source of MANIFEST.json (bin/gen_manifest writes it). One entry per claimed property."""

CLAIMED = {
    "C02": {
        "text": "Lean theorems (all event scripts, contents, option sets, configurations with wrap in {0,1,None}): every trace "
                "of the transfer model is accepted by the lock-step/retransmission automaton c02Check, a packet is sent at "
                "most 1+max_retries times, and the transfer ends within packets*(1+max_retries)*timeout plus handling slack. "
                "The model is tied to the code by running the real TftpServer and transfer threads on simulated sockets with "
                "a virtual clock and comparing traces; the same Lean automaton is evaluated on the implementation's trace.",
        "note": "Trusted: Lean kernel (axioms audited ⊆ propext/Classical.choice/Quot.sound), translator of protocol "
                "constants, the simulation harness and the compiled driver. Wall-clock scheduling of a loaded host and UDP "
                "reordering beyond script order are outside the model (partial).",
        "technique": "Lean 4 proof (trace automaton accepted for all scripts, induction over tries/blocks/script) + "
                     "differential correspondence on simulated sockets",
        "design_ref": "DESIGN.md §5 C02",
    },
}

IN_PROGRESS_REASON = ("not claimed yet: model/theorems/correspondence for this property are still being built in this "
                      "round (see DESIGN.md §9); the technique applies")
