"""
Translator section for C15: literals of the SQLite store / update handler that gate behaviour
(the SQL statements with their ORDER BY / OR REPLACE clauses, the action names, the one allowed
method). Lemmas/SqliteConsts.lean pins them against the model by `decide`/`rfl`; a changed literal
breaks that obligation and raises the search budget of the correspondence.
"""
import ast

import translate as T


def _method_strings(tree, cls, meth):
    """string constants inside the `execute(...)`/`executescript(...)` calls of a method, with
    implicit concatenation already folded by the parser; whitespace normalised"""
    node = T._find_func(tree, cls + "." + meth)
    out = []
    if node is None:
        return out
    for n in ast.walk(node):
        if isinstance(n, ast.Call) and isinstance(n.func, ast.Attribute) and n.func.attr in ("execute", "executescript"):
            if n.args and isinstance(n.args[0], ast.Constant) and isinstance(n.args[0].value, str):
                out.append(" ".join(n.args[0].value.split()))
    return out


def _tuples_in(node):
    """literal tuples of strings used on the right of `in` / `not in` inside a function, in order"""
    out = []
    for n in ast.walk(node):
        if isinstance(n, ast.Compare) and any(isinstance(o, (ast.In, ast.NotIn)) for o in n.ops):
            for c in n.comparators:
                try:
                    v = ast.literal_eval(c)
                except Exception:
                    continue
                if isinstance(v, tuple) and all(isinstance(x, str) for x in v):
                    out.append(list(v))
    return out


def sqlite_section(g, digests):
    if "SQLITE_UPDATE_METHOD" in g.values:
        return      # core.translate() and translate.main() both load the extra sections: emit once
    g.comment("vinegar/utils/sqlite_store.py")
    store = T._parse("vinegar/utils/sqlite_store.py")
    pins = {
        "set_value": "INSERT OR REPLACE INTO system_data (system_id, key, value) VALUES (?, ?, ?);",
        "delete_value": "DELETE FROM system_data WHERE system_id=? and key=?;",
        "delete_data": "DELETE FROM system_data WHERE system_id=?;",
        "get_value": "SELECT value FROM system_data WHERE system_id=? AND KEY=?;",
        "get_data": "SELECT key, value FROM system_data WHERE system_id=? ORDER BY key;",
        "find_systems": "SELECT system_id FROM system_data WHERE key=? AND value=? ORDER BY system_id;",
        "list_systems": "SELECT DISTINCT system_id FROM system_data ORDER BY system_id;",
    }
    for meth, pinned in pins.items():
        found = _method_strings(store, "DataStore", meth)
        g.string("SQLITE_SQL_" + meth.upper(), found[0] if len(found) == 1 else None, pinned)
        digests["utils/sqlite_store.py:DataStore." + meth] = T._func_digest(store, "DataStore." + meth)
    digests["utils/sqlite_store.py:DataStore._check_value"] = T._func_digest(store, "DataStore._check_value")
    digests["utils/sqlite_store.py:DataStore.__init__"] = T._func_digest(store, "DataStore.__init__")

    g.comment("vinegar/request_handler/sqlite_update.py")
    upd = T._parse("vinegar/request_handler/sqlite_update.py")
    init = T._find_func(upd, "HttpSQLiteUpdateRequestHandler.__init__")
    tuples = _tuples_in(init) if init is not None else []
    g.strlist("SQLITE_UPDATE_ACTIONS", tuples[0] if len(tuples) > 0 else None,
              ["delete_data", "delete_value", "set_value", "set_json_value_from_request_body",
               "set_text_value_from_request_body"])
    g.strlist("SQLITE_UPDATE_KEY_ACTIONS", tuples[1] if len(tuples) > 1 else None,
              ["delete_value", "set_value", "set_json_value_from_request_body", "set_text_value_from_request_body"])
    handle = T._find_func(upd, "HttpSQLiteUpdateRequestHandler.handle")
    method = None
    if handle is not None:
        for n in ast.walk(handle):
            if (isinstance(n, ast.Compare) and isinstance(n.left, ast.Attribute) and n.left.attr == "method"
                    and len(n.ops) == 1 and isinstance(n.ops[0], ast.NotEq)
                    and isinstance(n.comparators[0], ast.Constant)):
                method = n.comparators[0].value
                break
    g.string("SQLITE_UPDATE_METHOD", method, "POST")
    for q in ["handle", "prepare_context", "can_handle", "__init__"]:
        digests["request_handler/sqlite_update.py:" + q] = T._func_digest(upd, "HttpSQLiteUpdateRequestHandler." + q)

    g.comment("vinegar/data_source/sqlite.py")
    src = T._parse("vinegar/data_source/sqlite.py")
    for q in ["find_system", "get_data", "__init__"]:
        digests["data_source/sqlite.py:SQLiteSource." + q] = T._func_digest(src, "SQLiteSource." + q)


SECTIONS = [sqlite_section]
