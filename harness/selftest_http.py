#!/venv/bin/python
"""
Self-test of the HTTP halves (harness/http_common.py) through the same plumbing `core.evaluate` uses:
worker processes run the real server, the Lean driver answers the model requests, `judge_http` builds
the verdicts.

  harness/selftest_http.py [c03|c09|c10|c20|all] [--tier quick|thorough] [--limit N] [--show]

Exit code 0: no spec failure and no mismatch; 1: otherwise (each failing case is printed); 2: infrastructure.
Run with VINEGAR_REPO=<scratch copy> to look at a repaired or mutated tree.
"""
import argparse
import json
import os
import random
import sys
import time

HERE = os.path.dirname(os.path.abspath(__file__))
sys.path.insert(0, HERE)
import core  # noqa: E402
import http_common as H  # noqa: E402


class _Prop:
    """minimal property module built from the *_http functions (what c09/c10/c20 do for their HTTP half)"""
    MODULE = "http_common"

    def __init__(self, name):
        self.name = name
        self.prop = {"c03": "C03", "c09": "C09", "c10": "C10", "c20": "C20"}[name]

    def env_of(self, case):
        return H.ENV

    def model_requests(self, case, obs):
        return H.model_requests_http(case, obs)

    def judge(self, case, obs, responses):
        return H.judge_http(case, obs, responses, prop=self.prop)

    shrink = staticmethod(H.shrink_http)


def cases_for(name, rng, tier):
    if name == "c03":
        sys.path.insert(0, HERE)
        from props import c03
        return list(c03.gen(rng, tier, 1))
    return list({"c09": H.gen_c09_http, "c10": H.gen_c10_http, "c20": H.gen_c20_http}[name](rng, tier, 1))


def main():
    ap = argparse.ArgumentParser()
    ap.add_argument("which", nargs="?", default="all")
    ap.add_argument("--tier", default="quick")
    ap.add_argument("--limit", type=int, default=0)
    ap.add_argument("--show", action="store_true")
    ap.add_argument("--shrink", action="store_true")
    a = ap.parse_args()
    names = ["c03", "c09", "c10", "c20"] if a.which == "all" else [a.which]
    rc = 0
    for name in names:
        rng = random.Random(int(os.environ.get("VERIF_SEED", "0")) * 7919 + int(name[1:]))
        cases = cases_for(name, rng, a.tier)
        if a.limit:
            cases = cases[:a.limit]
        prop = _Prop(name)
        t0 = time.time()
        try:
            js = []
            for i in range(0, len(cases), 400):
                js.extend(core.evaluate(prop, cases[i:i + 400]))
        except core.Infra as e:
            print(f"{name}: INFRASTRUCTURE {e}")
            sys.exit(2)
        bad_spec = [j for j in js if not j.spec_ok]
        bad_agree = [j for j in js if j.spec_ok and not j.agree]
        kinds = {}
        for j in js:
            kinds[j.kind] = kinds.get(j.kind, 0) + 1
        print(f"{name}: {len(js)} cases, spec failures {len(bad_spec)}, mismatches {len(bad_agree)}, "
              f"{time.time() - t0:.1f} s")
        if a.show:
            print("   kinds:", json.dumps(kinds, sort_keys=True)[:1500])
        seen = set()
        for j in (bad_spec + bad_agree)[:400]:
            key = (j.failed_clause, j.kind)
            if key in seen:
                continue
            seen.add(key)
            case = j.case
            if a.shrink and not j.spec_ok:
                clause = j.failed_clause
                case = core.shrink(prop, case, lambda x: (not x.spec_ok) and x.failed_clause == clause)
                j = core.evaluate(prop, [case])[0]
            print(f"   {'SPEC' if not j.spec_ok else 'MISMATCH'} clause={j.failed_clause} kind={j.kind}")
            print("      case:", json.dumps(H.strip_meta(case))[:700])
            print("      detail:", json.dumps(j.detail, default=str)[:900])
        if bad_spec or bad_agree:
            rc = 1
    sys.exit(rc)


if __name__ == "__main__":
    main()
