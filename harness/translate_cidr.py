"""
Translator section for C05 (DESIGN.md §3.1): literals of vinegar/utils/socket.py that gate
the CIDR membership decision.

  _NETMASK_REGEXP                       -> NETMASK_REGEXP (pattern text)
  _parse_ip_address: `netmask > 32`     -> NETMASK_BOUND_OP_V4 / NETMASK_MAX_V4
                     `netmask > 128`    -> NETMASK_BOUND_OP_V6 / NETMASK_MAX_V6
                     `netmask = 32/128` -> NETMASK_DEFAULT_V4 / NETMASK_DEFAULT_V6
                     rsplit("/", 1)     -> NETMASK_SEPARATOR / NETMASK_MAXSPLIT
  _ip_address_in_subnet: 256, 1, 8, 8   -> SUBNET_MASK_BASE, SUBNET_MASK_ONE, SUBNET_BYTE_BITS
  _parse_ip_address_split_ipv4_ipv6     -> MAPPED_PREFIX (byte literal), MAPPED_V4_TAIL (the 4 of [-4:])
  actions accepted by the file handler  -> DS_ERROR_ACTIONS, NO_RESULT_ACTIONS
"""
import ast

import translate as T

PINNED_PREFIX = [0] * 10 + [255, 255]


def _natlist(g, name, value, pinned):
    if not (isinstance(value, (list, tuple, bytes)) and all(isinstance(x, int) and 0 <= x < 256 for x in value)):
        g.drift.append(name)
        value = pinned
    value = list(value)
    g.values[name] = value
    g.lines.append(f"def {name} : List Nat := [" + ", ".join(str(x) for x in value) + "]")


def _compares(fn, var):
    """(op name, constant) of every `var <op> <int literal>` in fn, in source order"""
    out = []
    for n in ast.walk(fn):
        if (isinstance(n, ast.Compare) and isinstance(n.left, ast.Name) and n.left.id == var
                and len(n.ops) == 1 and isinstance(n.comparators[0], ast.Constant)
                and isinstance(n.comparators[0].value, int)):
            out.append((n.lineno, type(n.ops[0]).__name__, n.comparators[0].value))
    return [(o, v) for _, o, v in sorted(out)]


def _assigned_ints(fn, var):
    out = []
    for n in ast.walk(fn):
        if (isinstance(n, ast.Assign) and len(n.targets) == 1 and isinstance(n.targets[0], ast.Name)
                and n.targets[0].id == var and isinstance(n.value, ast.Constant)
                and isinstance(n.value.value, int) and not isinstance(n.value.value, bool)):
            out.append((n.lineno, n.value.value))
    return [v for _, v in sorted(out)]


def _tuple_after_not_in(fn, attr):
    """the literal tuple in `self.<attr> not in (...)`"""
    for n in ast.walk(fn):
        if (isinstance(n, ast.Compare) and isinstance(n.left, ast.Attribute) and n.left.attr == attr
                and len(n.ops) == 1 and isinstance(n.ops[0], ast.NotIn)):
            try:
                return list(ast.literal_eval(n.comparators[0]))
            except Exception:
                return None
    return None


def section(g, digests):
    if "CIDR_NETMASK_REGEXP" in g.values:
        return          # core.translate() and translate.main() both load the extra sections: emit once
    g.comment("vinegar/utils/socket.py")
    try:
        tree = T._parse("vinegar/utils/socket.py")
        consts = T._module_consts(tree)
    except Exception:
        tree, consts = None, {}
    rx = consts.get("_NETMASK_REGEXP")
    g.string("CIDR_NETMASK_REGEXP", rx[1] if isinstance(rx, tuple) and not rx[2] else None, "[0-9]+")
    parse = T._find_func(tree, "_parse_ip_address") if tree is not None else None
    cmps = _compares(parse, "netmask") if parse is not None else []
    defaults = _assigned_ints(parse, "netmask") if parse is not None else []
    g.string("CIDR_NETMASK_BOUND_OP_V4", cmps[0][0] if len(cmps) == 2 else None, "Gt")
    g.nat("CIDR_NETMASK_MAX_V4", cmps[0][1] if len(cmps) == 2 else None, 32)
    g.string("CIDR_NETMASK_BOUND_OP_V6", cmps[1][0] if len(cmps) == 2 else None, "Gt")
    g.nat("CIDR_NETMASK_MAX_V6", cmps[1][1] if len(cmps) == 2 else None, 128)
    g.nat("CIDR_NETMASK_DEFAULT_V4", defaults[0] if len(defaults) == 2 else None, 32)
    g.nat("CIDR_NETMASK_DEFAULT_V6", defaults[1] if len(defaults) == 2 else None, 128)
    sep, maxsplit = None, None
    if parse is not None:
        for n in ast.walk(parse):
            if (isinstance(n, ast.Call) and isinstance(n.func, ast.Attribute) and n.func.attr in ("rsplit", "split")
                    and len(n.args) == 2 and n.func.attr == "rsplit"):
                try:
                    sep, maxsplit = ast.literal_eval(n.args[0]), ast.literal_eval(n.args[1])
                except Exception:
                    pass
    g.string("CIDR_NETMASK_SEPARATOR", sep, "/")
    g.nat("CIDR_NETMASK_MAXSPLIT", maxsplit, 1)

    sub = T._find_func(tree, "_ip_address_in_subnet") if tree is not None else None
    base = one = None
    eights = []
    if sub is not None:
        for n in ast.walk(sub):
            if (isinstance(n, ast.Assign) and isinstance(n.targets[0], ast.Name) and n.targets[0].id == "byte_mask"
                    and isinstance(n.value, ast.BinOp) and isinstance(n.value.op, ast.Sub)
                    and isinstance(n.value.left, ast.Constant)):
                base = n.value.left.value
                sh = n.value.right
                if (isinstance(sh, ast.BinOp) and isinstance(sh.op, ast.LShift) and isinstance(sh.left, ast.Constant)
                        and isinstance(sh.right, ast.BinOp) and isinstance(sh.right.op, ast.Sub)
                        and isinstance(sh.right.left, ast.Constant) and isinstance(sh.right.right, ast.Name)):
                    one = sh.left.value
                    eights.append(sh.right.left.value)
            if (isinstance(n, ast.BinOp) and isinstance(n.op, (ast.FloorDiv, ast.Mod)) and isinstance(n.left, ast.Name)
                    and n.left.id == "netmask_bits" and isinstance(n.right, ast.Constant)):
                eights.append(n.right.value)
    g.nat("CIDR_SUBNET_MASK_BASE", base, 256)
    g.nat("CIDR_SUBNET_MASK_ONE", one, 1)
    g.nat("CIDR_SUBNET_BYTE_BITS", eights[0] if len(eights) == 3 and len(set(eights)) == 1 else None, 8)

    split = T._find_func(tree, "_parse_ip_address_split_ipv4_ipv6") if tree is not None else None
    prefixes, tails = [], []
    if split is not None:
        for n in ast.walk(split):
            if isinstance(n, ast.Constant) and isinstance(n.value, bytes):
                prefixes.append(n.value)
            if (isinstance(n, ast.Subscript) and isinstance(n.slice, ast.Slice) and n.slice.upper is None
                    and isinstance(n.slice.lower, ast.UnaryOp) and isinstance(n.slice.lower.op, ast.USub)
                    and isinstance(n.slice.lower.operand, ast.Constant)):
                tails.append(n.slice.lower.operand.value)
    _natlist(g, "CIDR_MAPPED_PREFIX", prefixes[0] if len(prefixes) == 2 and prefixes[0] == prefixes[1] else None,
             PINNED_PREFIX)
    g.nat("CIDR_MAPPED_V4_TAIL", tails[0] if len(tails) == 1 else None, 4)
    if tree is not None:
        for q in ["_ip_address_in_subnet", "_parse_ip_address", "_parse_ip_address_split_ipv4_ipv6",
                  "contains_ip_address", "ipv6_address_unwrap"]:
            digests["utils/socket.py:" + q] = T._func_digest(tree, q)

    g.comment("vinegar/request_handler/file.py, sqlite_update.py")
    try:
        ftree = T._parse("vinegar/request_handler/file.py")
        init = T._find_func(ftree, "_FileRequestHandlerBase.__init__")
    except Exception:
        ftree, init = None, None
    g.strlist("CIDR_DS_ERROR_ACTIONS", _tuple_after_not_in(init, "_data_source_error_action") if init else None,
              ["error", "ignore", "warn"])
    g.strlist("CIDR_NO_RESULT_ACTIONS", _tuple_after_not_in(init, "_lookup_no_result_action") if init else None,
              ["continue", "not_found"])
    if ftree is not None:
        for q in ["_FileRequestHandlerBase.__init__", "_FileRequestHandlerBase._handle",
                  "HttpFileRequestHandler.handle", "TftpFileRequestHandler.handle"]:
            digests["request_handler/file.py:" + q] = T._func_digest(ftree, q)
    try:
        stree = T._parse("vinegar/request_handler/sqlite_update.py")
        for q in ["HttpSQLiteUpdateRequestHandler.__init__", "HttpSQLiteUpdateRequestHandler.handle"]:
            digests["request_handler/sqlite_update.py:" + q] = T._func_digest(stree, q)
    except Exception:
        pass
    try:
        dtree = T._parse("vinegar/utils/smart_dict.py")
        dc = T._module_consts(dtree)
        rxi = dc.get("_RE_INT")
        g.string("CIDR_SMART_DICT_RE_INT", rxi[1] if isinstance(rxi, tuple) and not rxi[2] else None, "[0-9]+")
        for q in ["_get_nested_value", "SmartLookupDict.get"]:
            digests["utils/smart_dict.py:" + q] = T._func_digest(dtree, q)
    except Exception:
        g.string("CIDR_SMART_DICT_RE_INT", None, "[0-9]+")


SECTIONS = [section]
