"""
Adapter for C06 / C04: drives the REAL HttpFileRequestHandler / TftpFileRequestHandler
(vinegar/request_handler/file.py) in-process through their public API
(get_instance_* -> set_data_source -> prepare_context -> can_handle -> handle) on a sandbox
tree under a temporary directory, with a recording data source and an audit hook that
logs every file open, and returns one canonical observation per case.

Also answers the validation batches for the concretely modelled stdlib functions
(urllib.parse.unquote, bytes.decode("utf-8", "replace"), os.path.normpath, str.split/join,
str.partition) by calling the real functions.
"""
import hashlib
import io
import json
import os
import shutil
import sys
import tempfile
import atexit

import paths_common as P

_STATE = {"base": None, "trees": {}, "recording": None, "noise": None}


# ------------------------------------------------------------------ audit hook
def _hook(event, args):
    rec = _STATE["recording"]
    if rec is None or event != "open":
        return
    path = args[0]
    if isinstance(path, bytes):
        try:
            path = path.decode("utf-8", "surrogateescape")
        except Exception:
            path = repr(path)
    if not isinstance(path, str):
        return  # file descriptors
    rec.append(path)


def setup():
    """worker_setup: install the audit hook (cannot be removed again; it is idle unless
    a recording list is set) and create the sandbox base directory"""
    if _STATE["base"] is not None:
        return
    base = tempfile.mkdtemp(prefix="vp", dir="/tmp")
    _STATE["base"] = base
    atexit.register(shutil.rmtree, base, True)
    _STATE["noise"] = tuple(
        os.path.realpath(p) + os.sep for p in {sys.prefix, sys.base_prefix, os.environ.get("VINEGAR_REPO", "/repo"),
                                               os.path.dirname(os.path.abspath(__file__))})
    sys.addaudithook(_hook)


def _is_noise(path):
    """opens the interpreter itself performs (imports, codec tables) are not the handler's"""
    try:
        rp = os.path.realpath(path)
    except Exception:
        return False
    base = _STATE["base"]
    if rp.startswith(base + os.sep) or rp == base:
        return False
    return rp.startswith(_STATE["noise"]) and (rp.endswith((".py", ".pyc", ".so", ".pth")) or "/__pycache__/" in rp)


# ------------------------------------------------------------------ sandbox
def _materialise(tree):
    key = hashlib.sha1(json.dumps(tree, sort_keys=True).encode()).hexdigest()[:8]
    got = _STATE["trees"].get(key)
    if got:
        return got
    top = os.path.join(_STATE["base"], "t" + key)

    def build(path, node):
        if isinstance(node, dict):
            os.mkdir(path)
            for name, sub in node.items():
                build(os.path.join(path, name), sub)
        else:
            with open(path, "wb") as f:
                f.write(P.file_bytes(node))
    build(top, tree)
    _STATE["trees"][key] = top
    return top


def _canon_path(p, top, sbx):
    if p == top or p.startswith(top + "/"):
        # (the sandbox's own path may occur again further down when a request spelled it out)
        return sbx + p[len(top):].replace(top, sbx)
    return p


# ------------------------------------------------------------------ recording data source
class RecordingSource:
    def __init__(self, spec, log):
        self.spec = spec
        self.log = log

    def find_system(self, lookup_key, lookup_value):
        self.log.append(["find", lookup_key, lookup_value if isinstance(lookup_value, str) else P.tagged(lookup_value)])
        if self.spec.get("find_raises"):
            raise RuntimeError("scripted find_system failure")
        return self.spec.get("find", {}).get(lookup_value)

    def get_data(self, system_id, preloaded_data, preloaded_data_version):
        entry = ["data", system_id if isinstance(system_id, str) else P.tagged(system_id)]
        if preloaded_data != {} or preloaded_data_version != "":
            entry.append({"unexpected_args": [repr(preloaded_data), repr(preloaded_data_version)]})
        self.log.append(entry)
        if self.spec.get("data_raises"):
            raise RuntimeError("scripted get_data failure")
        d = self.spec.get("data", {}).get(system_id, {"tok": "<none>", "addrs": []})   # a total data source
        return {"tok": d["tok"], "net": {"addr": list(d["addrs"])}}, "v1"


# ------------------------------------------------------------------ one request
def _config(cfg, top, tftp):
    c = {"request_path": cfg["request_path"]}
    for k in ("file", "root_dir"):
        if k in cfg:
            v = cfg[k]
            c[k] = (top + "/" + v) if v else v
    for k in ("file_suffix", "lookup_key", "client_address_key", "client_address_list"):
        if cfg.get(k) is not None:
            c[k] = cfg[k]
    if cfg.get("placeholder") is not None:
        c["lookup_value_placeholder"] = cfg["placeholder"]
    if cfg.get("transform"):
        c["lookup_value_transform"] = cfg["transform"]
    c["lookup_no_result_action"] = cfg.get("no_result", "not_found")
    c["data_source_error_action"] = cfg.get("ds_error", "error")
    if cfg.get("template"):
        c["template"] = "jinja"
    return c


def _drive(case, tftp, req, method, top, sbx):
    """construct the handler of one protocol and put one request through it"""
    from vinegar.request_handler import file as F
    log, opens = [], []
    cfg = case["cfg"]
    try:
        for pt in case.get("prior_transforms") or []:
            # handlers created earlier in the same process (their own configuration, never used for this request)
            try:
                (F.get_instance_tftp if tftp else F.get_instance_http)(
                    _config(dict(cfg, transform=pt, lookup_key=cfg.get("lookup_key") or "net:mac",
                                 request_path="/prior/..."), top, tftp))
            except (ValueError, KeyError):
                pass
        conf = _config(cfg, top, tftp)
        handler = (F.get_instance_tftp if tftp else F.get_instance_http)(conf)
    except (ValueError, KeyError) as e:
        return {"ctor": type(e).__name__}
    ds = RecordingSource(case.get("ds", {}), log)
    if cfg.get("lookup_key") or case.get("ds_always"):
        handler.set_data_source(ds)
    client = (case.get("client_ip", "192.0.2.1"), 40000)
    server = ("192.0.2.254", 80)
    out = {"ctor": "ok"}
    exc = None
    outcome = None
    accepted = None
    _STATE["recording"] = opens
    try:
        ctx = handler.prepare_context(req)
        accepted = bool(handler.can_handle(req, ctx))
        if accepted:
            if tftp:
                from vinegar.tftp.server import TftpError
                from vinegar.tftp.protocol import ErrorCode
                try:
                    f = handler.handle(req, client, server, ctx)
                    try:
                        body = f.read()
                    finally:
                        f.close()
                    outcome = ["served", body]
                except TftpError as e:
                    if e.error_code == ErrorCode.FILE_NOT_FOUND:
                        outcome = ["notFound"]
                    elif e.error_code == ErrorCode.ACCESS_VIOLATION:
                        outcome = ["forbidden"]
                    else:
                        outcome = ["internalError"]
                        exc = "TftpError:" + str(e.error_code)
            else:
                import http.client
                from http import HTTPStatus
                from vinegar.http.server import HttpRequestInfo
                info = HttpRequestInfo(client_address=client, headers=http.client.HTTPMessage(), method=method,
                                       server_address=server, uri=req)
                status, headers, f = handler.handle(info, io.BytesIO(b""), ctx)
                if status == HTTPStatus.OK:
                    body = None
                    if f is not None:
                        try:
                            body = f.read()
                        finally:
                            f.close()
                    outcome = ["served", body]
                    out["content_length"] = (headers or {}).get("Content-Length")
                elif status == HTTPStatus.NOT_FOUND:
                    outcome = ["notFound"]
                elif status == HTTPStatus.FORBIDDEN:
                    outcome = ["forbidden"]
                elif status == HTTPStatus.METHOD_NOT_ALLOWED:
                    outcome = ["methodNotAllowed"]
                else:
                    outcome = ["internalError"]
                    exc = "status:" + str(int(status))
    except Exception as e:  # what the servers would log as an internal error
        outcome = ["internalError"]
        exc = type(e).__name__
        if isinstance(e, OSError) and e.errno is not None:
            import errno as _errno
            exc += ":" + _errno.errorcode.get(e.errno, str(e.errno))
    finally:
        _STATE["recording"] = None
    if accepted is None:
        return {"ctor": "ok", "prepare_raised": exc}
    out["accepted"] = accepted
    out["calls"] = log
    seen_opens = [p for p in opens if not _is_noise(p)]
    out["opens"] = [_canon_path(os.path.abspath(p), top, sbx) for p in seen_opens]
    # what each opened path is, probed independently (validates the model's file system)
    out["open_kinds"] = [_probe(os.path.abspath(p)) for p in seen_opens]
    if exc:
        out["exception"] = exc
    if outcome is not None and outcome[0] == "served":
        body = outcome[1]
        path = out["opens"][-1] if out["opens"] else None
        if body is None:        # HEAD
            out["outcome"] = ["served", path, None, None]
            out["head"] = True
        else:
            content, tctx = P.parse_body(body, bool(cfg.get("template")))
            out["outcome"] = ["served", path, content, tctx]
    else:
        out["outcome"] = outcome
    return out


def _probe(path):
    try:
        with open(path, "rb"):
            return "content"
    except OSError as e:
        import errno
        return errno.errorcode.get(e.errno, str(e.errno))


def run_request(case):
    top = _materialise(case["tree"])
    sbx = P.sbx_token(len(top))
    tftp = case["proto"] == "tftp"
    req = case["req"].replace("@TOP", top)      # requests that spell out the sandbox's own absolute path
    obs = {"sbx": sbx, "main": _drive(case, tftp, req, case.get("method", "GET"), top, sbx)}
    if tftp and obs["main"].get("ctor") == "ok":
        # HTTP twin for the parity clause: same configuration, the name with a leading slash
        obs["twin"] = _drive(case, False, P.slashed(req), "GET", top, sbx)
    return obs


def run_batch(case):
    import urllib.parse
    kind = case["kind"]
    items = case["items"]
    if kind == "unquote":
        return {"results": [urllib.parse.unquote(s) for s in items]}
    if kind == "normpath":
        return {"results": [os.path.normpath(s) for s in items]}
    if kind == "utf8":
        return {"results": [bytes.fromhex(h).decode("utf-8", "replace") for h in items]}
    if kind == "splitjoin":
        return {"results": [{"split": s.split("/"), "cut": s.partition("?")[0], "rejoin": "/".join(s.split("/"))}
                            for s in items]}
    if kind == "translate":
        from vinegar.request_handler import file as F
        h = F.get_instance_http({"request_path": "/", "root_dir": case["root"], "file_suffix": case["suffix"]})
        return {"results": [h._translate_path(s) for s in items]}  # pylint: disable=protected-access
    raise ValueError("unknown batch kind " + kind)


def run_case(case):
    if case.get("kind", "request") == "request":
        return run_request(case)
    return run_batch(case)
