"""
C17 — shared pieces of the Jinja engine check: the abstract template syntax and its printing as
real Jinja source, case generators, shrinking, and the translation of a case into driver requests.

World layout of a history case (all below a temporary directory T that the adapter creates):
    T/w/r            the root (root_dir if the configuration has one) and the working directory
    T/w/r/sub, T/w/r/sub/deep, T/w/r/other   sub-directories
File paths in `write`/`delete` operations are relative to T ("w/r/a.j2"). Template names are
strings; a name that starts with "@T" is absolute ("@T/w/r/a.j2" -> T + "/w/r/a.j2").
Templates are lists of nodes:
    ["t", text]  literal          ["v", x]    {{ x }}
    ["i", name]  {% include %}    ["m", name] {% import name as impK %}{{ impK }}
    ["p", key]   {{ python[key] }}
    ["io", name] {% include name ignore missing %}: Jinja compiles it to `try: t = get_template(name) except
                 TemplateNotFound: pass else: <render t>` — only the failure to GET that very template is swallowed
"""
import json
import os

FUEL = 12
ROOT = "w/r"
STAMP_BASE = 1_600_000_000  # mtime of stamp s is STAMP_BASE + s seconds (exact as float)

# fake importable modules (written to a scratch directory on sys.path by the adapter)
MODULES = {
    "vpk": {"who": "vpk", "n": "1"},
    "vpk.sub": {"who": "vpk.sub", "n": "2"},
    "vpk.sub.deep": {"who": "vpk.sub.deep"},
    "vpk.subx": {"who": "vpk.subx"},
    "vpkx": {"who": "vpkx"},
    "vpk_x": {"who": "vpk_x"},
    "vp": {"who": "vp"},
    "vq.vpk": {"who": "vq.vpk"},
    "vq": {"who": "vq"},
}

# confusable names for the allow-list decision (module names need not exist for `_check_access`)
ACCESS_NAMES = [
    "os", "os.path", "ossaudiodev", "os.", ".os", "os.path.sub", "osx", "o", "OS", "os.*", "os*", "*", "", ".",
    "..", ".*", "*.*", "os..path", "posix", "pkg", "pkg.sub", "pkg.sub.deep", "pkgx", "pkg_", "pkg.", "pk",
    "pkgx.sub", "xpkg", "x.pkg", "x.pkg.sub", "pkg.*", "pkg.*.sub", "Pkg.sub", "pkg .sub", "pkg.sub ", " pkg",
    "vpk", "vpk.sub", "vpkx", "subprocess", "sub", "sys", "system", "importlib", "import", "a.b.c", "a.b", "a",
]
ACCESS_ENTRIES = [
    "*", "os", "os.*", "os.path", "os.path.*", "pkg", "pkg.*", "pkg.sub", "pkg.sub.*", "pkgx", ".*", "*.*", "**",
    "", "pkg*", "pkg.", "pkg..*", "x.*", "a.b.*", "a.*", "vpk.*", "vpk", "o*", "os.pat*", "*.path", "sys",
    "OS", "os .*", "os.* ", "pk.*", "p.*",
]

TEXT_ALPHABET = "abcxyz019 []()<>:;,._-=+!?"


def load_generated():
    here = os.path.dirname(os.path.abspath(__file__))
    try:
        with open(os.path.join(here, "..", "lean", "Vinegar", "Generated", "meta.json")) as f:
            return json.load(f).get("values", {})
    except Exception:
        return {}


# ----------------------------------------------------------------------------- printing
def subst(name, world):
    return world + name[2:] if name.startswith("@T") else name


def jinja_source(tmpl, world):
    out = []
    for k, (tag, arg) in enumerate(tmpl):
        if tag == "t":
            out.append(arg)
        elif tag == "v":
            out.append("{{ %s }}" % arg)
        elif tag == "i":
            out.append('{%% include "%s" %%}' % subst(arg, world))
        elif tag == "io":
            out.append('{%% include "%s" ignore missing %%}' % subst(arg, world))
        elif tag == "m":
            out.append('{%% import "%s" as imp%d %%}{{ imp%d }}' % (subst(arg, world), k, k))
        elif tag == "p":
            out.append('{{ python["%s"] }}' % arg)
        elif tag == "j":
            # vinegar's serialisation extension: the imported file is rendered (without context) and parsed as JSON
            out.append('{%% import_json "%s" as dat%d %%}{{ dat%d }}' % (subst(arg, world), k, k))
        elif tag == "y":
            out.append('{%% import_yaml "%s" as dat%d %%}{{ dat%d }}' % (subst(arg, world), k, k))
        elif tag == "q":
            out.append(json.dumps(arg))     # a data file: one JSON string (for the model: the text itself)
        else:
            raise ValueError(tag)
    return "".join(out)


# ----------------------------------------------------------------------------- config
def effective(cfg):
    g = load_generated()
    ce = cfg.get("cache_enabled")
    ri = cfg.get("relative")
    return {
        "cache_enabled": bool(g.get("JINJA_DEFAULT_CACHE_ENABLED", 1)) if ce is None else ce,
        "relative": bool(g.get("JINJA_DEFAULT_RELATIVE_INCLUDES", 1)) if ri is None else ri,
    }


def engine_config(cfg, world):
    c = {}
    if cfg.get("root"):
        c["root_dir"] = os.path.join(world, ROOT)
    if cfg.get("cache_enabled") is not None:
        c["cache_enabled"] = cfg["cache_enabled"]
    if cfg.get("relative") is not None:
        c["relative_includes"] = cfg["relative"]
    if cfg.get("context") is not None:
        c["context"] = dec_ctx(cfg["context"])
    if "allow" in cfg:
        c["provide_python_modules"] = cfg["allow"]
    if cfg.get("cache_size") is not None:
        c["env"] = {"cache_size": cfg["cache_size"]}
    return c


def model_cfg(cfg, world):
    e = effective(cfg)
    w = world.strip("/")
    return {
        "root": (w + "/" + ROOT) if cfg.get("root") else None,
        "cwd": w + "/" + ROOT,
        "cache_enabled": e["cache_enabled"],
        "relative": e["relative"],
        "context": sorted(model_ctx(cfg.get("context") or {}).items()),
        "allow": cfg.get("allow"),
        "modules": [[m, sorted(a.items())] for m, a in sorted(MODULES.items())],
    }


# node tags whose argument is a template name
NAME_TAGS = ("i", "io", "m", "j", "y")
# share of the generated plain includes that carry `ignore missing`
OPTIONAL_INCLUDE_SHARE = 0.25


def subst_tmpl(tmpl, world):
    """a template as the MODEL sees it: `import_json` of a data file is an import whose value is the file's text (the
    JSON quoting the adapter writes and the parsing `import_json` does cancel: json.loads(json.dumps(t)) == t)"""
    m = {"j": "m", "y": "m", "q": "t"}
    return [[m.get(tag, tag), subst(arg, world) if tag in NAME_TAGS else arg] for tag, arg in tmpl]


def history_request(case, obs):
    world = obs.get("world", "/T")
    w = world.strip("/")
    ops = []
    for op in case["ops"]:
        if op[0] == "write":
            ops.append(["write", w + "/" + op[1], subst_tmpl(op[2], world), op[3]])
        elif op[0] == "delete":
            ops.append(["delete", w + "/" + op[1]])
        elif op[0] == "render_w":
            # a render during which the rendered file is replaced right after the engine has read it: for the
            # model a render (of the old content) followed by the write
            ops.append(["render", subst(op[1], world), sorted(model_ctx(op[2]).items())])
            ops.append(["write", w + "/" + op[3], subst_tmpl(op[4], world), op[5]])
        else:
            ops.append(["render", subst(op[1], world), sorted(model_ctx(op[2]).items())])

    def unworld(lst):
        return [[o[0], o[1]] for o in (lst or [])]
    return {"op": "jinja_history", "cfg": model_cfg(case["cfg"], world), "fuel": FUEL, "ops": ops,
            "impl": {"engine": unworld(obs.get("engine")), "fresh": unworld(obs.get("fresh"))}}


# ----------------------------------------------------------------------------- generator
DIRS = ["", "sub/", "sub/deep/", "other/"]
LEVEL_FILES = {
    0: ["a.j2", "sub/b.j2", "sub/deep/c.j2"],
    1: ["inc1.j2", "sub/inc1.j2", "lib1.j2", "sub/lib1.j2", "other/inc1.j2", "sub/deep/lib1.j2"],
    2: ["leaf.j2", "sub/leaf.j2", "sub/deep/leaf.j2", "other/leaf.j2", "leaf2.j2", "data.json", "sub/data.json", "other/data.yaml"],
}
VARS = ["x", "y", "z"]


def _dir_of(path):
    return path.rsplit("/", 1)[0] + "/" if "/" in path else ""


def rel_name(target, from_file):
    """name of `target` (root-relative) relative to the directory of `from_file`"""
    fd = [s for s in _dir_of(from_file).split("/") if s]
    td = target.split("/")
    k = 0
    while k < len(fd) and k < len(td) - 1 and fd[k] == td[k]:
        k += 1
    return "/".join([".."] * (len(fd) - k) + td[k:])


def gen_ref_name(rng, cfg_rel, from_file, target, root):
    """spelling of an include/import of `target` inside `from_file`"""
    style = rng.random()
    if style < 0.80:
        name = rel_name(target, from_file) if cfg_rel else target
    elif style < 0.87:
        name = target if cfg_rel else rel_name(target, from_file)   # the other convention
    elif style < 0.93:
        name = "./" + (rel_name(target, from_file) if cfg_rel else target)
    elif style < 0.95:
        name = "missing.j2"
    elif style < 0.97 and not root:
        name = "@T/" + ROOT + "/" + target
    elif style < 0.985:
        # absolute and not normalised: a dot-dot segment in the middle
        name = ("/sub/../" + target) if root else ("@T/" + ROOT + "/other/../" + target)
    else:
        name = "/" + target
    return name


def gen_text(rng, tag):
    n = rng.randrange(0, 4)
    return tag + "".join(rng.choice(TEXT_ALPHABET) for _ in range(n))


def gen_pykey(rng):
    r = rng.random()
    mods = sorted(MODULES)
    if r < 0.7:
        m = rng.choice(mods)
    elif r < 0.9:
        m = rng.choice(["vpq", "vpk.nosuch", "vpkx.sub", "vpk.sub.deep.er", "vpkk"])
    else:
        return rng.choice(["vpk", "who", "novalue"])
    return m + "." + rng.choice(["who", "who", "n", "missing"])


def gen_tmpl(rng, cfg, level, path, version, flat_imports, via_import=False, pools=None):
    rel = effective(cfg)["relative"]
    if path.endswith((".json", ".yaml")):
        # a data file: one JSON string (which is YAML as well)
        return [["q", gen_text(rng, "<%s#%d>" % (path.rsplit(".", 1)[0], version))]]
    nodes = [["t", gen_text(rng, "<%s#%d>" % (path.replace(".j2", ""), version))]]
    for _ in range(rng.randrange(0, 4)):
        r = rng.random()
        if level < 2 and r < 0.55 and not (via_import and flat_imports):
            pool = (pools or LEVEL_FILES)[level + 1]
            target = rng.choice(pool if rng.random() < 0.93 else LEVEL_FILES[level + 1])
            is_lib = "lib" in target
            tag = "m" if (is_lib and rng.random() < 0.85) or (not is_lib and rng.random() < 0.1) else "i"
            if target.endswith(".json"):
                tag = "j"
            elif target.endswith(".yaml"):
                tag = "y"
            elif tag == "i" and rng.random() < OPTIONAL_INCLUDE_SHARE:
                tag = "io"
            nodes.append([tag, gen_ref_name(rng, rel, path, target, cfg.get("root"))])
        elif r < 0.75:
            nodes.append(["v", rng.choice(VARS)])
        elif r < 0.82 and "allow" in cfg:
            nodes.append(["p", gen_pykey(rng)])
        else:
            nodes.append(["t", gen_text(rng, "")])
    return nodes


def gen_ctx(rng, prefix):
    """variable -> value; mostly strings, sometimes a mapping / one-element set / number (encoded, see dec_val): a
    configured value replaces the caller's value of the same name as a whole, whatever the two values are"""
    out = {}
    for v in VARS:
        if rng.random() < 0.5:
            r = rng.random()
            if r < 0.75:
                out[v] = prefix + v
            elif r < 0.90:
                out[v] = {"$d": {prefix + "k": prefix + v}}
            elif r < 0.96:
                out[v] = {"$s": [prefix + v]}
            else:
                out[v] = {"$n": len(prefix)}
    return out


def dec_val(v):
    if isinstance(v, dict):
        if "$d" in v:
            return {k: dec_val(x) for k, x in v["$d"].items()}
        if "$s" in v:
            return set(v["$s"])
        if "$n" in v:
            return v["$n"]
    return v


def dec_ctx(ctx):
    return {k: dec_val(v) for k, v in ctx.items()}


def model_ctx(ctx):
    """the model's values are the texts `{{ var }}` prints: str() of the value"""
    return {k: str(dec_val(v)) for k, v in ctx.items()}


def gen_cfg(rng, i, nested):
    cfg = {
        "root": bool(i & 1),
        "cache_enabled": [True, False, None][(i >> 1) % 3],
        "relative": [True, False, None][(i // 6) % 3],
        "context": gen_ctx(rng, "B") if rng.random() < 0.6 else None,
    }
    r = rng.random()
    if r < 0.35:
        cfg["allow"] = rng.choice([["vpk.*"], ["vpk"], "vpk.sub", ["*"], ["vpk", "vpk.sub.*"], "*", [], None, "",
                                   ["vpkx", "vq.*"], ["vp.*"], ["vpk.sub", "vpk_x"]])
    if rng.random() < 0.25:
        cfg["cache_size"] = rng.choice([0, -1, 50] if nested else [0, 1, 2, -1, 50])
    return cfg


def render_name(rng, cfg, top):
    r = rng.random()
    if r < 0.72:
        return top
    if r < 0.80:
        return "./" + top
    if r < 0.88:
        return "/" + top if cfg.get("root") else "@T/" + ROOT + "/" + top
    if r < 0.93:
        return "sub/../" + top
    if r < 0.95:
        return "nosuch.j2"
    if r < 0.985:
        return top.replace("/", "//")
    return top + "/x"


def gen_history_case(rng, i, nested=False, nops=None):
    cfg = gen_cfg(rng, i, nested)
    flat = not nested
    files = {}
    versions = {}
    stamp = [0]
    ops = []
    imported = set()

    def write(path, level):
        versions[path] = versions.get(path, 0) + 1
        stamp[0] += rng.choice([1, 1, 1, 2, 7])
        via_import = "lib" in path
        t = gen_tmpl(rng, cfg, level, path, versions[path], flat, via_import, pools)
        ops.append(["write", ROOT + "/" + path, t, stamp[0]])
        if path not in files and versions[path] == 1 and rng.random() < 0.12:
            ops[-1].append("symlink")       # the file is reached through a symbolic link; edits change the target
        elif path in files and not cfg.get("root") and rng.random() < 0.12:
            # replaced by a file with the OLD modification time (cp -p, rsync -t): vinegar's loader hashes ctime, inode
            # and size as well; with root_dir Jinja2's own loader compares the mtime alone (documented there)
            ops[-1].append("keep_mtime" if rng.random() < 0.5 else "keep_stat")
        files[path] = level

    tops = rng.sample(LEVEL_FILES[0], rng.randrange(1, 3))
    l1 = rng.sample(LEVEL_FILES[1], rng.randrange(2, 6))
    l2 = rng.sample(LEVEL_FILES[2], rng.randrange(1, 5))
    pools = {0: tops, 1: l1, 2: l2}
    for p in l2:
        write(p, 2)
    for p in l1:
        write(p, 1)
    for p in tops:
        write(p, 0)
    n = nops if nops is not None else rng.randrange(3, 11)
    for _ in range(n):
        r = rng.random()
        if r < 0.04 and not cfg.get("root"):
            # the rendered top-level file is rewritten while it is being rendered (just after it was read): vinegar's own
            # loader takes the file's version BEFORE reading it, so the next render notices. Not generated with
            # root_dir: there jinja2.FileSystemLoader reads first and takes the mtime afterwards, and such an edit is
            # never noticed (third-party behaviour, outside the property's histories of atomic edits and renders;
            # DESIGN.md 11.3, residual observations)
            top = rng.choice(tops)
            versions[top] = versions.get(top, 0) + 1
            stamp[0] += rng.choice([1, 2, 7])
            t = gen_tmpl(rng, cfg, 0, top, versions[top], flat, False, pools)
            ops.append(["render_w", top, gen_ctx(rng, "c"), ROOT + "/" + top, t, stamp[0]])
        elif r < 0.55:
            ops.append(["render", render_name(rng, cfg, rng.choice(tops)), gen_ctx(rng, "c")])
        elif r < 0.93:
            pool = rng.choice([tops, l1, l1, l2, l2])
            p = rng.choice(pool)
            write(p, 0 if p in LEVEL_FILES[0] else 1 if p in LEVEL_FILES[1] else 2)
        else:
            p = rng.choice(l1 + l2)
            if p in files:
                ops.append(["delete", ROOT + "/" + p])
                del files[p]
    ops.append(["render", rng.choice(tops), gen_ctx(rng, "c")])
    return {"kind": "history", "cfg": cfg, "ops": ops,
            "_meta": {"stream": "nested" if nested else "flat"}}


def gen_pyget_case(rng):
    allow = rng.choice([["vpk.*"], ["vpk"], "vpk.sub", ["*"], ["vpk", "vpk.sub.*"], "*", ["vpkx", "vq.*"],
                        ["vp.*"], ["vpk.sub", "vpk_x"], ["vpk.su*"], ["vpk*"], ["vq.vpk"], ["*.vpk"], [], "", None,
                        ["vpk.sub.deep"], ["vpk.sub.*", "vpk.subx"], [".*"], ["vpk."], ["VPK.*"],
                        ["vpk", "vpk.*"], ["vpk", "vpk.*", "vq", "vq.*"], "vpk.*", ["*", "vpk"], ["vpk.*", "vpkx", "vp"]])
    cfg = {"root": rng.random() < 0.5, "cache_enabled": rng.choice([True, False, None]), "relative": None,
           "context": None, "allow": allow}
    key = gen_pykey(rng)
    if rng.random() < 0.5 and allow and allow not in ("*", ["*"]):
        # aim at the boundary of one entry: the entry itself, its package, a sibling, a sub-module
        e = allow if isinstance(allow, str) else rng.choice(allow)
        stem = e[:-2] if e.endswith(".*") else e
        m = rng.choice([stem, stem + ".sub", stem + "x", stem + "_x", stem.rsplit(".", 1)[0], "vq." + stem])
        # importlib treats "", ".x", "x." and "x..y" as relative/invalid names (TypeError/ValueError from
        # import_module itself, partly swallowed by Jinja's subscript fallback): outside the modelled imports
        if m and not m.startswith(".") and not m.endswith(".") and ".." not in m and " " not in m:
            key = m + "." + rng.choice(["who", "who", "n", "missing"])
    ops = [["write", ROOT + "/p.j2", [["p", key]], 1], ["render", "p.j2", {}], ["render", "p.j2", {}]]
    return {"kind": "history", "cfg": cfg, "ops": ops, "_meta": {"stream": "pyget"}}


def gen_nested_memo_case(rng, i):
    """a file reached THROUGH an import is edited between two renders (Jinja2 memoises the module of
    an imported template per compiled template: the recorded finding when the cache is enabled)"""
    cfg = {"root": bool(i & 1), "cache_enabled": [True, None, False][(i >> 1) % 3],
           "relative": [True, False, None][(i // 6) % 3], "context": gen_ctx(rng, "B") if i % 4 == 0 else None}
    how_top = rng.choice(["m", "m", "i"])
    how_lib = rng.choice(["i", "m"])
    ops = [["write", ROOT + "/leaf.j2", [["t", "<leaf#1>"], ["v", "x"]], 1],
           ["write", ROOT + "/lib1.j2", [["t", "<lib1#1>"], [how_lib, "leaf.j2"]], 2],
           ["write", ROOT + "/a.j2", [["t", "<a#1>"], [how_top, "lib1.j2"], ["v", "x"]], 3],
           ["render", "a.j2", gen_ctx(rng, "c")]]
    stamp = 3
    for k in range(rng.randrange(1, 4)):
        stamp += 1
        which = rng.choice(["leaf", "leaf", "lib1", "a"])
        if which == "leaf":
            ops.append(["write", ROOT + "/leaf.j2", [["t", "<leaf#%d>" % (k + 2)], ["v", "x"]], stamp])
        elif which == "lib1":
            ops.append(["write", ROOT + "/lib1.j2", [["t", "<lib1#%d>" % (k + 2)], [how_lib, "leaf.j2"]], stamp])
        else:
            ops.append(["write", ROOT + "/a.j2", [["t", "<a#%d>" % (k + 2)], [how_top, "lib1.j2"]], stamp])
        ops.append(["render", "a.j2", gen_ctx(rng, "c")])
    return {"kind": "history", "cfg": cfg, "ops": ops, "_meta": {"stream": "nested-memo"}}


OPTIONAL_SHAPES = ["plain", "plain", "never", "nested", "under_file", "dotdot", "both", "twice", "directory", "import_inside"]


def gen_optional_case(rng, i):
    """`{% include "x" ignore missing %}` on ONE long-lived engine while the optionally included file comes and goes.
    Configuration: root_dir x cache_enabled x relative_includes from `i` (every combination within 36 consecutive
    values of i). Every case contains the core  render / delete / render / re-create / render  around the file that
    decides (in a random order of first state: there or missing from the start), interleaved with random edits of the
    including template, of the optional file and further renders. Shapes:
      plain        top = A {io opt} Z
      never        the same, but opt does not exist at the start
      nested       top = A {io mid} Z, mid = M {i leaf}: deleting `leaf` must RAISE (the error comes from rendering
                   mid, not from getting it); deleting `mid` renders as nothing
      under_file   top = A {io blocker.j2/x.j2} Z: `blocker.j2` is a regular file. Without root_dir open() fails with
                   ENOTDIR and NotADirectoryError escapes _Loader.get_source (not a TemplateNotFound: propagates);
                   with root_dir FileSystemLoader says TemplateNotFound (swallowed). The file that comes and goes is
                   the blocker
      dotdot       top (in the root directory) = A {io ../up.j2} Z: with root_dir split_template_path refuses the name
                   (TemplateNotFound: swallowed, whether or not w/up.j2 exists); without root_dir the file above the
                   working directory is included while it exists
      both         top = A {io opt} | {i opt} Z: the plain include of the same file still raises when it is gone
      twice        top = A {io opt} {io opt} Z
      directory    top = A {io sub} Z, `sub` is a directory (IsADirectoryError -> TemplateNotFound / isfile false) next
                   to an ordinary optional include
      import_inside  the optional file imports a library; the library is the file that comes and goes (an import has no
                   `ignore missing`: raises)"""
    cfg = {"root": bool(i & 1), "cache_enabled": [True, False, None][(i >> 1) % 3],
           "relative": [True, False, None][(i // 6) % 3],
           "context": gen_ctx(rng, "B") if rng.random() < 0.25 else None}
    if rng.random() < 0.2:
        cfg["cache_size"] = rng.choice([0, 1, 2, 50])
    rel = effective(cfg)["relative"]
    shape = OPTIONAL_SHAPES[(i // 36 + i) % len(OPTIONAL_SHAPES)] if rng.random() < 0.7 else rng.choice(OPTIONAL_SHAPES)
    d = "" if shape == "dotdot" else rng.choice(["", "sub/", "sub/deep/"])
    top = d + rng.choice(["a.j2", "b.j2"])

    def ref(target):
        name = rel_name(target, top) if rel else target
        return "./" + name if rng.random() < 0.1 else name

    opt, mid, leaf, blocker, lib = d + "opt.j2", d + "mid.j2", d + "leaf.j2", d + "blocker.j2", d + "lib1.j2"
    ver = {}
    stamp = [0]
    ops = []

    def body(path):
        """current template of `path` for this shape (a new version text every time)"""
        ver[path] = ver.get(path, 0) + 1
        tag = ["t", "<%s#%d>" % (path.replace(".j2", ""), ver[path])]
        if path == top:
            inner = {"plain": [["io", ref(opt)]], "never": [["io", ref(opt)]],
                     "nested": [["io", ref(mid)]],
                     "under_file": [["io", ref(blocker) + "/x.j2"]],
                     "dotdot": [["io", "../up.j2"]],
                     "both": [["io", ref(opt)], ["t", "|"], ["i", ref(opt)]],
                     "twice": [["io", ref(opt)], ["io", ref(opt)]],
                     "directory": [["io", ref("sub") if d == "" else ref(d.rstrip("/"))], ["io", ref(opt)]],
                     "import_inside": [["io", ref(opt)]]}[shape]
            return [tag] + inner + [["v", "x"], ["t", "Z"]]
        if path == mid:
            return [tag, ["i", rel_name(leaf, mid) if rel else leaf]]
        if path == opt and shape == "import_inside":
            return [tag, ["m", rel_name(lib, opt) if rel else lib]]
        return [tag, ["v", "y"]] if rng.random() < 0.5 else [tag]

    def write(path, where=None):
        stamp[0] += rng.choice([1, 1, 2, 5])
        ops.append(["write", where or (ROOT + "/" + path), body(path), stamp[0]])

    def delete(path, where=None):
        ops.append(["delete", where or (ROOT + "/" + path)])

    def render():
        ops.append(["render", top if rng.random() < 0.9 else "./" + top, gen_ctx(rng, "c")])

    # the file whose presence decides, and the other files of the shape
    if shape == "nested":
        comes_goes, fixed = rng.choice([mid, leaf]), [mid, leaf]
    elif shape == "under_file":
        comes_goes, fixed = blocker, [blocker]
    elif shape == "dotdot":
        comes_goes, fixed = "up.j2", ["up.j2"]
    elif shape == "import_inside":
        comes_goes, fixed = rng.choice([lib, opt]), [lib, opt]
    else:
        comes_goes, fixed = opt, [opt]
    where = "w/up.j2" if shape == "dotdot" else None       # one level above the root / working directory
    present = not (shape == "never" or rng.random() < 0.25)
    for p in fixed:
        if p != comes_goes or present:
            write(p, where if p == "up.j2" else None)
    write(top)
    core = ["render", "toggle", "render", "toggle", "render"]
    extra = [rng.choice(["render", "render", "edit_top", "edit_file", "toggle", "edit_other"])
             for _ in range(rng.randrange(0, 5))]
    # the core keeps its order; the extra operations are interleaved at random positions
    word = list(core)
    for e in extra:
        word.insert(rng.randrange(0, len(word) + 1), e)
    for w in word:
        if w == "render":
            render()
        elif w == "toggle":
            if present:
                delete(comes_goes, where)
            else:
                write(comes_goes, where)
            present = not present
        elif w == "edit_top":
            write(top)
        elif w == "edit_file":
            if present:
                write(comes_goes, where)
        else:
            others = [p for p in fixed if p != comes_goes]
            if others:
                write(rng.choice(others))
    render()
    return {"kind": "history", "cfg": cfg, "ops": ops, "_meta": {"stream": "optional", "shape": shape}}


def gen_access_case(rng, nq=None, exhaustive_entry=None):
    r = rng.random()
    if exhaustive_entry is not None:
        allow = exhaustive_entry
    elif r < 0.25:
        allow = rng.choice(ACCESS_ENTRIES)
    elif r < 0.3:
        allow = rng.choice([None, [], ""])
    else:
        allow = [rng.choice(ACCESS_ENTRIES) for _ in range(rng.randrange(1, 4))]
    n = nq if nq is not None else rng.randrange(4, 30)
    queries = [rng.choice(ACCESS_NAMES) for _ in range(n)]
    return {"kind": "access", "allow": allow, "queries": queries, "_meta": {"stream": "access"}}


def exhaustive_histories(max_len=4):
    """small scope, exhaustively: every history of length <= max_len over
    {render a, edit a, edit the included file, edit the imported file, delete the included file}
    after an initial tree (a includes inc1 and imports lib1), for every combination of
    root_dir x cache_enabled x relative_includes"""
    import itertools
    alphabet = ["render", "edit_a", "edit_inc", "edit_lib", "del_inc"]
    for root in (False, True):
        for ce in (True, False):
            for rel in (True, False):
                for n in range(1, max_len + 1):
                    for word in itertools.product(alphabet, repeat=n):
                        if "render" not in word:
                            continue
                        ops = [["write", ROOT + "/sub/inc1.j2", [["t", "<inc#0>"], ["v", "x"]], 1],
                               ["write", ROOT + "/sub/lib1.j2", [["t", "<lib#0>"], ["v", "x"]], 2],
                               ["write", ROOT + "/sub/b.j2",
                                [["t", "<b#0>"], ["i", "inc1.j2" if rel else "sub/inc1.j2"],
                                 ["m", "lib1.j2" if rel else "sub/lib1.j2"]], 3]]
                        stamp = 3
                        for k, w in enumerate(word):
                            if w == "render":
                                ops.append(["render", "sub/b.j2", {"x": "c"}])
                                continue
                            stamp += 1
                            if w == "edit_a":
                                ops.append(["write", ROOT + "/sub/b.j2",
                                            [["t", "<b#%d>" % (k + 1)], ["i", "inc1.j2" if rel else "sub/inc1.j2"],
                                             ["m", "lib1.j2" if rel else "sub/lib1.j2"]], stamp])
                            elif w == "edit_inc":
                                ops.append(["write", ROOT + "/sub/inc1.j2", [["t", "<inc#%d>" % (k + 1)]], stamp])
                            elif w == "edit_lib":
                                ops.append(["write", ROOT + "/sub/lib1.j2", [["t", "<lib#%d>" % (k + 1)], ["v", "x"]],
                                            stamp])
                            else:
                                ops.append(["delete", ROOT + "/sub/inc1.j2"])
                        yield {"kind": "history", "cfg": {"root": root, "cache_enabled": ce, "relative": rel,
                                                          "context": None}, "ops": ops,
                               "_meta": {"stream": "exhaustive"}}


JOIN_SEGS = ["a", "b.j2", "sub", "..", ".", "", "deep", "x y"]


def gen_join_case(rng):
    def name():
        n = rng.randrange(1, 5)
        s = "/".join(rng.choice(JOIN_SEGS) for _ in range(n))
        r = rng.random()
        if r < 0.15:
            s = "/" + s
        elif r < 0.2:
            s = "//" + s
        elif r < 0.23:
            s = "///" + s
        return s
    pairs = [[name(), name()] for _ in range(rng.randrange(3, 10))]
    return {"kind": "join", "relative": rng.choice([True, False, None]), "pairs": pairs,
            "_meta": {"stream": "join"}}


# ----------------------------------------------------------------------------- shrinking
def _without(lst, i):
    return lst[:i] + lst[i + 1:]


def _size(case):
    return len(json.dumps({k: v for k, v in case.items() if not k.startswith("_")}, sort_keys=True))


# Smallest failing case seen so far per failure class (the class is attached by the judge as `_class` and is
# the signature of the failure). The engine shrinks every failing case separately; a defect like D11 makes
# hundreds of generated cases fail in the same way, so the already minimised case of the same class is offered
# as the first candidate: it is accepted only if it (still) fails the same clause.
_MINIMAL = {}


def _simplify_tmpl(t, drop):
    out = [n for n in t if n[0] not in drop]
    if "t" in drop:
        return out
    return [[n[0], n[1][:1]] if n[0] == "t" else n for n in out]


def shrink_history(case):
    cfg, ops = case["cfg"], case["ops"]

    def mk(c=None, o=None):
        d = {k: v for k, v in case.items() if not k.startswith("_")}
        d["cfg"] = cfg if c is None else c
        d["ops"] = ops if o is None else o
        return d

    def map_writes(f):
        return [[op[0], op[1], f(op[2]), op[3]] + list(op[4:]) if op[0] == "write" else op for op in ops]

    n = len(ops)
    render_idx = [i for i, op in enumerate(ops) if op[0] == "render"]
    # 1. cut after the first deviating render (hint of the judge)
    dev = case.get("_dev")
    if dev is not None and dev < len(render_idx) and render_idx[dev] + 1 < n:
        yield mk(o=ops[:render_idx[dev] + 1])
    # 2. bulk simplifications
    extras = {k: cfg[k] for k in ("cache_size", "allow", "context") if k in cfg and (cfg[k] is not None or k == "allow")}
    if extras:
        yield mk(c={k: v for k, v in cfg.items() if k not in ("cache_size", "allow")} | {"context": None})
    if any(op[0] == "render" and op[2] for op in ops):
        yield mk(o=[[op[0], op[1], {}] if op[0] == "render" else op for op in ops])
    if any(op[0] == "delete" for op in ops):
        yield mk(o=[op for op in ops if op[0] != "delete"])
    for drop in (("v", "p", "t"), ("v", "p"), ("t",), ()):
        cand = map_writes(lambda t: _simplify_tmpl(t, drop))
        if cand != ops:
            yield mk(o=cand)
    if len(render_idx) > 2:
        keep = set(render_idx[-2:])
        yield mk(o=[op for i, op in enumerate(ops) if op[0] != "render" or i in keep])
    # unreferenced files: keep writes only for paths whose basename occurs in some template or render
    used = {op[1].rsplit("/", 1)[-1] for op in ops if op[0] == "render"}
    for op in ops:
        if op[0] == "write":
            used |= {arg.rsplit("/", 1)[-1] for tag, arg in op[2] if tag in NAME_TAGS}
    cand = [op for op in ops if op[0] == "render" or op[1].rsplit("/", 1)[-1] in used]
    if len(cand) < n:
        yield mk(o=cand)
    # 3. chunks
    size = n // 2
    while size >= 2:
        for start in range(0, n, size):
            yield mk(o=ops[:start] + ops[start + size:])
        size //= 2
    # 4. single operations
    for i in range(n):
        yield mk(o=_without(ops, i))
    # 5. single configuration keys
    for k in ("cache_size", "allow", "context"):
        if cfg.get(k) is not None or (k == "allow" and "allow" in cfg):
            c = {a: b for a, b in cfg.items() if a != k}
            if k == "context":
                c["context"] = None
            yield mk(c=c)
    if cfg.get("context"):
        for key in cfg["context"]:
            yield mk(c=dict(cfg, context={a: b for a, b in cfg["context"].items() if a != key}))
    if cfg.get("relative") is not None:
        yield mk(c=dict(cfg, relative=None))
    if cfg.get("cache_enabled") is True:
        yield mk(c=dict(cfg, cache_enabled=None))
    # 6. single nodes, names
    for i, op in enumerate(ops):
        if op[0] == "write":
            t = op[2]
            for j in range(len(t)):
                yield mk(o=ops[:i] + [[op[0], op[1], _without(t, j), op[3]]] + ops[i + 1:])
            for j, (tag, arg) in enumerate(t):
                if tag in ("m", "io"):
                    yield mk(o=ops[:i] + [[op[0], op[1], t[:j] + [["i", arg]] + t[j + 1:], op[3]]] + ops[i + 1:])
                if tag == "t" and len(arg) > 1:
                    yield mk(o=ops[:i] + [[op[0], op[1], t[:j] + [["t", arg[:1]]] + t[j + 1:], op[3]]] + ops[i + 1:])
        elif op[0] == "render":
            if op[2]:
                yield mk(o=ops[:i] + [[op[0], op[1], {}]] + ops[i + 1:])
                for key in op[2]:
                    yield mk(o=ops[:i] + [[op[0], op[1], {a: b for a, b in op[2].items() if a != key}]] + ops[i + 1:])
            plain = op[1].replace("@T/" + ROOT + "/", "").replace("//", "/").lstrip("./")
            if plain and plain != op[1]:
                yield mk(o=ops[:i] + [[op[0], plain, op[2]]] + ops[i + 1:])
    # 7. renumber stamps densely
    stamps = sorted({op[3] for op in ops if op[0] == "write"})
    if stamps and stamps != list(range(1, len(stamps) + 1)):
        m = {s: k + 1 for k, s in enumerate(stamps)}
        yield mk(o=[[op[0], op[1], op[2], m[op[3]]] + list(op[4:]) if op[0] == "write" else op for op in ops])


def shrink_access(case):
    a, q = case["allow"], case["queries"]
    base = {k: v for k, v in case.items() if not k.startswith("_")}
    if len(q) > 2:
        yield dict(base, queries=q[len(q) // 2:])
        yield dict(base, queries=q[:len(q) // 2])
    for i in range(len(q)):
        yield dict(base, queries=_without(q, i))
    if isinstance(a, list):
        for i in range(len(a)):
            yield dict(base, allow=_without(a, i))
        if len(a) == 1:
            yield dict(base, allow=a[0])


def shrink_join(case):
    base = {k: v for k, v in case.items() if not k.startswith("_")}
    p = case["pairs"]
    for i in range(len(p)):
        if len(p) > 1:
            yield dict(base, pairs=[p[i]])
    for i, (t, par) in enumerate(p):
        for cand in (t.split("/"), par.split("/")):
            pass
    if len(p) == 1:
        t, par = p[0]
        ts, ps = t.split("/"), par.split("/")
        for j in range(len(ts)):
            if len(ts) > 1:
                yield dict(base, pairs=[["/".join(_without(ts, j)), par]])
        for j in range(len(ps)):
            if len(ps) > 1:
                yield dict(base, pairs=[[t, "/".join(_without(ps, j))]])


def shrink_case(case):
    k = case.get("kind")
    cls = case.get("_class")
    gen = (shrink_history(case) if k == "history" else shrink_access(case) if k == "access"
           else shrink_join(case) if k == "join" else iter(()))
    me = _size(case)
    if cls is not None:
        best = _MINIMAL.get(cls)
        if best is None or me < _size(best):
            _MINIMAL[cls] = {a: b for a, b in case.items() if not a.startswith("_")}
        elif _size(best) < me:
            yield best
    seen = set()
    for cand in gen:
        key = json.dumps(cand, sort_keys=True)
        if key not in seen and _size(cand) < me:
            seen.add(key)
            yield cand
