"""
Shared HTTP pieces of the property modules (C03 owns the response clauses; C09, C10, C20 plug the
`*_http` functions below into their own modules next to the TFTP half).

Case shapes (all carry "proto": "http"; worker environment name "plain"):

  exchange case   {"proto": "http", "kind": "exchange", "bind": "::1" | "::" | "::ffff:127.0.0.1",
                   "handlers": [{"accept": "yes"|"no"|"raise_prepare"|"raise_can"|{"in": [uri, ...]},
                                 "result": {"kind": "raised"} |
                                           {"kind": "ret", "status": n, "headers": null | [[hexname, hexvalue], ...],
                                            "body": null | hex, "body_gen": {"len", "mul", "add", "off"}}}],
                   "phases": [[request, ...], ...]}       # requests of one phase run concurrently
      request     {"method", "target": hex, "version", "headers": [[k, v]], "body": hex | null,
                   "client": "::1" | "127.0.0.1"}
               or {"raw": hex, "half_close": true, "expect": "error" | "any" | "http09", "is_head": bool}   (C09)
  lifecycle case  {"proto": "http", "kind": "lifecycle", "bind", "mode": "seq", "steps": ["start", "stop", "start_blocked"]}
               or {..., "mode": "conc", "pre": [...], "threads": [["start", "stop"], ...]}

The implementation side is `http_adapter`; the model side is the Lean driver (`http.exchange`,
`http.parse`, `http.lifecycle`); the verdict is built from the Lean spec checkers' answers.
"""
import html
import http
import http.server
import json

import core
from core import Judgement

ENV = "plain"

TRUSTED_BASE = [
    "Lean 4 kernel; axioms of every property theorem audited on each run (⊆ propext, Classical.choice, Quot.sound)",
    "the compiled Lean driver (correspondence only, never in a proof)",
    "the loopback harness (http_adapter.py: scripted handlers, raw TCP client, probes) and the generators",
    "modelled, not verified: http.server / socketserver of the Python stdlib (request parsing, header buffering, "
    "send_error page, shutdown/server_close), the kernel's TCP implementation",
]
ASSUMPTIONS = [
    "handlers return an http.HTTPStatus, latin-1 header fields without CR/LF (names: visible ASCII without ':'), no "
    "'Connection: keep-alive' header, and a Content-Length header only if it equals the body length (all other handler "
    "outputs are outside the documented handler contract)",
    "the stdlib tables (reason phrases, error page template) are read from the running interpreter and handed to the model",
    "'keeps answering concurrent requests' and the stdlib's buffering are differential evidence (DESIGN §5 C03 Partial)",
]

# --------------------------------------------------------------------------- helpers
def hx(s):
    if isinstance(s, str):
        s = s.encode("latin-1")
    return s.hex()


def stdlib_path(t):
    return b"/" + t.lstrip(b"/") if t.startswith(b"//") else t


def tables(codes):
    reason, page = [], []
    for c in sorted(set(codes)):
        try:
            st = http.HTTPStatus(c)
            short, long_ = st.phrase, st.description
        except ValueError:
            short, long_ = "???", "???"
        content = http.server.DEFAULT_ERROR_MESSAGE % {
            "code": c, "message": html.escape(short, quote=False), "explain": html.escape(long_, quote=False)}
        reason.append([c, hx(short)])
        page.append([c, content.encode("UTF-8", "replace").hex()])
    return {"reason": reason, "errpage": page}


_SIMPLE_RE = None


def simple_error_code(raw):
    """HTTP/0.9-style error response of http.server (the error page alone, no status line): returns its code if
    `raw` is exactly one instance of the stdlib's DEFAULT_ERROR_MESSAGE with a code >= 400, else None"""
    global _SIMPLE_RE
    import re
    if _SIMPLE_RE is None:
        t = re.escape(http.server.DEFAULT_ERROR_MESSAGE)
        t = t.replace(re.escape("%(code)d"), r"(?P<code>[0-9]{3})").replace(re.escape("%(code)s"), r"(?P=code)")
        t = t.replace(re.escape("%(message)s"), r"[^<>]*").replace(re.escape("%(explain)s"), r"[^<>]*")
        _SIMPLE_RE = re.compile(t.encode("utf-8") + rb"\Z", re.S)
    m = _SIMPLE_RE.match(raw)
    if m and int(m.group("code")) >= 400:
        return int(m.group("code"))
    return None


def strip_meta(case):
    return {k: v for k, v in case.items() if not k.startswith("_")}


def is_raw(req):
    return req.get("raw") is not None


def req_uri(req):
    return stdlib_path(bytes.fromhex(req["target"])).decode("latin-1")


def resolve_handlers(case, req):
    """accept tables evaluated for this request's uri -> what the model needs"""
    uri = req_uri(req)
    out = []
    for h in case["handlers"]:
        a = h["accept"]
        if isinstance(a, dict):
            a = "yes" if uri in a["in"] else "no"
        out.append({"accept": a, "result": h["result"]})
    return out


def flat_requests(case):
    return [(pi, ri, r) for pi, ph in enumerate(case["phases"]) for ri, r in enumerate(ph)]


def assign_groups(phase_reqs, phase_obs):
    """attribute the per-thread call groups of a phase to its requests: by the client port seen in `handle`,
    else by the uri of the group's first call (requests with equal uri expect equal logs)"""
    groups = [list(g) for g in phase_obs.get("call_groups", [])]
    resp = phase_obs["responses"]
    assigned = [None] * len(phase_reqs)
    used = [False] * len(groups)
    for gi, g in enumerate(groups):
        hd = [e for e in g if e[0] == "handle"]
        if hd:
            port = hd[0][7][1] if len(hd[0]) > 7 and len(hd[0][7]) > 1 else None
            for ri, r in enumerate(resp):
                if assigned[ri] is None and r and r.get("client") and r["client"][1] == port:
                    assigned[ri] = g
                    used[gi] = True
                    break
    for gi, g in enumerate(groups):
        if used[gi] or not g:
            continue
        for ri, rq in enumerate(phase_reqs):
            if assigned[ri] is None and not is_raw(rq) and g[0][2] == req_uri(rq):
                assigned[ri] = g
                used[gi] = True
                break
    leftovers = [g for gi, g in enumerate(groups) if not used[gi]]
    return [a or [] for a in assigned], leftovers


# --------------------------------------------------------------------------- model requests
def exchange_model_requests(case, obs):
    if obs.get("infrastructure") or obs.get("harness_exception") or "phases" not in obs:
        return []
    reqs = []
    for pi, phase in enumerate(case["phases"]):
        po = obs["phases"][pi]
        groups, _ = assign_groups(phase, po)
        for ri, rq in enumerate(phase):
            r = po["responses"][ri] or {}
            if is_raw(rq):
                reqs.append({"op": "http.parse", "is_head": bool(rq.get("is_head")), "raw": r.get("raw", "")})
                continue
            hs = resolve_handlers(case, rq)
            codes = [400, 404, 500] + [h["result"]["status"] for h in hs if h["result"]["kind"] == "ret"]
            reqs.append({"op": "http.exchange", "is_head": rq["method"] == "HEAD", "path": rq["target"],
                         "handlers": hs, "tables": tables(codes), "impl_raw": r.get("raw", ""),
                         "impl_calls": [[e[0], e[1]] for e in groups[ri]]})
    return reqs


def lifecycle_model_requests(case, obs):
    if obs.get("infrastructure") or obs.get("harness_exception") or obs.get("deadlock"):
        return []
    if case["mode"] == "seq":
        return [{"op": "http.lifecycle", "mode": "seq",
                 "steps": [{"op": s["op"], "probe": s["probe"]} for s in obs["steps"]]}]
    return [{"op": "http.lifecycle", "mode": "conc", "pre": case.get("pre", []), "threads": case["threads"],
             "any_raised": obs["any_raised"], "probe": obs["probe"]}]


def model_requests_http(case, obs):
    case = strip_meta(case)
    if case.get("kind") == "lifecycle":
        return lifecycle_model_requests(case, obs)
    return exchange_model_requests(case, obs)


def run_impl_http(case):
    import http_adapter
    return http_adapter.run_case(strip_meta(case))


def worker_setup(env):
    """worker entry points (harness/worker.py can run this module directly: MODULE = "http_common")"""
    import http_adapter
    http_adapter.setup()


def run_impl(case, env):
    return run_impl_http(case)


# --------------------------------------------------------------------------- verdicts
def _infra(case, obs):
    """infrastructure trouble never becomes a verdict: the check ends with exit 2"""
    what = obs.get("infrastructure") or obs.get("harness_exception")
    raise core.Infra(f"HTTP harness: {what}; case={json.dumps(strip_meta(case))[:400]}; "
                     f"{obs.get('traceback', '')[-600:]}")


def expected_addr(a):
    """how a client socket address appears on the server's dual-stack AF_INET6 socket"""
    if len(a) == 2:
        return ["::ffff:" + a[0], a[1], 0, 0]
    return list(a)


def check_call_args(rq, r, group):
    """C10: every recorded call carries the undecoded uri and the handler's own context; `handle` also the
    method, the request headers and body as sent, and the true addresses. Returns a clause name or None."""
    uri = req_uri(rq)
    sent_headers = [list(h) for h in rq.get("headers", [])]
    body = rq.get("body")
    if body is not None and not any(k.lower() == "content-length" for k, _ in sent_headers):
        sent_headers.append(["Content-Length", str(len(bytes.fromhex(body)))])
    for e in group:
        if e[2] != uri:
            return "uri", e
        if e[0] in ("can_handle", "handle") and e[3] != ["ctx", e[1], uri]:
            return "context", e
        if e[0] == "handle":
            if e[4] != rq["method"]:
                return "method", e
            if e[5] != sent_headers:
                return "headers_seen", e
            if e[6] is not None and e[6] != (body or ""):
                return "body_seen", e
            if e[7] != expected_addr(r["client"]):
                return "client_address", e
            if e[8] != expected_addr(r["server"]):
                return "server_address", e
    return None, None


def judge_exchange(case, obs, responses, prop="C03"):
    """prop = "C03": response clauses are the spec, call log / argument / exc-log differences are model
    mismatches.  prop = "C10": call log and arguments are the spec too.  prop = "C09": raw requests must be
    answered by nothing or one well-formed (error) response, no exc_info log record, liveness afterwards."""
    if obs.get("infrastructure") or obs.get("harness_exception") or "phases" not in obs:
        _infra(case, obs)
    meta = case.get("_meta", {})
    kind = meta.get("kind", "exchange")
    spec_ok, agree, clause, detail = True, True, None, None
    k = 0
    n_handled = 0

    def fail_spec(c, d):
        nonlocal spec_ok, clause, detail
        if spec_ok:
            spec_ok, clause, detail = False, c, d

    def fail_agree(d):
        nonlocal agree, detail
        if agree:
            agree = False
            if spec_ok:
                detail = d

    for pi, phase in enumerate(case["phases"]):
        po = obs["phases"][pi]
        groups, leftovers = assign_groups(phase, po)
        expected_exc = 0
        for ri, rq in enumerate(phase):
            m = responses[k]
            k += 1
            r = po["responses"][ri] or {}
            where = {"phase": pi, "request": ri}
            if "err" in m:
                raise core.Infra(f"driver error: {m['err']}")
            m = m["ok"]
            if r.get("starved"):
                # not answered while another client's connection was stalled mid-request
                fail_spec("starved_by_stalled_client", dict(where, evidence=r.get("evidence")))
                continue
            if is_raw(rq) and r.get("no_response") and r.get("server_not_accepting"):
                # the server has stopped accepting connections altogether
                fail_spec("no_response", dict(where, evidence=r.get("evidence")))
                continue
            if is_raw(rq):
                if r.get("refused"):
                    fail_spec("refused", where)
                    continue
                if r.get("aborted"):
                    continue        # the client reset the connection; only the log clauses apply
                exp = rq.get("expect", "error")
                raw = bytes.fromhex(r.get("raw", ""))
                simple = simple_error_code(raw)
                body0 = bytes.fromhex(((case["handlers"] or [{}])[0].get("result") or {}).get("body") or "")
                if exp == "http09":
                    # a valid simple request is answered HTTP/0.9 style: the entity only, no status line
                    if raw != body0 and simple is None:
                        fail_spec("c09_response", dict(where, raw_head=raw[:200].hex()))
                    continue
                if exp == "any" and raw == body0:
                    continue    # the bytes happened to form a valid HTTP/0.9 simple request
                if simple is not None:
                    # request without a usable HTTP version: http.server answers HTTP/0.9 style with the bare
                    # error page (code >= 400 by construction of simple_error_code)
                    continue
                if not m["c09_ok"]:
                    fail_spec("c09_response", dict(where, raw_head=raw[:200].hex()))
                elif m["parsed"] is not None and exp == "error" and m["parsed"]["status"] < 400:
                    fail_spec("c09_status", dict(where, status=m["parsed"]["status"]))
                continue
            if r.get("refused"):
                fail_spec("refused", where)
                continue
            if r.get("no_response"):
                # no answer although the request was read: first what the call log says (C10), else the missing
                # response itself ("the client receives exactly one response")
                if not m["calls_ok"]:
                    fail_spec("calls" if prop == "C10" else "no_response",
                              dict(where, calls={"model": m["model_calls"], "impl": [[x[0], x[1]] for x in groups[ri]]},
                                   evidence=r.get("evidence")))
                else:
                    fail_spec("no_response", dict(where, evidence=r.get("evidence")))
                continue
            if m["outcome"]["kind"] == "handled":
                n_handled += 1
            if m["logs_exception"]:
                expected_exc += 1
            if not m["spec_model"] or not m["model_parse_is_expected"]:
                fail_agree(dict(where, model_fails_own_checker=m.get("clauses_impl")))
            # which response clauses belong to the property at hand: C03 all of them; C10 only "nobody accepts => 404"
            # (what a handler's result looks like on the wire is C03's business); C09 the liveness answer
            okind = m["outcome"]["kind"]
            resp_is_spec = prop in ("C03", "C09") or (prop == "C10" and okind == "not_found")
            resp_ignored = prop == "C10" and okind == "handled"
            if not m["spec_impl"] and not resp_ignored:
                d = dict(where, clauses=m["clauses_impl"], impl_parsed=m.get("impl_parsed"), expected=m["expected"],
                         impl_len=m["impl_len"], model_len=m["model_len"], eof=r.get("eof"), reset=r.get("reset"),
                         impl_head=r.get("raw", "")[:400])
                if resp_is_spec:
                    fail_spec({"C03": m["failed_clause"], "C09": "liveness", "C10": "none_404"}[prop], d)
                else:
                    fail_agree(d)
            elif m["spec_impl"] and not r.get("eof") and not r.get("reset"):
                fail_spec("closed", where)
            if not m["bytes_agree"] and not resp_ignored:
                fail_agree(dict(where, bytes_differ={x: m.get(x) for x in (
                    "first_diff", "model_at_diff", "impl_at_diff", "model_len", "impl_len")}))
            c, e = check_call_args(rq, r, groups[ri])
            if not m["calls_ok"]:
                d = dict(where, calls={"model": m["model_calls"], "impl": [[x[0], x[1]] for x in groups[ri]]})
                fail_spec("calls", d) if prop == "C10" else fail_agree(d)
            elif c is not None:
                d = dict(where, call=e)
                fail_spec(c, d) if prop == "C10" else fail_agree(d)
        if leftovers:
            d = {"phase": pi, "unexpected_calls": leftovers[:3]}
            fail_spec("calls", d) if prop == "C10" else fail_agree(d)
        # (the stdlib may report a reset after the phase that caused it is over: the allowance is cumulative)
        n_abort = sum(1 for ph_ in case["phases"][:pi + 1] for rq_ in ph_ if rq_.get("abort")) - sum(
            (q.get("stderr_tracebacks") or 0) for q in obs["phases"][:pi])
        if po.get("stderr_tracebacks") and n_abort > 0 and po["stderr_tracebacks"] <= n_abort and all(
                "ConnectionResetError" in str(x) or "BrokenPipeError" in str(x) for x in (po.get("stderr_samples") or [])):
            pass    # the stdlib's report of a connection that the CLIENT reset before its request was complete
        elif po.get("stderr_tracebacks"):
            d = {"phase": pi, "stderr_tracebacks": po["stderr_tracebacks"], "samples": po.get("stderr_samples")}
            fail_spec("c09_unhandled_in_thread", d) if prop == "C09" else fail_agree(d)
        n_exc = len(po.get("exc_logs", []))
        if n_exc != expected_exc:
            d = {"phase": pi, "exc_logs": po.get("exc_logs", [])[:3], "expected": expected_exc}
            fail_spec("c09_exc_log", d) if (prop == "C09" and n_exc > expected_exc) else fail_agree(d)
    nontrivial = n_handled > 0 or prop == "C09"
    return Judgement(case, spec_ok, agree, detail, kind=kind, nontrivial=nontrivial, failed_clause=clause)


def judge_lifecycle(case, obs, responses):
    if obs.get("deadlock"):
        return Judgement(case, False, False, {"deadlock": True, "stacks": obs.get("stacks")},
                         kind="http-lifecycle/" + case["mode"], nontrivial=True, failed_clause="deadlock")
    if obs.get("infrastructure") or obs.get("harness_exception"):
        _infra(case, obs)
    for i, st in enumerate(obs.get("steps") or []):
        if (st.get("probe") or {}).get("kept_open"):
            # "HTTP worker threads end with their response"
            return Judgement(case, False, True, {"step": i, "op": st["op"], "probe": st["probe"]},
                             kind="http-lifecycle/" + case["mode"], nontrivial=True,
                             failed_clause="worker_outlives_response")
    m = responses[0]
    if "err" in m:
        raise core.Infra(f"driver error: {m['err']}")
    m = m["ok"]
    kind = "http-lifecycle/" + case["mode"]
    clause, detail = None, None
    if not m["ok_impl"]:
        if case["mode"] == "seq":
            i, clause = m["failed"]
            detail = {"step": i, "op": obs["steps"][i]["op"], "exc": obs["steps"][i]["exc"],
                      "probe": obs["steps"][i]["probe"], "model_probe": m["model"][i]}
        else:
            clause = "raised" if obs["any_raised"] else "end_state"
            detail = {"probe": obs["probe"], "excs": obs["excs"], "possible": m["possible"]}
    agree = bool(m["agree"]) and bool(m["ok_model"])
    if m["ok_impl"] and not agree:
        detail = {"model": m.get("model", m.get("possible")), "obs": obs.get("steps", obs.get("probe"))}
    if obs.get("exc_logs"):
        agree = False
        detail = detail or {"exc_logs": obs["exc_logs"][:3]}
    n_ops = len(case.get("steps", [])) + sum(len(t) for t in case.get("threads", []))
    return Judgement(case, bool(m["ok_impl"]), agree, detail, kind=kind, nontrivial=n_ops >= 2, failed_clause=clause)


def judge_http(case, obs, responses, prop="C03"):
    """verdict for an HTTP case of C03/C09/C10/C20 (`prop` selects which clauses are the property).
    Infrastructure trouble raises core.Infra (bin/check exits 2)."""
    if case.get("kind") == "lifecycle":
        return judge_lifecycle(case, obs, responses)
    return judge_exchange(case, obs, responses, prop=prop)


# --------------------------------------------------------------------------- shrinking
SMALL_RESULT = {"kind": "ret", "status": 200, "headers": [], "body": "6f6b"}


def _with(case, **kw):
    c = json.loads(json.dumps(case))
    c.update(kw)
    return c


def shrink_http(case):
    """smaller candidates (the engine keeps one on which the same clause still fails)"""
    out = []
    if case.get("kind") == "lifecycle":
        if case["mode"] == "seq":
            st = case["steps"]
            for i in range(len(st)):
                out.append(_with(case, steps=st[:i] + st[i + 1:]))
            for i, s in enumerate(st):
                if s == "start_blocked":
                    out.append(_with(case, steps=st[:i] + ["start"] + st[i + 1:]))
        else:
            th = case["threads"]
            for i in range(len(th)):
                if len(th) > 2:
                    out.append(_with(case, threads=th[:i] + th[i + 1:]))
                for j in range(len(th[i])):
                    if len(th[i]) > 1:
                        out.append(_with(case, threads=th[:i] + [th[i][:j] + th[i][j + 1:]] + th[i + 1:]))
            if case.get("pre"):
                out.append(_with(case, pre=case["pre"][:-1]))
        if case.get("bind") != "::1":
            out.append(_with(case, bind="::1"))
        return [c for c in out if (c.get("steps") or c.get("threads"))]
    ph = case["phases"]
    hs = case["handlers"]
    # big steps first: one request only, one handler only, all bodies tiny, all requests plain
    if sum(len(p) for p in ph) > 1:
        for p in ph:
            for rq in p:
                out.append(_with(case, phases=[[rq]]))
    if len(hs) > 1:
        for h in hs:
            out.append(_with(case, handlers=[h]))
    if any(h["result"].get("body_gen") for h in hs):
        nh = json.loads(json.dumps(hs))
        for h in nh:
            if h["result"].get("body_gen"):
                h["result"] = {**{k: v for k, v in h["result"].items() if k != "body_gen"}, "body": "78"}
        out.append(_with(case, handlers=nh))
    plain = [[r if is_raw(r) else {"method": "GET", "target": "2f", "version": "HTTP/1.0", "headers": [], "body": None}
              for r in p] for p in ph]
    if plain != ph:
        out.append(_with(case, phases=plain))
    # fewer phases / requests
    for i in range(len(ph)):
        if len(ph) > 1:
            out.append(_with(case, phases=ph[:i] + ph[i + 1:]))
    for i, p in enumerate(ph):
        for j in range(len(p)):
            if len(p) > 1:
                out.append(_with(case, phases=ph[:i] + [p[:j] + p[j + 1:]] + ph[i + 1:]))
    # fewer handlers
    for i in range(len(hs)):
        if len(hs) > 1:
            out.append(_with(case, handlers=hs[:i] + hs[i + 1:]))
    # simpler handler results
    for i, h in enumerate(hs):
        res = h["result"]

        def put(newres=None, newacc=None):
            nh = json.loads(json.dumps(hs))
            if newres is not None:
                nh[i]["result"] = newres
            if newacc is not None:
                nh[i]["accept"] = newacc
            out.append(_with(case, handlers=nh))
        if isinstance(h["accept"], dict):
            put(newacc="yes")
            put(newacc="no")
        if res["kind"] == "ret":
            if res.get("body_gen") is not None:
                put({**{k: v for k, v in res.items() if k != "body_gen"}, "body": "78"})
            elif res.get("body"):
                b = res["body"]
                put({**res, "body": b[:len(b) // 4 * 2]})
                put({**res, "body": b[:2]}) if len(b) > 2 else None
            hd = res.get("headers")
            if hd:
                for k in range(len(hd)):
                    put({**res, "headers": hd[:k] + hd[k + 1:]})
                for k, (n, v) in enumerate(hd):
                    if len(v) > 8:
                        put({**res, "headers": hd[:k] + [[n, v[:2]]] + hd[k + 1:]})
            if res["status"] not in (200, 404):
                put({**res, "status": 200 if res["status"] < 400 else 404})
    # simpler requests
    for i, p in enumerate(ph):
        for j, rq in enumerate(p):
            def putr(nr):
                out.append(_with(case, phases=ph[:i] + [p[:j] + [nr] + p[j + 1:]] + ph[i + 1:]))
            if is_raw(rq):
                raw = rq["raw"]
                if len(raw) > 8:
                    putr({**rq, "raw": raw[:len(raw) // 4 * 2]})
                    putr({**rq, "raw": raw[len(raw) // 4 * 2:]})
                continue
            if rq.get("headers"):
                putr({**rq, "headers": []})
            if rq.get("body") is not None:
                putr({**rq, "body": None})
            if rq["method"] != "GET":
                putr({**rq, "method": "GET", "body": None})
            if rq.get("version") != "HTTP/1.0":
                putr({**rq, "version": "HTTP/1.0"})
            if rq["target"] != "2f":
                putr({**rq, "target": "2f"})
            if rq.get("client"):
                putr({k: v for k, v in rq.items() if k != "client"})
    if case.get("bind") != "::1":
        out.append(_with(case, bind="::1"))
    return out


def neighbours_http(case, rng):
    """variations around a mismatching case (targeted search for a failing input)"""
    out = list(shrink_http(case))
    if case.get("kind") == "lifecycle":
        for extra in (["stop"], ["start"], ["stop", "start"], ["start", "stop"]):
            if case["mode"] == "seq":
                out.append(_with(case, steps=case["steps"] + extra))
        return out
    hs = case["handlers"]
    for i, h in enumerate(hs):
        if h["result"]["kind"] != "ret":
            continue
        for headers in (None, [], [[hx("X-A"), hx("1")]]):
            for body in (None, "", "6869"):
                for status in (200, 404, 500, 302):
                    nh = json.loads(json.dumps(hs))
                    nh[i]["result"] = {"kind": "ret", "status": status, "headers": headers, "body": body}
                    out.append(_with(case, handlers=nh))
    rng.shuffle(out)
    return out


def signature_http(case, j):
    s = {"proto": "http", "clause": j.failed_clause}
    if case.get("kind") == "lifecycle":
        s["mode"] = case["mode"]
        s["ops"] = len(case.get("steps", [])) + sum(len(t) for t in case.get("threads", []))
        return s
    d = j.detail or {}
    rq = None
    try:
        rq = case["phases"][d.get("phase", 0)][d.get("request", 0)]
    except (IndexError, TypeError):
        pass
    if rq is not None and not is_raw(rq):
        hs = resolve_handlers(case, rq)
        used = next((h for h in hs if h["accept"] != "no"), None)
        if used is not None and used["accept"] == "yes" and used["result"]["kind"] == "ret":
            res = used["result"]
            s["headers_none"] = res.get("headers") is None
            s["body_none"] = res.get("body") is None and res.get("body_gen") is None
            s["bare_error"] = bool(res["status"] >= 400 and not res.get("headers") and s["body_none"])
    elif rq is not None:
        s["raw"] = True
    return s


# --------------------------------------------------------------------------- generators: building blocks
STATUSES = {2: [200, 201, 202, 204, 206], 3: [301, 302, 304, 307], 4: [400, 401, 403, 404, 405, 410, 418, 451],
            5: [500, 501, 502, 503, 511]}
HEADER_POOL = [
    ("Content-Type", "text/plain"), ("Content-Type", "application/octet-stream"), ("X-Empty", ""),
    ("X-Spaces", "  a  b  "), ("X-Colon", "a:b: c"), ("X-Latin", "caf\xe9 \xff"), ("x-lower", "v"),
    ("Set-Cookie", "a=b; Path=/"), ("Location", "/other?x=1"), ("X-Tab", "a\tb"), ("Server", "mine/1.0"),
    ("Date", "yesterday"), ("Connection", "close"), ("X-Long", "v" * 5000), ("ETag", "\"abc\""),
    ("X-Semi", ";;,,"), ("X~Odd!#$%&'*+-.^_`|", "token-chars"), ("X-Http", "HTTP/1.0 200 OK"),
    ("X-Num", "0"), ("Cache-Control", "no-cache, no-store"),
]
TARGETS = ["/", "/a", "/a/b.txt?x=1&y=2", "/%2e%2e/%00", "/caf\xe9", "/a%20b", "//double//slash", "/x" * 200, "/?", "/a#frag"]
BAD_TARGETS = ["x", "*", "http://host/abs", "a/b", "\\x", "/a\x00b", "/\x00"]


def gen_headers(rng, body_len, style):
    if style == "none":
        return None
    if style == "empty":
        return []
    n = rng.choice([1, 1, 2, 3, 5])
    hs = [list(rng.choice(HEADER_POOL)) for _ in range(n)]
    if rng.random() < 0.3:
        # repeated-looking: the same name in another case (a Mapping can hold both)
        k, v = rng.choice(hs)
        hs.append([k.swapcase(), v + "-2"])
    if rng.random() < 0.3 and body_len is not None:
        hs.append(["Content-Length", str(body_len)])
    # a Mapping has unique keys; keep the first of each exact name
    seen, out = set(), []
    for k, v in hs:
        if k not in seen:
            seen.add(k)
            out.append([hx(k), hx(v)])
    return out


def gen_result_body(rng, style, tier):
    """returns (fields, length)"""
    if style == "none":
        return {"body": None}, 0
    if style == "empty":
        return {"body": ""}, 0
    if style == "small":
        n = rng.choice([1, 2, 5, 17, 64, 300])
        b = bytes(rng.randrange(256) for _ in range(n))
        if rng.random() < 0.3:
            b = rng.choice([b"\r\n", b"\r\n\r\n", b"HTTP/1.0 200 OK\r\n\r\n", b"\0", b"0\r\n\r\n"]) + b
        return {"body": b.hex()}, len(b)
    if style == "medium":
        n = rng.choice([4095, 4096, 8192, 16 * 1024 + 1, 65536, 70001])
        return {"body": None, "body_gen": {"len": n, "mul": rng.choice([1, 3, 7]), "add": rng.randrange(256),
                                           "off": rng.randrange(256)}}, n
    n = (256 * 1024 if tier == "quick" else 4 * 1024 * 1024) + rng.choice([0, 1, -1])
    return {"body": None, "body_gen": {"len": n, "mul": rng.choice([1, 5]), "add": rng.randrange(256),
                                       "off": rng.randrange(256)}}, n


def gen_result(rng, tier, status_class=None, hstyle=None, bstyle=None):
    sc = status_class or rng.choice([2, 2, 3, 4, 5])
    status = rng.choice(STATUSES[sc])
    bstyle = bstyle or rng.choice(["none", "empty", "small", "small", "medium"])
    hstyle = hstyle or rng.choice(["none", "empty", "some", "some"])
    bf, blen = gen_result_body(rng, bstyle, tier)
    res = {"kind": "ret", "status": status, "headers": gen_headers(rng, blen, hstyle)}
    res.update(bf)
    if bstyle != "none" and rng.random() < 0.3:
        # the kind of stream object the handler returns (the model knows only the bytes from its position on)
        res["stream"] = rng.choice(["file", "file_offset", "file_offset", "bytesio_offset", "plain"])
    return res


def gen_request(rng, method=None, target=None, client=None):
    method = method or rng.choice(["GET", "GET", "HEAD", "POST", "PUT", "DELETE"])
    version = rng.choice(["HTTP/1.0", "HTTP/1.1", "HTTP/1.1"])
    headers = []
    if version == "HTTP/1.1":
        headers.append(["Host", "localhost"])
    if rng.random() < 0.3:
        headers.append(["Connection", rng.choice(["keep-alive", "close", "Keep-Alive"])])
    if rng.random() < 0.3:
        headers.append(["X-Req", rng.choice(["1", "a b", "caf\xe9"])])
    if rng.random() < 0.15:
        headers.append(["Accept", "*/*"])
    body = None
    if method in ("POST", "PUT") or rng.random() < 0.05:
        body = bytes(rng.randrange(256) for _ in range(rng.choice([0, 1, 10, 1000, 20000]))).hex()
    rq = {"method": method, "target": hx(target if target is not None else rng.choice(TARGETS)), "version": version,
          "headers": headers, "body": body}
    if client:
        rq["client"] = client
    return rq


def liveness_request(i=0):
    return {"method": "GET", "target": hx(f"/live/{i}"), "version": "HTTP/1.0", "headers": [], "body": None}


def exchange_case(handlers, phases, bind="::1", meta=None, **kw):
    c = {"proto": "http", "kind": "exchange", "bind": bind, "handlers": handlers, "phases": phases}
    c.update(kw)
    c["_meta"] = meta or {}
    return c


# --------------------------------------------------------------------------- C09 (HTTP half)
def c09_bad_requests(rng, tier):
    """(label, raw bytes, expect, is_head)"""
    out = []
    A = out.append
    for m in ("BREW", "get", "OPTIONS", "CONNECT", "PATCH", "TRACE", "G\xc9T", "GET\x00", "", "DELETE2"):
        A(("bad-method", f"{m} / HTTP/1.1\r\nHost: x\r\n\r\n".encode("latin-1"), "error", False))
    A(("tabs", b"HEAD\t / HTTP/1.1\r\nHost: x\r\n\r\n", "any", True))
    A(("bad-method", b"OPTIONS * HTTP/1.1\r\nHost: x\r\n\r\n", "error", False))
    for t in BAD_TARGETS:
        for m in ("GET", "HEAD", "POST"):
            A(("gate", f"{m} {t} HTTP/1.0\r\n\r\n".encode("latin-1"), "error", m == "HEAD"))
    for n in (65530, 65536, 65537, 70000, 200000):
        A(("huge-line", b"GET /" + b"a" * n + b" HTTP/1.0\r\n\r\n", "any" if n < 65520 else "error", False))
    for n in (65530, 65537, 100000):
        A(("huge-header", b"GET / HTTP/1.0\r\nX-Big: " + b"b" * n + b"\r\n\r\n", "error", False))
    A(("many-headers", b"GET / HTTP/1.0\r\n" + b"".join(b"X-%d: v\r\n" % i for i in range(150)) + b"\r\n", "error", False))
    A(("many-headers", b"GET / HTTP/1.0\r\n" + b"".join(b"X-%d: v\r\n" % i for i in range(99)) + b"\r\n", "any", False))
    for line in (b"GET /\r\n", b"GET /x\r\n\r\n"):
        A(("http09", line, "http09", False))
    for line in (b"POST /\r\n", b"HEAD /\r\n", b"BREW /\r\n"):
        A(("http09-bad", line, "error", False))
    for v in ("HTTP/2.0", "HTTP/3", "HTTP/1.x", "FTP/1.0", "HTTP/1.1.1", "HTTP/-1.0", "HTTP/1.", "HTTP/", "http/1.0",
              "HTTP/1.99999999999999999999", "HTTP/0.9", "HTTP/1.0 extra"):
        A(("bogus-version", f"GET / {v}\r\n\r\n".encode(),
           {"HTTP/1.99999999999999999999": "any", "HTTP/0.9": "http09"}.get(v, "error"), False))
    for cut in (b"G", b"GET", b"GET /", b"GET / HTTP/1.0", b"GET / HTTP/1.0\r\n", b"GET / HTTP/1.0\r\nHost: x",
                b"GET / HTTP/1.0\r\nHost: x\r\n", b"", b"\r\n", b"\r\n\r\n"):
        A(("early-close", cut, "any", False))
    A(("short-body", b"POST / HTTP/1.0\r\nContent-Length: 100\r\n\r\nabc", "any", False))
    for cl in ("abc", "-1", "1e3", " 5", "99999999999999999999999999"):
        A(("bad-content-length", f"POST / HTTP/1.0\r\nContent-Length: {cl}\r\n\r\nhello".encode(), "any", False))
    for g in (b"\xff\xfe\x00\x01garbage\r\n\r\n", b"GET / HTTP/1.0\r\n\r\n" * 3, b"\x16\x03\x01\x02\x00\x01\x00\x01\xfc\x03\x03",
              b"BREW / HTTP/1.0\r\n\r\n"):
        A(("pipelined", b"GET / HTTP/1.1\r\nHost: x\r\n\r\n" + g, "any", False))
    A(("tls-hello", b"\x16\x03\x01\x02\x00\x01\x00\x01\xfc\x03\x03" + bytes(range(256)), "error", False))
    A(("bare-lf", b"GET / HTTP/1.0\n\n", "any", False))
    A(("header-junk", b"GET / HTTP/1.0\r\nno colon here\r\n: empty name\r\n\tfolded\r\nX: \x00\xff\r\n\r\n", "any", False))
    A(("expect", b"POST / HTTP/1.1\r\nHost: x\r\nExpect: 100-continue\r\nContent-Length: 2\r\n\r\nhi", "any", False))
    A(("spaces", b"GET  /  HTTP/1.0\r\n\r\n", "any", False))
    A(("spaces", b"GET /a b HTTP/1.0\r\n\r\n", "error", False))
    A(("tabs", b"GET\t/\tHTTP/1.0\r\n\r\n", "any", False))
    A(("non-latin", "GET /ä€ HTTP/1.0\r\n\r\n".encode("utf-8"), "any", False))
    n = 60 if tier == "quick" else 1500
    toks = [b"GET", b"HEAD", b"POST", b"BREW", b"/", b"/a", b"x", b"HTTP/1.0", b"HTTP/1.1", b"HTTP/9.9", b" ", b"  ",
            b"\r\n", b"\n", b"\r", b"\0", b":", b"Host: x", b"Content-Length: 3", b"\xff", b"\t", b"a" * 300]
    for _ in range(n):
        b = b"".join(rng.choice(toks) for _ in range(rng.randrange(1, 12)))
        A(("token-soup", b, "any", b.startswith(b"HEAD ")))
    for _ in range(n // 2):
        A(("random-bytes", bytes(rng.randrange(256) for _ in range(rng.randrange(1, 80))), "any", False))
    return out


def gen_c09_http(rng, tier, mult=1, include_abort=False):
    """malformed / unsupported request heads, each followed by a liveness request to the same server.
    include_abort=True adds clients that RESET the connection (mid request line / after a complete request,
    without reading): on the pinned tree these make socketserver print an escaped ConnectionResetError and make
    `_delegate_request` call logger.exception("Request processing failed.") — client-caused, but by a connection
    abort rather than by bytes, so they are not part of the default stream (see manifest_entries/http_notes.md)."""
    ok = {"accept": "yes", "result": {"kind": "ret", "status": 200, "headers": [[hx("Content-Type"), hx("text/plain")]],
                                      "body": "6f6b"}}
    for _ in range(mult):
        for i, (label, raw, expect, is_head) in enumerate(c09_bad_requests(rng, tier)):
            rq = {"raw": raw.hex(), "half_close": True, "expect": expect, "is_head": is_head}
            if rng.random() < 0.3 and len(raw) > 3:
                rq["cuts"] = sorted(rng.randrange(1, len(raw)) for _ in range(rng.choice([1, 2, 3])))
            phases = [[rq], [liveness_request(i)]]
            if i % 7 == 0:
                # several bad clients at once, then liveness
                phases = [[dict(rq), dict(rq), liveness_request(1000 + i)], [liveness_request(i)]]
            yield exchange_case([ok], phases, bind=rng.choice(["::1", "::", "::ffff:127.0.0.1"]),
                                meta={"kind": "c09-http/" + label})
        # clients that stall mid-request (connection open, nothing more sent) while others are to be served
        stalls = [b"", b"G", b"GET / HTTP/1.1", b"GET / HTTP/1.1\r\n", b"GET / HTTP/1.1\r\nHost: x\r\n",
                  b"POST / HTTP/1.0\r\nContent-Length: 10\r\n\r\nabc", b"BREW / HTTP/1.0\r\nX: y"]
        for i, raw in enumerate(stalls):
            hold = {"raw": raw.hex(), "half_close": True, "hold": True, "expect": "any", "is_head": False}
            for k in (1, 3):
                phases = [[dict(hold) for _ in range(k)] + [liveness_request(2000 + i), liveness_request(3000 + i)],
                          [liveness_request(i)]]
                yield exchange_case([ok], phases, bind="::1", meta={"kind": "c09-http/stalled-client"})
        if include_abort:
            big = {"accept": "yes", "result": {"kind": "ret", "status": 200, "headers": [], "body": None,
                                               "body_gen": {"len": 4 << 20, "mul": 1, "add": 0, "off": 0}}}
            for i, raw in enumerate((b"GET / HT", b"GET / HTTP/1.0\r\nHost", b"GET / HTTP/1.0\r\n\r\n",
                                     b"POST / HTTP/1.0\r\nContent-Length: 10\r\n\r\nabc")):
                rq = {"raw": raw.hex(), "abort": True, "expect": "any", "is_head": False}
                yield exchange_case([big], [[rq], [liveness_request(i)]], meta={"kind": "c09-http/abort"})


# --------------------------------------------------------------------------- C10 (HTTP half)
def gen_c10_http(rng, tier, mult=1):
    """handler lists with accept tables, IPv4 and IPv6 clients, metadata seen by the handler"""
    n = (400 if tier == "quick" else 6000) * mult
    uris = ["/", "/a", "/b", "/a?x=1", "/A", "/a/", "/%61", "/caf\xe9", "//a", "/a..b", "/a?r=1..5", "/a/../b", "/..."]
    for i in range(n):
        k = rng.choice([0, 1, 2, 2, 3, 4])
        hs = []
        for _ in range(k):
            acc = rng.choice(["yes", "no", {"in": rng.sample(uris, rng.randrange(0, 4))},
                              {"in": rng.sample(uris, rng.randrange(0, 4))}, {"in": ["/a"]}])
            if rng.random() < 0.05:
                acc = rng.choice(["raise_prepare", "raise_can"])
            res = gen_result(rng, tier, bstyle=rng.choice(["none", "small"])) if rng.random() < 0.8 else {"kind": "raised"}
            hs.append({"accept": acc, "result": res})
        bind = rng.choice(["::", "::", "::1", "::ffff:127.0.0.1"])
        cl = (lambda: rng.choice(["::1", "127.0.0.1"])) if bind == "::" else (lambda: None)
        phases = [[gen_request(rng, target=rng.choice(uris), client=cl())]]
        if i % 3 == 0:
            # concurrent requests with distinct uris (distinct contexts)
            m = rng.choice([2, 3, 4, 6])
            phases.append([gen_request(rng, target=rng.choice(uris) + f"?c={j}", client=cl()) for j in range(m)])
        if i % 5 == 0:
            phases.append([gen_request(rng, target=rng.choice(uris), client=cl())])
        yield exchange_case(hs, phases, bind=bind, factory=(i % 11 == 0), meta={"kind": f"c10-http/{k}-handlers"})
    # the first accepting handler answers with a bare status (no headers, no body), later handlers accept the same URI:
    # the request is the first handler's and nobody else's
    for status in (404, 403, 400, 500, 204, 304):
        for hdrs in (None, []):
            for pre in (0, 1):
                first = {"accept": "yes", "result": {"kind": "ret", "status": status, "headers": hdrs, "body": None}}
                hs = [{"accept": "no", "result": dict(SMALL_RESULT)}] * pre + [first] + [
                    {"accept": "yes", "result": dict(SMALL_RESULT)}, {"accept": {"in": ["/a"]}, "result": dict(SMALL_RESULT)}]
                yield exchange_case(hs, [[gen_request(rng, target="/a")], [gen_request(rng, target="/a?x=1")]],
                                    meta={"kind": "c10-http/bare-status-first"})


# --------------------------------------------------------------------------- C20 (HTTP half)
def gen_c20_http(rng, tier, mult=1):
    """lifecycle histories: sequential start/stop/(start with the port taken) sequences with probes after every
    call; concurrent calls from 2-4 threads"""
    import itertools
    alphabet = ["start", "stop"]
    maxlen = 5 if tier == "quick" else 7
    for bind in (["::1"] if tier == "quick" else ["::1", "::", "::ffff:127.0.0.1"]):
        for n in range(1, maxlen + 1):
            for steps in itertools.product(alphabet, repeat=n):
                yield {"proto": "http", "kind": "lifecycle", "bind": bind, "mode": "seq", "steps": list(steps),
                       "_meta": {"kind": "c20-http/seq"}}
    for steps in (["start", "stop"], ["start", "stop", "stop", "start", "stop"], ["start", "start", "stop"]):
        yield {"proto": "http", "kind": "lifecycle", "bind": "::1", "mode": "seq", "steps": steps, "idle_client": True,
               "_meta": {"kind": "c20-http/seq-idle-client"}}
    for steps in (["start", "stop"], ["start", "start", "stop", "start"]):
        yield {"proto": "http", "kind": "lifecycle", "bind": "::1", "mode": "seq", "steps": steps, "probe_version": "1.1",
               "_meta": {"kind": "c20-http/seq-http11-client"}}
        yield {"proto": "http", "kind": "lifecycle", "bind": "::1", "mode": "seq", "steps": steps, "probe_version": "post",
               "_meta": {"kind": "c20-http/seq-post-client"}}
    for steps in (["start_blocked"], ["start_blocked", "start"], ["start", "stop", "start_blocked", "start"],
                  ["start_blocked", "stop", "start", "stop"], ["start", "start_blocked", "stop"]):
        yield {"proto": "http", "kind": "lifecycle", "bind": "::1", "mode": "seq", "steps": steps,
               "_meta": {"kind": "c20-http/seq-blocked"}}
    m = (80 if tier == "quick" else 1000) * mult
    for i in range(m):
        nt = rng.choice([2, 3, 4])
        per = 2 if nt <= 3 else rng.choice([1, 2])
        threads = [[rng.choice(alphabet) for _ in range(rng.randrange(1, per + 1))] for _ in range(nt)]
        yield {"proto": "http", "kind": "lifecycle", "bind": rng.choice(["::1", "::"]), "mode": "conc",
               "pre": rng.choice([[], ["start"], ["start", "stop"]]), "threads": threads,
               "_meta": {"kind": f"c20-http/conc-{nt}"}}


# --------------------------------------------------------------------------- plugging into C09 / C10 / C20
HTTP_THEOREMS = {
    "C09": (["Vinegar.Theorems.C03"], ["Vinegar.C03.gate_400_iff", "Vinegar.C03.respond_wellformed"]),
    "C10": (["Vinegar.Theorems.C03"], ["Vinegar.C03.dispatch_first", "Vinegar.C03.dispatch_calls",
                                       "Vinegar.C03.dispatch_raise", "Vinegar.C03.none_404"]),
    "C20": (["Vinegar.Theorems.HttpLifecycle"], [
        "Vinegar.HttpLifecycle.start_idem", "Vinegar.HttpLifecycle.stop_idem", "Vinegar.HttpLifecycle.lifecycle_inv",
        "Vinegar.HttpLifecycle.quiescent_stop_releases", "Vinegar.HttpLifecycle.restart_serves",
        "Vinegar.HttpLifecycle.concurrent_end_consistent", "Vinegar.HttpLifecycle.holder_releases",
        "Vinegar.HttpLifecycle.raise_only_when_bind_fails", "Vinegar.HttpLifecycle.historyCheck_model"]),
}
HTTP_GEN = {"C09": "gen_c09_http", "C10": "gen_c10_http", "C20": "gen_c20_http"}


def is_http(case):
    return case.get("proto") == "http"


def plug_http(g, prop):
    """Add the HTTP half to a property module whose globals `g` already define the TFTP half
    (env_of, worker_setup, run_impl, model_requests, judge, shrink, neighbours, signature, gen, THEOREMS …).
    Call it as the LAST statement of harness/props/c09.py / c10.py / c20.py:

        import http_common
        http_common.plug_http(globals(), ID)

    Every function is wrapped so that cases carrying "proto": "http" go to the HTTP half (worker environment
    "plain": a separate worker process in which the stdlib is NOT patched) and all other cases to the original."""
    o = {k: g[k] for k in ("env_of", "worker_setup", "run_impl", "model_requests", "judge", "shrink", "neighbours",
                           "signature", "gen")}

    def env_of(case):
        return ENV if is_http(case) else o["env_of"](case)

    def worker_setup_(env):
        return worker_setup(env) if env == ENV else o["worker_setup"](env)

    def run_impl_(case, env):
        return run_impl_http(case) if is_http(case) else o["run_impl"](case, env)

    def model_requests(case, obs):
        return model_requests_http(case, obs) if is_http(case) else o["model_requests"](case, obs)

    def judge(case, obs, responses):
        return judge_http(case, obs, responses, prop=prop) if is_http(case) else o["judge"](case, obs, responses)

    def shrink(case):
        return shrink_http(case) if is_http(case) else o["shrink"](case)

    def neighbours(case, rng):
        return neighbours_http(case, rng) if is_http(case) else o["neighbours"](case, rng)

    def signature(case, j):
        return signature_http(case, j) if is_http(case) else o["signature"](case, j)

    def gen(rng, tier, mult=1):
        yield from o["gen"](rng, tier, mult)
        yield from globals()[HTTP_GEN[prop]](rng, tier, mult)

    mods, thms = HTTP_THEOREMS[prop]
    g.update(env_of=env_of, worker_setup=worker_setup_, run_impl=run_impl_, model_requests=model_requests, judge=judge,
             shrink=shrink, neighbours=neighbours, signature=signature, gen=gen)
    g["THEOREM_MODULES"] = list(g["THEOREM_MODULES"]) + [m for m in mods if m not in g["THEOREM_MODULES"]]
    g["THEOREMS"] = list(g["THEOREMS"]) + [t for t in thms if t not in g["THEOREMS"]]
    g["TRUSTED_BASE"] = list(g["TRUSTED_BASE"]) + [t for t in TRUSTED_BASE if t not in g["TRUSTED_BASE"]]
    g["ASSUMPTIONS"] = list(g["ASSUMPTIONS"]) + [a for a in ASSUMPTIONS if a not in g["ASSUMPTIONS"]]
    g["RULE"] = g["RULE"] + "; HTTP half: " + HTTP_RULE[prop]


HTTP_RULE = {
    "C09": "raw request heads (bad methods, targets without '/', NUL, 65 KiB lines/headers, >100 headers, HTTP/0.9, bogus "
           "versions, early close, bad Content-Length, pipelined garbage, token soup, random bytes; optionally split into "
           "TCP segments) against the real HttpServer on loopback, each followed by a liveness request",
    "C10": "real HttpServer on loopback with 0..4 scripted handlers (accept tables over a URI alphabet), IPv4 and IPv6 "
           "clients against '::', '::1', '::ffff:127.0.0.1' binds, all handler arguments recorded, concurrent requests with "
           "distinct URIs",
    "C20": "all start/stop histories up to length 5 (7 thorough) incl. start() with the port taken, concurrent calls from 2-4 "
           "threads, probes (connect / request / re-bind with SO_REUSEADDR / thread enumeration) after every call",
}
