"""
Adapter for the HTTP server (C03; HTTP halves of C09, C10, C20).

Drives the REAL `vinegar.http.server.HttpServer` (imported from $VINEGAR_REPO) over real loopback
TCP with scripted handlers that are subclasses of the real `HttpRequestHandler`, and returns a
JSON-able observation:

  exchange cases  -> per request: raw response bytes (hex), whether EOF / a reset was seen, the
                     handler calls made for it (all arguments), and per phase the log records that
                     carry exc_info
  lifecycle cases -> per lifecycle call a probe (raised, accepts, serves, rebind, thread_alive)

Robustness rules: no sleep is used to synchronise anything; every wait is either an I/O wait with
a long deadline or a short poll of a condition that is re-checked; an expired deadline raises
`InfraTimeout`, which the property modules report as an infrastructure problem (exit 2 path), never
as a violation.
"""
import errno
import io
import logging
import json
import os
import select
import socket
import struct
import sys
import threading
import time

REPO = os.environ.get("VINEGAR_REPO", "/repo")
IO_DEADLINE_S = float(os.environ.get("VERIF_HTTP_DEADLINE_S", "120"))
_PORT_BASE = 16000 + (os.getpid() % 400) * 40
_port_counter = [0]

_state = {"ready": False}


class InfraTimeout(Exception):
    pass


class InfraError(Exception):
    pass


# --------------------------------------------------------------------------- setup
class _ExcCollector(logging.Handler):
    def __init__(self):
        super().__init__(level=logging.DEBUG)
        self.records = []
        self._rec_lock = threading.Lock()

    def emit(self, record):
        if record.exc_info:
            with self._rec_lock:
                self.records.append({
                    "logger": record.name, "msg": record.getMessage()[:200],
                    "exc": getattr(record.exc_info[0], "__name__", str(record.exc_info[0])),
                    "thread": record.thread})

    def take(self):
        with self._rec_lock:
            r, self.records = self.records, []
        return r


class _StderrTap:
    """counts the reports socketserver.BaseServer.handle_error prints for an exception that escaped a request
    thread (they go to sys.stderr, not to logging); everything is passed through"""

    def __init__(self, inner):
        self.inner = inner
        self.count = 0
        self.samples = []

    def write(self, text):
        if "Exception occurred during processing of request" in text:
            self.count += 1
        elif self.count and len(self.samples) < 20 and ("Error" in text or "Exception" in text):
            self.samples.append(text.strip()[-200:])
        return len(text) if os.environ.get("VERIF_HTTP_QUIET_STDERR", "1") == "1" else self.inner.write(text)

    def flush(self):
        self.inner.flush()

    def take(self):
        n, smp = self.count, self.samples
        self.count, self.samples = 0, []
        return n, smp

    def __getattr__(self, name):
        return getattr(self.inner, name)


def setup():
    if _state["ready"]:
        return
    _state["stderr"] = _StderrTap(sys.stderr)
    sys.stderr = _state["stderr"]
    if REPO not in sys.path:
        sys.path.insert(0, REPO)
    lg = logging.getLogger("vinegar")
    lg.setLevel(logging.DEBUG)
    lg.propagate = False
    col = _ExcCollector()
    lg.addHandler(col)
    _state["collector"] = col
    import http
    from vinegar.http.server import HttpRequestHandler, HttpServer, create_http_server

    class ScriptedHandler(HttpRequestHandler):
        """scripted subclass of the real handler interface; records every call with all arguments"""

        def __init__(self, index, spec, log):
            self.index = index
            self.spec = spec
            self.log = log

        def _accepts(self, uri):
            a = self.spec["accept"]
            if isinstance(a, dict):
                return uri in a["in"]
            return a == "yes"

        def prepare_context(self, uri):
            self.log.add(["prepare", self.index, uri])
            if self.spec["accept"] == "raise_prepare":
                raise RuntimeError("scripted: prepare_context raises")
            return ["ctx", self.index, uri]

        def can_handle(self, uri, context):
            self.log.add(["can_handle", self.index, uri, context])
            if self.spec["accept"] == "raise_can":
                raise RuntimeError("scripted: can_handle raises")
            return self._accepts(uri)

        def handle(self, request_info, body, context):
            n = request_info.headers.get("Content-Length")
            data = b""
            if self.spec.get("read_body") is False:
                data = None     # a handler that answers without looking at the request body
            elif n is not None and n.strip().isdigit():
                # (capped: an absurd announced length must not make the scripted handler itself raise)
                data = body.read(min(int(n), 1 << 24))
            self.log.add(["handle", self.index, request_info.uri, context, request_info.method,
                          [[k, v] for k, v in request_info.headers.items()], None if data is None else data.hex(),
                          list(request_info.client_address), list(request_info.server_address)])
            res = self.spec["result"]
            if res["kind"] == "raised":
                # whatever a handler raises (its own I/O trouble included) is a failure of the handler: 500
                raise {"RuntimeError": RuntimeError, "OSError": OSError, "ConnectionRefusedError": ConnectionRefusedError,
                       "BrokenPipeError": BrokenPipeError, "ConnectionResetError": ConnectionResetError,
                       "TimeoutError": TimeoutError, "KeyError": KeyError, "UnicodeDecodeError": UnicodeError,
                       "FileNotFoundError": FileNotFoundError, "EOFError": EOFError, "LookupError": LookupError,
                       }[res.get("exc", "RuntimeError")]("scripted: handle raises")
            headers = res.get("headers")
            if headers is not None:
                headers = {bytes.fromhex(k).decode("latin-1"): bytes.fromhex(v).decode("latin-1")
                           for k, v in headers}
            b = result_body(res)
            return (http.HTTPStatus(res["status"]), headers, None if b is None else body_stream(b, res.get("stream")))

    _state.update(ready=True, ScriptedHandler=ScriptedHandler, HttpServer=HttpServer,
                  create_http_server=create_http_server)


class _PlainStream(io.RawIOBase):
    """a stream without fileno / seek that hands out at most `chunk` bytes per read"""

    def __init__(self, data, chunk):
        self._data, self._pos, self._chunk = data, 0, chunk

    def readable(self):
        return True

    def read(self, n=-1):
        if n is None or n < 0:
            n = len(self._data) - self._pos
        n = min(n, self._chunk)
        out = self._data[self._pos:self._pos + n]
        self._pos += len(out)
        return out


def body_stream(b, kind):
    """the handler's body object: the property speaks of 'the returned stream' — whatever kind of binary stream,
    from its current position"""
    if kind in (None, "bytesio"):
        return io.BytesIO(b)
    pre = b"PREAMBLE-ALREADY-CONSUMED\n" * 2
    if kind == "bytesio_offset":
        f = io.BytesIO(pre + b)
        f.seek(len(pre))
        return f
    if kind in ("file", "file_offset"):
        import tempfile
        f = tempfile.TemporaryFile()
        if kind == "file_offset":
            f.write(pre)
        f.write(b)
        f.flush()
        f.seek(0)
        if kind == "file_offset":
            f.read(len(pre))
        return f
    if kind == "plain":
        return _PlainStream(b, 1000)
    raise ValueError("unknown stream kind " + str(kind))


def gen_body(g):
    n, mul, add, off = g["len"], g["mul"], g["add"], g["off"]
    if n == 0:
        return b""
    # byte i = (i*mul + (i//256)*add + off) % 256, built blockwise
    block = bytes((i * mul) % 256 for i in range(256))
    out = bytearray()
    k = 0
    while len(out) < n:
        sh = (k * 256 * mul + k * add + off) % 256
        out += bytes((b + sh) % 256 for b in block) if sh else block
        k += 1
    return bytes(out[:n])


def result_body(res):
    if res.get("body_gen") is not None:
        return gen_body(res["body_gen"])
    if res.get("body") is not None:
        return bytes.fromhex(res["body"])
    return None


class CallLog:
    def __init__(self):
        self.lock = threading.Lock()
        self.entries = []

    def add(self, entry):
        with self.lock:
            # the Thread object itself is the key (idents are reused once a thread has ended; holding the
            # object keeps its identity unique)
            self.entries.append((threading.current_thread(), entry))

    def take(self):
        with self.lock:
            e, self.entries = self.entries, []
        return e


# --------------------------------------------------------------------------- ports and sockets
def _family(host):
    return socket.AF_INET6 if ":" in host else socket.AF_INET


def can_bind(bind_addr, port):
    """a fresh socket with SO_REUSEADDR can bind (and listen on) the port"""
    s = socket.socket(socket.AF_INET6, socket.SOCK_STREAM)
    try:
        s.setsockopt(socket.SOL_SOCKET, socket.SO_REUSEADDR, 1)
        try:
            s.setsockopt(socket.IPPROTO_IPV6, socket.IPV6_V6ONLY, 0)
        except OSError:
            pass
        try:
            s.bind((bind_addr, port))
            s.listen(1)
            return True
        except OSError as e:
            if e.errno == errno.EADDRINUSE:
                return False
            raise InfraError(f"bind probe failed unexpectedly: {e!r}")
    finally:
        s.close()


def pick_port(bind_addr):
    """a port outside the ephemeral range, from a per-process slice, currently free"""
    for _ in range(200):
        p = _PORT_BASE + (_port_counter[0] % 40)
        _port_counter[0] += 1
        if can_bind(bind_addr, p) and can_bind("::", p):
            return p
    raise InfraError("no free port in the slice of this worker")


def client_host_for(bind_addr, want=None):
    if bind_addr == "::1":
        return "::1"
    if bind_addr.startswith("::ffff:"):
        return bind_addr[7:]
    return want or "::1"


def connect(host, port, deadline, rcvbuf=None):
    s = socket.socket(_family(host), socket.SOCK_STREAM)
    if rcvbuf:
        s.setsockopt(socket.SOL_SOCKET, socket.SO_RCVBUF, int(rcvbuf))   # before connect: fixes the window
    s.settimeout(max(0.1, deadline - time.monotonic()))
    try:
        s.connect((host, port))
    except ConnectionRefusedError:
        s.close()
        return None
    except socket.timeout:
        s.close()
        raise InfraTimeout(f"connect to {host}:{port} timed out")
    return s


def read_all(s, deadline, give_up=None):
    """read until EOF / reset. `give_up()` is polled while nothing arrives; if it becomes true the
    read is abandoned (returns what was read, eof False)."""
    out = bytearray()
    eof = reset = False
    while True:
        now = time.monotonic()
        if now > deadline:
            raise InfraTimeout(f"no end of response within the deadline ({len(out)} bytes so far)")
        r, _, _ = select.select([s], [], [], 0.05 if give_up else min(5.0, deadline - now))
        if not r:
            if give_up and give_up():
                break
            continue
        try:
            d = s.recv(1 << 20)
        except ConnectionResetError:
            reset = True
            break
        if not d:
            eof = True
            break
        out += d
    return bytes(out), eof, reset


def request_bytes(req):
    if req.get("raw") is not None:
        return bytes.fromhex(req["raw"])
    target = bytes.fromhex(req["target"])
    head = req["method"].encode("latin-1") + b" " + target
    if req.get("version"):
        head += b" " + req["version"].encode("latin-1")
    head += b"\r\n"
    body = bytes.fromhex(req["body"]) if req.get("body") else b""
    for k, v in req.get("headers", []):
        head += k.encode("latin-1") + b": " + v.encode("latin-1") + b"\r\n"
    if req.get("body") is not None and not any(k.lower() == "content-length" for k, _ in req.get("headers", [])):
        head += b"Content-Length: " + str(len(body)).encode() + b"\r\n"
    return head + b"\r\n" + body


def do_request(host, port, req, deadline, hold=None, stuck_probe=None):
    """one client connection: send the request bytes (optionally in pieces / closing early), read
    everything the server sends until it closes. hold = (sent, release): after sending, signal `sent`
    and keep the connection open and silent until `release` is set (a client that stalls mid-request)."""
    slow = req.get("slow_read")
    s = connect(host, port, deadline, rcvbuf=(slow or {}).get("rcvbuf"))
    if s is None:
        if hold:
            hold[0].set()
        return {"refused": True, "raw": "", "eof": False, "reset": False}
    try:
        local = list(s.getsockname())
        peer = list(s.getpeername())
        data = request_bytes(req)
        cuts = [c for c in req.get("cuts", []) if 0 < c < len(data)]
        pieces, last = [], 0
        for c in sorted(set(cuts)):
            pieces.append(data[last:c])
            last = c
        pieces.append(data[last:])
        send_error = None
        try:
            for p in pieces:
                if p:
                    s.sendall(p)
            if req.get("abort"):
                # reset the connection instead of reading the answer
                s.setsockopt(socket.SOL_SOCKET, socket.SO_LINGER, struct.pack("ii", 1, 0))
                s.close()
                return {"refused": False, "raw": "", "eof": False, "reset": False, "aborted": True, "client": local,
                        "server": peer, "send_error": None}
            if hold:
                hold[0].set()
                hold[1].wait(max(0.0, deadline - time.monotonic()))
            if req.get("half_close"):
                s.shutdown(socket.SHUT_WR)
        except socket.timeout:
            raise InfraTimeout("send timed out")
        except OSError as e:
            if e.errno not in (errno.EPIPE, errno.ECONNRESET, errno.ENOTCONN):
                raise
            send_error = errno.errorcode.get(e.errno, str(e.errno))  # the server closed while we were still sending
        t0 = time.monotonic()
        stuck = []

        def give_up():
            # nothing has arrived for RESP_S seconds and a request worker of the server is still inside the
            # request handling code: the response is not going to come (a stalled machine shows no such worker)
            if stuck_probe is None or time.monotonic() < t0 + RESP_S:
                return False
            ev = stuck_probe()
            if ev:
                stuck.append(ev)
            return bool(ev)
        first = b""
        if slow:
            # a client that stops reading in the middle of a large body (small receive window) and goes on later:
            # the server must simply wait for it
            t_end = time.monotonic() + 10.0
            while b"\r\n\r\n" not in first and time.monotonic() < t_end:
                r_, _, _ = select.select([s], [], [], 0.2)
                if r_:
                    d_ = s.recv(4096)
                    if not d_:
                        break
                    first += d_
            time.sleep(float(slow.get("pause_s", 6)))
        raw, eof, reset = read_all(s, deadline, give_up=give_up if stuck_probe else None)
        raw = first + raw
        out = {"refused": False, "raw": raw.hex(), "eof": eof, "reset": reset, "client": local, "server": peer,
               "send_error": send_error}
        if stuck and not eof and not reset:
            if raw:
                out.update(kept_open=True, evidence=stuck[-1])      # answered, but the connection is not closed
            else:
                out.update(no_response=True, evidence=stuck[-1])
        return out
    finally:
        if hold:
            hold[0].set()
        s.close()


STARVE_S = float(os.environ.get("VERIF_HTTP_STARVE_S", "10"))
RESP_S = float(os.environ.get("VERIF_HTTP_RESP_S", "30"))


def _blocked_workers(baseline):
    """request worker threads of the server that are inside vinegar's request handling and, at this instant, blocked
    in a receive on their connection: {thread name: stack}"""
    frames = sys._current_frames()
    out = {}
    for t in new_threads(baseline):
        if "process_request_thread" not in t.name:
            continue
        f = frames.get(t.ident)
        names = []
        while f is not None:
            names.append(f.f_code.co_name)
            f = f.f_back
        if names and names[0] in ("readinto", "recv_into", "read", "readline", "peek") and (
                "_delegate_request" in names or "handle_one_request" in names):
            # inside the request handling (waiting for more of THIS request), or back in the request loop waiting for a
            # NEXT request on a connection that the server was expected to close
            out[t.name] = names[:10]
    return out


def request_worker_stuck(baseline):
    """positive evidence that a response is not going to come: a request worker of the server is waiting for MORE
    INPUT from a client that has long sent everything (blocked in a receive inside the request handling, the same
    thread at two instants one second apart). A merely slow machine shows workers that are running, not blocked."""
    a = _blocked_workers(baseline)
    if not a:
        return None
    time.sleep(1.0)
    b = _blocked_workers(baseline)
    both = [n for n in a if n in b]
    if not both:
        return None
    return {"thread": both[0], "stack": b[both[0]]}


def serving_thread_blocked(baseline):
    """positive evidence that the server no longer accepts connections: its accepting thread sits, at two instants
    one second apart, in the same place inside the handling of ONE accepted connection (process_request /
    finish_request) instead of being back in its select loop. Returns a stack summary or None."""
    def sample():
        frames = sys._current_frames()
        out = {}
        for t in main_threads(baseline):
            f = frames.get(t.ident)
            names = []
            while f is not None:
                names.append(f.f_code.co_name)
                f = f.f_back
            if "serve_forever" in names and ("process_request" in names or "finish_request" in names):
                out[t.name] = names[:12]
        return out
    a = sample()
    if not a:
        return None
    time.sleep(1.0)
    b = sample()
    both = [k for k in a if k in b and a[k] == b[k]]
    if not both:
        return None
    return {"thread": both[0], "stack": b[both[0]], "what": "accepting thread blocked"}


def serving_thread_busy_with_a_request(baseline):
    """positive evidence that connections are handled on the accepting thread itself: the server's main
    thread (not a per-request worker) is inside socketserver's finish_request. Returns a stack summary or None."""
    frames = sys._current_frames()
    for t in main_threads(baseline):
        f = frames.get(t.ident)
        names = []
        while f is not None:
            names.append(f.f_code.co_name)
            f = f.f_back
        if "serve_forever" in names and "finish_request" in names:
            return {"thread": t.name, "stack": names[:12]}
    return None


# --------------------------------------------------------------------------- threads
def new_threads(baseline):
    return [t for t in threading.enumerate() if t not in baseline and t.is_alive()]


def main_threads(baseline):
    """alive threads created since `baseline` that are neither per-request workers of socketserver nor
    threads of the harness"""
    return [t for t in new_threads(baseline)
            if "process_request_thread" not in t.name and not t.name.startswith("vh-")]


def wait_request_threads_done(baseline, deadline):
    while True:
        ws = [t for t in new_threads(baseline) if "process_request_thread" in t.name]
        if not ws:
            return
        if time.monotonic() > deadline:
            raise InfraTimeout("request worker threads did not end")
        ws[0].join(0.05)


def hygiene_close(srv):
    """best-effort release of the listening socket after a case (keeps an unrepaired tree from
    exhausting the worker's port slice); never part of an observation"""
    try:
        inner = getattr(srv, "_server", None)
        if inner is not None:
            inner.server_close()
    except Exception:
        pass


# --------------------------------------------------------------------------- exchange cases
def run_exchange(case):
    setup()
    deadline = time.monotonic() + IO_DEADLINE_S
    log = CallLog()
    H = _state["ScriptedHandler"]
    handlers = [H(i, spec, log) for i, spec in enumerate(case["handlers"])]
    bind = case.get("bind", "::1")
    port = pick_port(bind)
    baseline = set(threading.enumerate())
    make = _state["create_http_server"] if case.get("factory") else _state["HttpServer"]
    srv = make(handlers, bind, port)
    _state["collector"].take()
    _state["stderr"].take()
    srv.start()
    phases_out = []
    try:
        for phase in case["phases"]:
            results = [None] * len(phase)
            errors = []

            def work(i, req):
                try:
                    host = client_host_for(bind, req.get("client"))
                    results[i] = do_request(host, port, req, deadline,
                                            stuck_probe=lambda: (request_worker_stuck(baseline)
                                                                 or serving_thread_blocked(baseline)))
                except InfraTimeout as e:
                    ev = serving_thread_blocked(baseline)
                    if ev:
                        # not the machine: the server's accepting thread is blocked, nobody will ever answer
                        results[i] = {"no_response": True, "server_not_accepting": True, "refused": False, "raw": "",
                                      "eof": False, "reset": False, "evidence": ev}
                    else:
                        errors.append(("timeout", str(e)))
                except Exception as e:  # noqa
                    errors.append(("error", repr(e)))

            holders = [i for i, r in enumerate(phase) if r.get("hold")]
            if len(phase) == 1 and not holders:
                work(0, phase[0])
            elif holders:
                # stalled clients: they connect, send their (incomplete) bytes and stay silent; only then the
                # other clients of the phase send their requests, which must be answered while the stalled
                # connections are still open; afterwards the stalled ones are released
                release = threading.Event()
                sent = {i: threading.Event() for i in holders}

                def hwork(i, req):
                    try:
                        host = client_host_for(bind, req.get("client"))
                        results[i] = do_request(host, port, req, deadline, hold=(sent[i], release))
                    except InfraTimeout as e:
                        errors.append(("timeout", str(e)))
                    except Exception as e:  # noqa
                        errors.append(("error", repr(e)))
                    finally:
                        sent[i].set()

                def owork(i, req):
                    try:
                        host = client_host_for(bind, req.get("client"))
                        results[i] = do_request(host, port, req, min(deadline, time.monotonic() + STARVE_S))
                    except InfraTimeout as e:
                        busy = serving_thread_busy_with_a_request(baseline)
                        if busy:
                            results[i] = {"starved": True, "refused": False, "raw": "", "eof": False, "reset": False,
                                          "evidence": busy}
                        else:
                            errors.append(("timeout", str(e)))
                    except Exception as e:  # noqa
                        errors.append(("error", repr(e)))

                hths = [threading.Thread(target=hwork, args=(i, phase[i]), name=f"vh-client-{i}") for i in holders]
                for t in hths:
                    t.start()
                for i in holders:
                    sent[i].wait(IO_DEADLINE_S)
                time.sleep(0.05)
                oths = [threading.Thread(target=owork, args=(i, r), name=f"vh-client-{i}")
                        for i, r in enumerate(phase) if i not in holders]
                for t in oths:
                    t.start()
                for t in oths:
                    t.join(IO_DEADLINE_S + 5)
                    if t.is_alive():
                        errors.append(("timeout", "client thread"))
                release.set()
                for t in hths:
                    t.join(IO_DEADLINE_S + 5)
                    if t.is_alive():
                        errors.append(("timeout", "client thread"))
            else:
                barrier = threading.Barrier(len(phase))

                def cwork(i, req):
                    try:
                        barrier.wait(IO_DEADLINE_S)
                    except threading.BrokenBarrierError:
                        errors.append(("timeout", "barrier"))
                        return
                    work(i, req)
                ths = [threading.Thread(target=cwork, args=(i, r), name=f"vh-client-{i}") for i, r in enumerate(phase)]
                for t in ths:
                    t.start()
                for t in ths:
                    t.join(IO_DEADLINE_S + 5)
                    if t.is_alive():
                        errors.append(("timeout", "client thread"))
            if errors:
                return {"infrastructure": errors[:3]}
            if not any(r and r.get("no_response") for r in results):
                wait_request_threads_done(baseline, deadline)
            entries = log.take()
            groups = {}
            for th, e in entries:
                groups.setdefault(id(th), []).append(e)
            n_tb, tb_samples = _state["stderr"].take()
            phases_out.append({"responses": results, "call_groups": list(groups.values()),
                               "exc_logs": _state["collector"].take(), "stderr_tracebacks": n_tb,
                               "stderr_samples": tb_samples[:3]})
    finally:
        # stop() of a server whose accepting thread is blocked never returns: do not let it take the worker along
        t_stop = threading.Thread(target=lambda: (srv.stop(), None), name="vh-stop", daemon=True)
        t_stop.start()
        t_stop.join(20.0)
        stop_hung = t_stop.is_alive()
        if not stop_hung:
            hygiene_close(srv)
    out = {"port": port, "phases": phases_out}
    if stop_hung:
        out["stop_hung"] = True
    return out


# --------------------------------------------------------------------------- lifecycle cases
GET_PROBE = {"method": "GET", "target": b"/probe".hex(), "version": "HTTP/1.0", "headers": []}


GET_PROBE_11 = {"method": "GET", "target": b"/probe".hex(), "version": "HTTP/1.1", "headers": [["Host", "x"]]}
# a request WITH a body that the handler reads completely; the client stays connected after the response
POST_PROBE = {"method": "POST", "target": b"/probe".hex(), "version": "HTTP/1.0", "headers": [], "body": b"hello".hex()}


def _response_complete(raw):
    """head received and as many body bytes as its Content-Length announces"""
    head, sep, body = raw.partition(b"\r\n\r\n")
    if not sep:
        return False
    for line in head.split(b"\r\n")[1:]:
        k, _, v = line.partition(b":")
        if k.strip().lower() == b"content-length" and v.strip().isdigit():
            return len(body) >= int(v.strip())
    return False


def probe(srv_port, bind, baseline, raised, deadline, version="1.0"):
    # 1. the main thread, immediately after the call returned
    alive = bool(main_threads(baseline))
    host = client_host_for(bind)
    if version in ("1.1", "post"):
        # an HTTP/1.1 client that does not ask for the connection to be closed and stays connected after the
        # response: the worker thread must still end with its response (the server closes the connection)
        s = connect(host, srv_port, deadline)
        accepts = s is not None
        serves = kept_open = False
        if s is not None:
            try:
                try:
                    s.sendall(request_bytes(GET_PROBE_11 if version == "1.1" else POST_PROBE))
                    seen = {"raw": b"", "t": None}
                    out = bytearray()
                    eof = False
                    while time.monotonic() < deadline:
                        r, _, _ = select.select([s], [], [], 0.05)
                        if r:
                            d = s.recv(1 << 16)
                            if not d:
                                eof = True
                                break
                            out += d
                            continue
                        if _response_complete(bytes(out)):
                            seen["t"] = seen["t"] or time.monotonic()
                            if time.monotonic() - seen["t"] > 2.0:
                                break
                        elif not main_threads(baseline):
                            break
                    complete = _response_complete(bytes(out)) or (eof and bytes(out).startswith(b"HTTP/1."))
                    serves = bytes(out).startswith(b"HTTP/1.") and complete
                    if complete and not eof:
                        # still open two seconds after the complete response: is a worker still sitting on it?
                        kept_open = any("process_request_thread" in t.name for t in new_threads(baseline))
                except (BrokenPipeError, ConnectionResetError):
                    serves = False
            finally:
                s.close()
        rebind = can_bind(bind, srv_port)
        return {"raised": raised, "accepts": accepts, "serves": serves, "rebind": rebind, "thread_alive": alive,
                "kept_open": kept_open}
    # 2. connect; if accepted try a request. "serves" is false without waiting for the deadline when
    #    no main thread exists that could ever accept the connection.
    s = connect(host, srv_port, deadline)
    accepts = s is not None
    serves = False
    if s is not None:
        try:
            try:
                s.sendall(request_bytes(GET_PROBE))
                raw, eof, reset = read_all(s, deadline, give_up=lambda: not main_threads(baseline))
                serves = raw.startswith(b"HTTP/1.") and eof
            except (BrokenPipeError, ConnectionResetError):
                serves = False
        finally:
            s.close()
    # 3. a new bind on the port (SO_REUSEADDR: TIME_WAIT must not count)
    rebind = can_bind(bind, srv_port)
    return {"raised": raised, "accepts": accepts, "serves": serves, "rebind": rebind, "thread_alive": alive}


def lifecycle_call(srv, op, bind, port):
    """returns the class name of the exception the call raised, or None"""
    blocker = None
    try:
        if op == "start_blocked":
            blocker = socket.socket(socket.AF_INET6, socket.SOCK_STREAM)
            blocker.setsockopt(socket.SOL_SOCKET, socket.SO_REUSEADDR, 1)
            try:
                blocker.bind((bind, port))
                blocker.listen(1)
            except OSError as e:
                # the port is still held (by the server under test: the probe of the previous step has
                # already recorded that); the call is made anyway
                blocker.close()
                blocker = None
                if e.errno != errno.EADDRINUSE:
                    raise InfraError(f"cannot occupy the port: {e!r}")
        try:
            if op in ("start", "start_blocked"):
                srv.start()
            elif op == "stop":
                srv.stop()
            else:
                raise InfraError(f"unknown lifecycle op {op}")
        except InfraError:
            raise
        except Exception as e:  # noqa
            return type(e).__name__
        return None
    finally:
        if blocker is not None:
            blocker.close()


def _stuck_report(threads_):
    """stacks of threads that did not return, and whether ALL of them are parked in a blocking primitive below
    vinegar's start()/stop() (= a deadlock or an endless wait of the code under test, not a stalled machine)"""
    import traceback as _tb
    frames = sys._current_frames()
    stacks, parked = [], 0
    for t in threads_:
        fr = frames.get(t.ident)
        st = _tb.extract_stack(fr) if fr is not None else []
        in_vinegar = any("vinegar/" in f.filename and f.name in ("start", "stop") for f in st)
        top = st[-1] if st else None
        blocking = top is not None and (top.name in ("acquire", "wait", "join", "_wait_for_tstate_lock", "__enter__", "shutdown")
                                        or (top.line or "").strip().startswith("with self._"))
        if in_vinegar and blocking:
            parked += 1
        stacks.append(["%s:%d %s" % (f.filename.rsplit("/", 1)[-1], f.lineno, f.name) for f in st[-6:]])
    return stacks, parked == len(threads_) and parked > 0


LIFECYCLE_DEADLINE_S = float(os.environ.get("VERIF_LIFECYCLE_DEADLINE_S", "30"))
_deadlocks_seen = [0]     # after the first deadlock in this worker the watchdog waits only briefly


def guarded_lifecycle_call(srv, op, bind, port):
    """lifecycle_call with a watchdog: (result, None) or (None, stacks) if the call does not return"""
    box = {}

    def run():
        try:
            box["r"] = lifecycle_call(srv, op, bind, port)
        except BaseException as e:  # noqa
            box["e"] = e

    t = threading.Thread(target=run, name="vh-life-seq", daemon=True)
    t.start()
    t.join(LIFECYCLE_DEADLINE_S if not _deadlocks_seen[0] else 3.0)
    if t.is_alive():
        stacks, parked = _stuck_report([t])
        if parked:
            _deadlocks_seen[0] += 1
            return None, stacks
        raise InfraTimeout("lifecycle call did not return: " + json.dumps(stacks)[:500])
    if "e" in box:
        raise box["e"]
    return box.get("r"), None


def run_lifecycle(case):
    setup()
    deadline = time.monotonic() + IO_DEADLINE_S
    log = CallLog()
    H = _state["ScriptedHandler"]
    hdrs = [[b"Content-Length".hex(), b"2".hex()]] if case.get("probe_version") in ("1.1", "post") else []
    handlers = [H(0, {"accept": "yes", "result": {"kind": "ret", "status": 200, "headers": hdrs, "body": "6f6b"}}, log)]
    bind = case.get("bind", "::1")
    port = pick_port(bind)
    baseline = set(threading.enumerate())
    srv = _state["HttpServer"](handlers, bind, port)
    out = {"port": port}
    held = []
    try:
        if case["mode"] == "seq":
            steps = []
            for op in case["steps"]:
                exc, stuck_stacks = guarded_lifecycle_call(srv, op, bind, port)
                if op == "start" and exc is None and case.get("idle_client") and not held:
                    # a client connects, sends half a request and stays connected for the rest of the history:
                    # stop() must still return, release the port and end the serving thread
                    c = connect(client_host_for(bind), port, deadline)
                    if c is not None:
                        c.sendall(b"GET /idle HTTP/1.1\r\nHost: x\r\n")
                        held.append(c)
                        time.sleep(0.05)
                if stuck_stacks is not None:
                    out["deadlock"] = True
                    out["stacks"] = stuck_stacks
                    out["steps"] = steps
                    out["exc_logs"] = _state["collector"].take()
                    return out
                p = probe(port, bind, baseline, exc is not None, deadline, version=case.get("probe_version", "1.0"))
                if not held:
                    wait_request_threads_done(baseline, deadline)
                steps.append({"op": op, "exc": exc, "probe": p})
            out["steps"] = steps
        else:
            for op in case.get("pre", []):
                lifecycle_call(srv, op, bind, port)
            n = len(case["threads"])
            barrier = threading.Barrier(n)
            excs = [[] for _ in range(n)]
            infra = []

            def work(i, ops):
                try:
                    barrier.wait(IO_DEADLINE_S)
                except threading.BrokenBarrierError:
                    infra.append("barrier")
                    return
                for op in ops:
                    excs[i].append(lifecycle_call(srv, op, bind, port))

            ths = [threading.Thread(target=work, args=(i, ops), name=f"vh-life-{i}", daemon=True)
                   for i, ops in enumerate(case["threads"])]
            for t in ths:
                t.start()
            life_deadline = time.monotonic() + (LIFECYCLE_DEADLINE_S if not _deadlocks_seen[0] else 3.0)
            for t in ths:
                t.join(max(1.0, life_deadline - time.monotonic()))
            stuck = [t for t in ths if t.is_alive()]
            if stuck:
                # lifecycle calls do no I/O beyond bind/listen/shutdown; tell a deadlock of the code under test from a
                # stalled machine by looking at where the threads are: a thread parked in a blocking primitive
                # (lock acquire / join / Event.wait) below a frame of vinegar's start()/stop() for the whole time-out
                # is deadlocked or waiting for ever
                stacks, all_parked = _stuck_report(stuck)
                if all_parked:
                    _deadlocks_seen[0] += 1
                    out["deadlock"] = True
                    out["stacks"] = stacks
                    out["exc_logs"] = _state["collector"].take()
                    return out
                return {"infrastructure": [("timeout", "lifecycle calls did not return; not all of them parked in a "
                                                       "blocking primitive: " + json.dumps(stacks)[:600])]}
            if infra:
                return {"infrastructure": [("timeout", infra[0])]}
            any_raised = any(e is not None for l in excs for e in l)
            out["excs"] = excs
            out["any_raised"] = any_raised
            out["probe"] = probe(port, bind, baseline, any_raised, deadline)
            wait_request_threads_done(baseline, deadline)
    finally:
        for c in held:
            # leave politely (half-close, read what the server still sends): a client that resets the connection makes
            # the server log a BrokenPipeError, which is that client's doing and not part of this history
            try:
                c.shutdown(socket.SHUT_WR)
                c.settimeout(2.0)
                while c.recv(65536):
                    pass
            except Exception:  # noqa
                pass
            try:
                c.close()
            except Exception:  # noqa
                pass
        if held:
            time.sleep(0.1)

        def _final_stop():
            try:
                srv.stop()
            except Exception:
                pass
        ft = threading.Thread(target=_final_stop, daemon=True)
        ft.start()
        ft.join(1.0 if out.get("deadlock") else LIFECYCLE_DEADLINE_S)
        hygiene_close(srv)
    out["exc_logs"] = _state["collector"].take()
    return out


def run_case(case):
    try:
        if case.get("kind") == "lifecycle":
            return run_lifecycle(case)
        return run_exchange(case)
    except InfraTimeout as e:
        return {"infrastructure": [("timeout", str(e))]}
    except InfraError as e:
        return {"infrastructure": [("error", str(e))]}
