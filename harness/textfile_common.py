"""
C14 — shared pieces of the text-file source check: case format, generator, adapter
(drives the REAL vinegar.data_source.text_file.TextFileSource in a temporary directory),
canonical observation, shrinker.

Case (JSON):
  {"regex": str, "ignore": str|None,
   "cfg": {"mismatch","duplicate": "ignore|warn|error", "find_first": bool, "cache": bool,
           "sys_id": var, "vars": [[key, var], …]},
   "init": None | {"garbage": true} | {"content": str},
   "steps": [["write", {"content": str}|{"garbage": true}] | ["delete"] | ["get", sid] | ["find", key, val]],
   "_meta": {...}}
  var = {"source": name|index, "chain": [tr…], "tnv": bool, "unv": bool}
  tr  = ["lower"]|["upper"]|["str"]|["prefix",p,form]|["suffix",s,form]|["split",sep|None,maxsplit,form]
        (form = how the argument is written in the configuration: scalar / list / dict)
  val = None | str | {"l": [str…]}
"""
import itertools
import os
import re
import shutil
import tempfile

REPO = os.environ.get("VINEGAR_REPO", "/repo")
ENV = "plain"

TRUSTED_BASE = [
    "Lean 4 kernel; axioms of every property theorem audited ⊆ {propext, Classical.choice, Quot.sound}",
    "Python's `re` (lines travel pre-classified by the real engine: ignored | mismatch | group values), `open(newline='')` "
    "decoding, `os.stat`/`os.utime`, `dict` ordering — modelled, checked differentially only",
    "vinegar.transform.string functions on the generated alphabet (ASCII plus caseless printable non-ASCII): modelled "
    "concretely in Lean, checked differentially",
    "the correspondence harness (this generator, the adapter, the compiled Lean driver)",
]
ASSUMPTIONS = [
    "every edit of the file changes the stat fields hashed by version_for_file_path (the harness bumps mtime_ns with a strictly "
    "increasing counter; edits inside the timestamp granularity are documented as out of contract by vinegar.utils.version)",
    "version_for_str / version_for_file_path are injective and never return '' (hash collisions excluded; hypothesis of the "
    "theorems, checked on the lines of every case)",
    "classification of a line by the regular expressions is a function of the line text (hypothesis `hcls`)",
    "'warn' and 'ignore' actions differ only in a log record, which is not part of the observation",
]

# --------------------------------------------------------------------------- formats
FORMATS = {
    # name: (regex, ignore choices, id sources, other sources (optional groups last), renderer)
    "csv": {
        "regex": r"(?P<id>[^;#]*);(?P<a>[^;]*)(?:;(?P<b>[^;]*))?(?:;(?P<c>.*))?",
        "ignore": [r"|#.*", r"\s*|#.*", None, r"#.*"],
        "id_src": ["id", 1], "src": ["a", "b", "c", 2, 3, 4, "id", 0], "sep": ";",
    },
    "csvopt": {
        "regex": r"(?P<id>[^;#]+)?;(?P<a>[^;]*)(?:;(?P<b>[^;]*))?",
        "ignore": [r"|#.*", None],
        "id_src": ["id", 1], "src": ["a", "b", 2, 3, "id"], "sep": ";",
    },
    "kv": {
        "regex": r"(\w[\w.-]*)[ \t]+(\S+)([ \t]+(\S.*))?",
        "ignore": [r"\s*", r"\s*(?://.*)?", None],
        "id_src": [1], "src": [2, 3, 4, 1, 0], "sep": " ",
    },
    # a liberal line format: commented-out entries match BOTH expressions (the ignore expression wins)
    "loose": {
        "regex": r"(?P<id>\S+)[ \t]+(?P<a>\S+)(?:[ \t]+(?P<b>\S.*))?",
        "ignore": [r"#.*", r"\s*|#.*|//.*", r"\S+ +aa", None],
        "id_src": ["id", 1], "src": ["a", "b", 2, 3, "id", 0], "sep": " ",
    },
    "eq": {
        "regex": r"(?P<id>[A-Za-z0-9-]+)=([^/]*)(?:/(?P<x>[^/]*))?(/)?",
        "ignore": [r"|;.*", None],
        "id_src": ["id", 1], "src": [2, "x", 3, 4, "id"], "sep": "/",
    },
}
ID_POOL = ["s1", "S1", "s2", "s3", "Host-A", "host-a", "x"]
VAL_POOL = ["10.0.0.1", "10.0.0.2", "aa,bb", "AA,bb", "aa", "AA", "a b  c", "", "it's", 'q"t', "€5", "b\\s", "t\tx",
            "a.b.c", "x,,y", " lead", "trail ", "日本", "\x0bvt", "m:n"]
KEY_POOL = ["a", "b", "net:ip", "net:name", "info:x:y", "c", "net:alt", "", "k:"]
CONFLICT_KEYS = ["net", "net:ip:v4", "info:x", "a:b"]
EOLS = ["\n", "\r\n", "\r"]


def split_keep(content):
    """reference line iteration of a text file opened with newline='' (lines keep their terminator)"""
    out, cur, i, n = [], "", 0, len(content)
    while i < n:
        c = content[i]
        if c == "\n":
            out.append(cur + c); cur = ""
        elif c == "\r":
            if i + 1 < n and content[i + 1] == "\n":
                out.append(cur + "\r\n"); i += 1
            else:
                out.append(cur + "\r")
            cur = ""
        else:
            cur += c
        i += 1
    if cur:
        out.append(cur)
    return out


def split_lines(content):
    return [l.rstrip("\r\n") for l in split_keep(content)]


def classify(regex, ignore, content):
    """the adapter's pre-classification of every line with the real `re`"""
    rx = re.compile(regex)
    ig = re.compile(ignore) if ignore is not None else None
    lines = []
    for text in split_lines(content):
        if ig is not None and ig.fullmatch(text) is not None:
            lines.append({"t": text, "c": "i"})
            continue
        m = rx.fullmatch(text)
        if m is None:
            lines.append({"t": text, "c": "m"})
            continue
        lines.append({"t": text, "c": "g",
                      "named": [[name, m.group(name)] for name in rx.groupindex],
                      "num": [m.group(i) for i in range(rx.groups + 1)]})
    return lines


# --------------------------------------------------------------------------- configuration for the real code
def tr_to_config(tr):
    tag = tr[0]
    if tag == "lower":
        return "string.to_lower"
    if tag == "upper":
        return "string.to_upper"
    if tag == "str":
        return {"string.to_str": []} if (len(tr) > 1 and tr[1]) else "string.to_str"
    if tag in ("prefix", "suffix"):
        name = "string.add_" + tag
        form = tr[2] if len(tr) > 2 else 0
        if form == 1:
            return {name: [tr[1]]}
        if form == 2:
            return {name: {tag: tr[1]}}
        return {name: tr[1]}
    if tag == "split":
        sep, ms = tr[1], tr[2]
        form = tr[3] if len(tr) > 3 else 0
        if form == 1:
            return {"string.split": [sep, ms]}
        if form == 2 and sep is not None and ms == -1:
            return {"string.split": sep}
        if form == 3 and sep is None and ms == -1:
            return "string.split"
        return {"string.split": {"sep": sep, "maxsplit": ms}}
    raise ValueError(tag)


def var_to_config(var):
    c = {"source": var["source"]}
    if var["chain"] or var.get("explicit"):
        c["transform"] = [tr_to_config(t) for t in var["chain"]]
    if var["tnv"]:
        c["transform_none_value"] = True
    if var["unv"]:
        c["use_none_value"] = True
    return c


def source_config(case, path):
    cfg = case["cfg"]
    c = {
        "file": path,
        "regular_expression": case["regex"],
        "system_id": var_to_config(cfg["sys_id"]),
        "variables": {k: var_to_config(v) for k, v in cfg["vars"]},
        "find_first_match": cfg["find_first"],
        "cache_enabled": cfg["cache"],
        "duplicate_system_id_action": cfg["duplicate"],
        "mismatch_action": cfg["mismatch"],
    }
    if case.get("ignore") is not None:
        c["regular_expression_ignore"] = case["ignore"]
    meta = case.get("_meta") or {}
    # defaults are exercised by leaving options out when they have their default value
    if meta.get("use_defaults"):
        if cfg["cache"] is True:
            del c["cache_enabled"]
        if cfg["find_first"] is False:
            del c["find_first_match"]
        if cfg["duplicate"] == "warn":
            del c["duplicate_system_id_action"]
        if cfg["mismatch"] == "warn":
            del c["mismatch_action"]
    return c


# --------------------------------------------------------------------------- canonical observation
def canon_val(v):
    if v is None or isinstance(v, str):
        return v
    if isinstance(v, list) and all(isinstance(x, str) for x in v):
        return {"l": list(v)}
    if isinstance(v, dict):
        return {"d": canon_items(v)}
    return {"?": repr(v)}


def canon_items(d):
    return [[k if isinstance(k, str) else {"?": repr(k)}, canon_val(v)] for k, v in d.items()]


def val_to_py(v):
    if isinstance(v, dict):
        return list(v["l"])
    return v


_COUNTER = [0]
GARBAGE = b"ok;line\n\xff\xfe\x00 not utf-8 \xc3\n"


def _write(path, content_obj):
    """replace the file and give it stat fields no earlier state of the path had"""
    data = GARBAGE if "garbage" in content_obj else content_obj["content"].encode("utf-8")
    _COUNTER[0] += 1
    if content_obj.get("keep_stat") and os.path.exists(path) and os.path.getsize(path) == len(data):
        # a change that leaves inode, size and mtime as they were (restore, `touch -r`): only ctime tells
        import time as _time
        st = os.stat(path)
        with open(path, "r+b") as f:
            f.write(data)
        os.utime(path, ns=(st.st_atime_ns, st.st_mtime_ns))
        for _ in range(200):
            if os.stat(path).st_ctime_ns != st.st_ctime_ns:
                break
            _time.sleep(0.002)
            os.utime(path, ns=(st.st_atime_ns, st.st_mtime_ns))
        return
    if _COUNTER[0] % 2:
        tmp = path + ".new"                 # new inode (editor style: write + rename)
        with open(tmp, "wb") as f:
            f.write(data)
        os.replace(tmp, path)
    else:
        with open(path, "wb") as f:         # same inode, rewritten in place
            f.write(data)
    t = 1_600_000_000_000_000_000 + _COUNTER[0] * 1_000_000_007
    os.utime(path, ns=(t, t))


def run_history(case):
    """adapter: the real TextFileSource over the history; returns the canonical observation"""
    import logging
    logging.disable(logging.CRITICAL)
    from vinegar.data_source.text_file import TextFileSource
    from vinegar.utils.version import version_for_str
    d = tempfile.mkdtemp(prefix="c14_")
    try:
        path = os.path.join(d, "systems.txt")
        contents = []        # classified contents in the order init, write, write …
        texts = set()

        def note(content_obj):
            if "garbage" in content_obj:
                contents.append({"garbage": True})
                return
            lines = classify(case["regex"], case.get("ignore"), content_obj["content"])
            texts.update(l["t"] for l in lines)
            contents.append({"content": content_obj["content"], "lines": lines})

        if case["init"] is not None:
            _write(path, case["init"])
            note(case["init"])
        try:
            src = TextFileSource(source_config(case, path))
        except Exception as e:
            return {"ctor_raised": type(e).__name__, "contents": contents}
        raw = []
        for st in case["steps"]:
            op = st[0]
            if op == "write":
                _write(path, st[1])
                note(st[1])
            elif op == "delete":
                try:
                    os.unlink(path)
                except FileNotFoundError:
                    pass
            elif op == "get":
                try:
                    data, version = src.get_data(st[1], {}, "")
                    raw.append(["data", canon_items(data), version])
                except Exception as e:
                    raw.append(["raised", type(e).__name__])
            elif op == "find":
                try:
                    r = src.find_system(st[1], val_to_py(st[2]))
                    raw.append(["found", r if (r is None or isinstance(r, str)) else {"?": repr(r)}])
                except Exception as e:
                    raw.append(["raised", type(e).__name__])
            else:
                raise ValueError(op)
        # versions → the model's `ver` ("v" + line) through the inverse of version_for_str on the lines of this case
        table = {}
        collisions = []
        for t in sorted(texts):
            h = version_for_str(t)
            if h in table or h == "":
                collisions.append(t)
            table.setdefault(h, []).append(t)
        obs = []
        for r in raw:
            if r[0] == "data":
                v = r[2]
                if v == "":
                    cv = ""
                elif not isinstance(v, str):
                    cv = "?" + repr(v)
                elif v in table and len(table[v]) == 1:
                    cv = "v" + table[v][0]
                elif v in table:
                    cv = "!" + v
                else:
                    cv = "?" + v
                obs.append(["data", r[1], cv])
            else:
                obs.append(r)
        return {"obs": obs, "contents": contents, "raw_versions": [r[2] for r in raw if r[0] == "data"],
                "ver_collisions": collisions}
    finally:
        shutil.rmtree(d, ignore_errors=True)


def run_chain(case):
    """the real get_transformation_chain on one value"""
    from vinegar.transform import get_transformation_chain
    f = get_transformation_chain([tr_to_config(t) for t in case["chain"]])
    try:
        return {"value": canon_val(f(val_to_py(case["value"])))}
    except Exception as e:
        return {"raised": type(e).__name__}


WS = [" ", "\t", "\x0b", "\x0c", "\x1c", "\x1f", "  "]


def gen_chain_case(rng):
    k = rng.random()
    if k < 0.08:
        value = None
    elif k < 0.5:
        value = rng.choice(VAL_POOL + ID_POOL)
    else:
        n = rng.randrange(0, 9)
        value = "".join(rng.choice(["a", "B", ",", ",", " ", ".", "'", '"', "\\", "€", "z", "Z", "\x7f", "\x01"] + WS)
                        for _ in range(n))
    chain = gen_chain(rng, maxlen=4)
    if rng.random() < 0.5:
        sep = rng.choice([None, None, ",", " ", "  ", ",,", "a", ".", ""])
        chain = chain[:rng.randrange(len(chain) + 1)] + [["split", sep, rng.choice([-1, -1, 0, 1, 2, 3, -7]), rng.randrange(4)]]
        if rng.random() < 0.5:
            chain.append(["str", 0])
    return {"kind": "chain", "chain": chain, "value": value}


def strip_meta(case):
    return {k: v for k, v in case.items() if not k.startswith("_")}


def model_cfg(cfg):
    def var(v):
        return {"source": v["source"], "chain": v["chain"], "tnv": v["tnv"], "unv": v["unv"]}
    return {"mismatch": cfg["mismatch"], "duplicate": cfg["duplicate"], "find_first": cfg["find_first"],
            "cache": cfg["cache"], "sys_id": var(cfg["sys_id"]), "vars": [[k, var(v)] for k, v in cfg["vars"]]}


def model_request(case, obs):
    contents = list(obs.get("contents") or [])
    it = iter(contents)
    init = None if case["init"] is None else next(it)
    steps = []
    for st in case["steps"]:
        if st[0] == "write":
            steps.append(["write", next(it)])
        else:
            steps.append(st)
    req = {"op": "textfile.run", "cfg": model_cfg(case["cfg"]), "init": init, "steps": steps}
    if "obs" in obs:
        req["impl_obs"] = obs["obs"]
    return req


# --------------------------------------------------------------------------- generator
def py_chain(chain, v):
    """generator-side guess of a transformed value (used only to aim queries)"""
    try:
        for t in chain:
            if t[0] == "lower":
                v = v.lower()
            elif t[0] == "upper":
                v = v.upper()
            elif t[0] == "str":
                v = str(v)
            elif t[0] == "prefix":
                v = t[1] + v
            elif t[0] == "suffix":
                v = v + t[1]
            elif t[0] == "split":
                v = v.split(t[1], t[2])
        return v
    except Exception:
        return None


def gen_chain(rng, allow_split=True, maxlen=3):
    n = rng.choice([0, 0, 1, 1, 2, maxlen])
    out = []
    for _ in range(n):
        k = rng.random()
        if k < 0.25:
            out.append(["lower"])
        elif k < 0.4:
            out.append(["upper"])
        elif k < 0.5:
            out.append(["str", rng.randrange(2)])
        elif k < 0.65:
            out.append(["prefix", rng.choice(["p-", "", "X", "€"]), rng.randrange(3)])
        elif k < 0.8:
            out.append(["suffix", rng.choice([".example", "", "-S", ",z"]), rng.randrange(3)])
        elif allow_split:
            sep = rng.choice([",", ",", None, None, ".", " ", "  ", ",,", "a", ""] if rng.random() < 0.9 else ["", "bb"])
            ms = rng.choice([-1, -1, -1, 0, 1, 2, -5])
            out.append(["split", sep, ms, rng.randrange(4)])
            if rng.random() < 0.93:
                break            # most functions do not accept a list
        else:
            out.append(["lower"])
    return out


def gen_var(rng, sources, allow_split=True):
    src = rng.choice(sources)
    if rng.random() < 0.012:
        src = rng.choice(["nope", 9])
    chain = gen_chain(rng, allow_split)
    tnv = rng.random() < 0.07
    if tnv and rng.random() < 0.6:
        chain = [["str", 0]] + chain if rng.random() < 0.6 else chain
    return {"source": src, "chain": chain, "tnv": tnv, "unv": rng.random() < 0.25, "explicit": rng.random() < 0.3}


def render_line(rng, fmt, ident=None):
    f = FORMATS[fmt]
    ident = rng.choice(ID_POOL) if ident is None else ident
    vals = [rng.choice(VAL_POOL) for _ in range(3)]
    k = rng.random()
    if fmt in ("csv", "csvopt"):
        vals = [v.replace(";", ":") for v in vals]
        if fmt == "csvopt" and rng.random() < 0.08:
            ident = ""
        if k < 0.3:
            return f"{ident};{vals[0]}"
        if k < 0.7 or fmt == "csvopt":
            return f"{ident};{vals[0]};{vals[1]}"
        return f"{ident};{vals[0]};{vals[1]};{vals[2]}"
    if fmt in ("kv", "loose"):
        a = vals[0].replace(" ", "_").replace("\t", "_").replace("\x0b", "_") or "-"
        if k < 0.4:
            return f"{ident} {a}"
        return f"{ident}{rng.choice([' ', '  ', chr(9)])}{a} {vals[1].strip() or 'w'} {vals[2]}"
    if fmt == "eq":
        vals = [v.replace("/", "|") for v in vals]
        if k < 0.4:
            return f"{ident}={vals[0]}"
        if k < 0.8:
            return f"{ident}={vals[0]}/{vals[1]}"
        return f"{ident}={vals[0]}/{vals[1]}/"
    raise ValueError(fmt)


def gen_lines(rng, fmt, n=None, clean=False):
    n = rng.choice([0, 1, 2, 3, 4, 5, 6, 8]) if n is None else n
    out = []
    for _ in range(n):
        k = rng.random()
        if clean or k < 0.62:
            out.append(render_line(rng, fmt))
        elif k < 0.72 and fmt == "loose" and rng.random() < 0.7:
            # a commented-out entry: it matches the line format as well
            out.append(rng.choice(["#", "# ", "//"]) + render_line(rng, fmt))
        elif k < 0.72:
            out.append(rng.choice(["# comment", "#", "// c", ";x", "  "]))
        elif k < 0.8:
            out.append("")
        elif k < 0.92:
            out.append(rng.choice(["junk", "no separator here", "=", ";", "???", " s1;a", "s1;a;b;c;d", "s1", "€"]))
        else:
            out.append(render_line(rng, rng.choice(list(FORMATS))))
    return out


def join_lines(rng, lines):
    style = rng.random()
    eol = rng.choice(EOLS)
    s = ""
    for i, l in enumerate(lines):
        e = eol if style < 0.7 else rng.choice(EOLS)
        if i == len(lines) - 1 and rng.random() < 0.3:
            e = ""
        s += l + e
    return s


def mutate_lines(rng, fmt, lines):
    lines = list(lines)
    k = rng.random()
    if not lines or k < 0.25:
        lines.insert(rng.randrange(len(lines) + 1), render_line(rng, fmt))
    elif k < 0.45:
        del lines[rng.randrange(len(lines))]
    elif k < 0.6:
        i = rng.randrange(len(lines))
        lines.insert(rng.randrange(len(lines) + 1), lines[i])          # duplicate line
    elif k < 0.75:
        i = rng.randrange(len(lines))
        lines[i] = render_line(rng, fmt, ident=(lines[i].split(";")[0].split("=")[0].split(" ")[0] or None))  # same id, new data
    elif k < 0.85:
        rng.shuffle(lines)
    elif k < 0.93:
        lines.insert(rng.randrange(len(lines) + 1), rng.choice(["junk", "???"]))
    else:
        lines = list(reversed(lines))
    return lines


def gen_cfg(rng, fmt):
    f = FORMATS[fmt]
    sys_chain = rng.choice([[], [], [["lower"]], [["upper"]], [["suffix", ".dom", rng.randrange(3)]],
                            [["prefix", "h-", 0], ["lower"]], [["lower"], ["suffix", ".Dom", 2]]])
    if rng.random() < 0.015:
        sys_chain = sys_chain + [["split", ",", -1, 0]]
    sys_id = {"source": rng.choice(f["id_src"]), "chain": sys_chain, "tnv": rng.random() < 0.05, "unv": rng.random() < 0.1,
              "explicit": rng.random() < 0.3}
    if rng.random() < 0.008:
        sys_id["source"] = rng.choice(["nope", 7])
    nv = rng.choice([1, 2, 2, 3, 3, 4, 5])
    keys = rng.sample(KEY_POOL, min(nv, len(KEY_POOL)))
    if rng.random() < 0.08:
        keys.insert(rng.randrange(len(keys) + 1), rng.choice(CONFLICT_KEYS))
    vars_ = [[k, gen_var(rng, f["src"])] for k in keys]
    return {"mismatch": rng.choice(["ignore", "warn", "warn", "warn", "ignore", "error"]),
            "duplicate": rng.choice(["ignore", "warn", "warn", "warn", "ignore", "error"]),
            "find_first": rng.random() < 0.5, "cache": rng.random() < 0.7, "sys_id": sys_id, "vars": vars_}


def _group(line, source):
    if isinstance(source, str):
        return dict((k, v) for k, v in line["named"]).get(source)
    return line["num"][source] if 0 <= source < len(line["num"]) else None


def gen_query(rng, cfg, kind=None, aim=None):
    """`aim` = (regex, ignore, current content): most queries ask for an ID / a value that the current file
    really provides (computed with the generator's own guess of the chain), the rest are near misses"""
    kind = kind or ("get" if rng.random() < 0.45 else "find")
    hits = []
    if aim is not None and aim[2] is not None and rng.random() < 0.8:
        try:
            hits = [l for l in classify(aim[0], aim[1], aim[2]) if l["c"] == "g"]
        except Exception:
            hits = []
    if hits and kind == "get":
        raw = _group(rng.choice(hits), cfg["sys_id"]["source"])
        v = py_chain(cfg["sys_id"]["chain"], raw) if raw is not None else None
        if isinstance(v, str):
            return ["get", v]
    if hits and kind == "find" and cfg["vars"]:
        key, var = rng.choice(cfg["vars"])
        raw = _group(rng.choice(hits), var["source"])
        if raw is None and not var["tnv"]:
            return ["find", key, None]
        v = py_chain(var["chain"], raw)
        if isinstance(v, list) and all(isinstance(x, str) for x in v):
            return ["find", key, {"l": v}]
        if isinstance(v, str):
            return ["find", key, v]
    if kind == "get":
        k = rng.random()
        ident = rng.choice(ID_POOL + [""])
        if k < 0.8:
            v = py_chain(cfg["sys_id"]["chain"], ident)
            sid = v if isinstance(v, str) else ident
        elif k < 0.9:
            sid = ident
        else:
            sid = "nope"
        return ["get", sid]
    key = rng.choice(cfg["vars"])[0] if (cfg["vars"] and rng.random() < 0.9) else rng.choice(["nokey", "net"])
    var = dict(cfg["vars"]).get(key)
    base = rng.choice(VAL_POOL + ID_POOL)
    k = rng.random()
    if k < 0.08:
        val = None
    elif k < 0.14:
        val = {"l": rng.choice([["aa", "bb"], ["AA", "bb"], [], ["a", "b", "c"], [""]])}
    elif k < 0.2:
        val = rng.choice(["None", "['aa', 'bb']", "w"])
    else:
        v = py_chain(var["chain"], base) if var else base
        if isinstance(v, list):
            val = {"l": v}
        elif isinstance(v, str):
            val = v
        else:
            val = base
    return ["find", key, val]


def gen_history_case(rng, style="random"):
    fmt = rng.choice(list(FORMATS))
    f = FORMATS[fmt]
    cfg = gen_cfg(rng, fmt)
    if style == "clean":
        cfg["mismatch"] = rng.choice(["ignore", "warn"])
        cfg["duplicate"] = rng.choice(["ignore", "warn"])
        cfg["vars"] = [kv for kv in cfg["vars"] if kv[0] not in CONFLICT_KEYS and kv[1]["source"] not in ("nope", 9)]
        cfg["vars"] = cfg["vars"] or [["a", {"source": f["src"][0], "chain": [], "tnv": False, "unv": False}]]
        for _, v in cfg["vars"]:
            v["tnv"] = False
    if style == "strict":
        cfg["mismatch"] = rng.choice(["error", "error", "warn"])
        cfg["duplicate"] = rng.choice(["error", "error", "ignore"])
        cfg["cache"] = True if rng.random() < 0.85 else False
    ignore = rng.choice(f["ignore"])
    cur = gen_lines(rng, fmt, clean=(style == "clean" and rng.random() < 0.5))
    k = rng.random()
    content = None
    if k < 0.08:
        init = None
        cur = []
    elif k < 0.1:
        init = {"garbage": True}
    else:
        content = join_lines(rng, cur)
        init = {"content": content}
    steps = []
    nsteps = rng.choice([3, 4, 5, 6, 8, 10, 12])
    while len(steps) < nsteps:
        k = rng.random()
        if k < 0.6:
            steps.append(gen_query(rng, cfg, aim=(f["regex"], ignore, content)))
            continue
        if k < 0.76:
            cur = mutate_lines(rng, fmt, cur)
            content = join_lines(rng, cur)
            steps.append(["write", {"content": content}])
        elif k < 0.88:
            cur = gen_lines(rng, fmt)
            content = join_lines(rng, cur)
            steps.append(["write", {"content": content}])
        elif k < 0.94:
            steps.append(["delete"])
            content = None
            if rng.random() < 0.6:                      # one look at the missing file, then it comes back
                steps.append(gen_query(rng, cfg))
                if rng.random() < 0.5:
                    cur = gen_lines(rng, fmt)
                content = join_lines(rng, cur)
                steps.append(["write", {"content": content}])
        elif k < 0.96:
            steps.append(["write", {"garbage": True}])
            content = None
        elif k < 0.98 and content:
            # same length, one letter or digit changed, written in place with the old mtime restored
            idx = [i for i, ch in enumerate(content) if ch.isascii() and ch.isalnum()]
            if idx:
                i = rng.choice(idx)
                ch = rng.choice([c for c in "abcxyz0189" if c != content[i]])
                content = content[:i] + ch + content[i + 1:]
                steps.append(["write", {"content": content, "keep_stat": True}])
        else:
            content = join_lines(rng, cur)
            steps.append(["write", {"content": content}])     # same lines again (maybe other EOLs)
        for _ in range(rng.choice([1, 2, 2, 3])):
            steps.append(gen_query(rng, cfg, aim=(f["regex"], ignore, content)))
    return {"regex": f["regex"], "ignore": ignore, "cfg": cfg, "init": init, "steps": steps,
            "_meta": {"style": style, "fmt": fmt, "use_defaults": rng.random() < 0.3}}


def enum_cases(maxlen, rng):
    """every history up to `maxlen` edits/calls over a small alphabet, closed by a get and a find,
    for cache on/off; the contents are chosen so that each edit flips between a good file, a file with a
    duplicate ID, a file with a mismatching line and a file where another line provides the ID"""
    f = FORMATS["csv"]
    A = "s1;aa;x\ns2;aa;y\n"
    B = "s1;bb\ns1;cc\ns3;aa\n"          # duplicate ID
    C = "s2;zz\njunk\ns1;aa\n"           # mismatching line
    alphabet = [["write", {"content": A}], ["write", {"content": B}], ["write", {"content": C}], ["delete"],
                ["get", "s1"], ["find", "a", "aa"]]
    out = []
    cfgs = []
    for cache in (True, False):
        for dup, mis, ff in (("error", "warn", False), ("warn", "error", True), ("ignore", "ignore", False)):
            cfgs.append({"mismatch": mis, "duplicate": dup, "find_first": ff, "cache": cache,
                         "sys_id": {"source": "id", "chain": [], "tnv": False, "unv": False},
                         "vars": [["a", {"source": "a", "chain": [], "tnv": False, "unv": False}],
                                  ["n:b", {"source": "b", "chain": [["upper"]], "tnv": False, "unv": False}]]})
    i = 0
    for n in range(0, maxlen + 1):
        for tup in itertools.product(range(len(alphabet)), repeat=n):
            cfg = cfgs[i % len(cfgs)]
            i += 1
            init = [None, {"content": A}, {"content": B}][i % 3]
            steps = [alphabet[t] for t in tup] + [["get", "s1"], ["find", "a", "aa"], ["get", "s3"]]
            out.append({"regex": f["regex"], "ignore": r"|#.*", "cfg": cfg, "init": init, "steps": steps,
                        "_meta": {"style": "enum", "fmt": "csv", "use_defaults": False}})
    return out


def both_match_cases():
    """lines that match the ignore expression AND the line format (commented-out entries under a liberal format):
    the ignore expression wins, whatever the other options are (deterministic, every seed)"""
    f = FORMATS["loose"]
    contents = ["#s9 10.0.0.9\ns1 aa\n# s1 zz\ns2 aa x\n", "s1 aa\n#s1 bb\n#s2 aa\n", "//s3 aa\n#s1 aa\ns1 cc\n",
                "#s1 aa\n", "s2 bb\n#x aa\n"]
    out = []
    for cache in (True, False):
        for dup, mis, ff in (("error", "error", False), ("warn", "warn", True), ("ignore", "ignore", False)):
            cfg = {"mismatch": mis, "duplicate": dup, "find_first": ff, "cache": cache,
                   "sys_id": {"source": "id", "chain": [], "tnv": False, "unv": False},
                   "vars": [["a", {"source": "a", "chain": [], "tnv": False, "unv": False}]]}
            for ign in (r"#.*", r"\s*|#.*|//.*", r"[#/].*"):
                for k, c in enumerate(contents):
                    steps = [["get", "s1"], ["get", "#s9"], ["get", "#s1"], ["get", "#"], ["find", "a", "aa"],
                             ["find", "a", "10.0.0.9"], ["get", "s2"], ["get", "#x"], ["get", "//s3"],
                             ["write", {"content": contents[(k + 1) % len(contents)]}],
                             ["get", "s1"], ["find", "a", "aa"], ["get", "#s1"], ["get", "#s2"], ["get", "#x"]]
                    out.append({"regex": f["regex"], "ignore": ign, "cfg": cfg, "init": {"content": c}, "steps": steps,
                                "_meta": {"style": "both-match", "fmt": "loose", "use_defaults": False}})
    return out


# --------------------------------------------------------------------------- shrinking
def _with(case, **kw):
    d = dict(case)
    d.update(kw)
    return d


def _shrink_content(c):
    if c is None or "garbage" in c:
        return
    ls = split_keep(c["content"])
    if len(ls) > 1:
        yield {"content": "".join(ls[:len(ls) // 2])}
        yield {"content": "".join(ls[len(ls) // 2:])}
    for i in range(len(ls)):
        yield {"content": "".join(ls[:i] + ls[i + 1:])}
    if "\r" in c["content"]:
        yield {"content": c["content"].replace("\r\n", "\n").replace("\r", "\n")}


def shrink_case(case):
    steps = case["steps"]
    n = len(steps)
    if n > 1:
        yield _with(case, steps=steps[:n // 2])
        yield _with(case, steps=steps[n // 2:])
    for i in range(n - 1, -1, -1):
        yield _with(case, steps=steps[:i] + steps[i + 1:])
    if case["init"] is not None:
        yield _with(case, init=None)
    for c in _shrink_content(case["init"]):
        yield _with(case, init=c)
    for i, st in enumerate(steps):
        if st[0] == "write":
            for c in _shrink_content(st[1]):
                yield _with(case, steps=steps[:i] + [["write", c]] + steps[i + 1:])
    cfg = case["cfg"]
    vs = cfg["vars"]
    for i in range(len(vs)):
        yield _with(case, cfg=dict(cfg, vars=vs[:i] + vs[i + 1:]))
    for i, (k, v) in enumerate(vs):
        for j in range(len(v["chain"])):
            nv = dict(v, chain=v["chain"][:j] + v["chain"][j + 1:])
            yield _with(case, cfg=dict(cfg, vars=vs[:i] + [[k, nv]] + vs[i + 1:]))
        if v["tnv"] or v["unv"]:
            yield _with(case, cfg=dict(cfg, vars=vs[:i] + [[k, dict(v, tnv=False, unv=False)]] + vs[i + 1:]))
    s = cfg["sys_id"]
    for j in range(len(s["chain"])):
        yield _with(case, cfg=dict(cfg, sys_id=dict(s, chain=s["chain"][:j] + s["chain"][j + 1:])))
    if case.get("ignore") is not None:
        yield _with(case, ignore=None)
    for key in ("mismatch", "duplicate"):
        if cfg[key] == "warn":
            yield _with(case, cfg=dict(cfg, **{key: "ignore"}))


def neighbours_case(case, rng):
    yield from shrink_case(case)
    cfg = case["cfg"]
    for key, vals in (("mismatch", ["ignore", "warn", "error"]), ("duplicate", ["ignore", "warn", "error"]),
                      ("find_first", [True, False]), ("cache", [True, False])):
        for v in vals:
            if cfg[key] != v:
                yield _with(case, cfg=dict(cfg, **{key: v}))
    for _ in range(30):
        steps = list(case["steps"])
        i = rng.randrange(len(steps) + 1)
        steps.insert(i, rng.choice([["delete"], gen_query(rng, cfg), ["write", {"garbage": True}]]))
        yield _with(case, steps=steps)
