"""
C15: generators, domain filters, driver requests and judging shared by props/c15.py.

Case kinds
  history   {views, steps}                 operation history over several views on one file
  fn        {fn: dumps|unquote|decode, …}  one pure function (json.dumps/_check_value, unquote, body decoding)
  nonfinite {value}                         NaN/±Infinity stream: outside the model, only "no crash, read back equal"
  crash     {views, steps, kill}            writer process SIGKILLed, fresh process reads the file
"""
import io
import json
import urllib.parse

from sqlite_adapter import cps, uncps

TRUSTED_BASE = [
    "Lean 4 kernel; axioms of every C15 theorem audited ⊆ {propext, Classical.choice, Quot.sound}",
    "compiled Lean driver (model + spec checkers evaluated on the implementation's observations)",
    "harness: generators, sqlite_adapter (views, raw dump connection, child/reader processes), judging",
    "CPython json / sqlite3 / urllib.parse.unquote / bytes.decode and the SQLite library: modelled "
    "(json.dumps, the JSON scanner, unquote and the UTF-8 decoder concretely) and differentially checked, not verified",
]

ASSUMPTIONS = [
    "DIFFERENTIAL ONLY (not proved): cross-connection/cross-process visibility, atomicity and durability are "
    "SQLite's (autocommit connection, one statement per operation). The Lean model is a pure map and cannot "
    "exhibit a stale read or a torn write; that half of C15 rests on the histories over 3 connections + source + "
    "handler (+ a store in a second process) and on the SIGKILL test, i.e. on trusting SQLite's atomic commit.",
    "SIGKILL test: kill of the writer PROCESS (not power loss); completed = acknowledged on a pipe after the "
    "operation returned; the file is read by a fresh process; accepted final states: the model's map after the "
    "acknowledged operations, or after one more (the operation in flight happened entirely or not at all).",
    "value domain: None, bool, int (|v| < 10^100; CPython's 4300-digit int/str limit not modelled), finite float "
    "(carried as float.__repr__), str (any code points incl. lone surrogates), list, dict; plus tuple/set/bytes/"
    "non-str keys/self-containing list for the rejection and non-strict paths. NaN/±Infinity: separate stream, "
    "outside the model (DESIGN §7). Non-strict dicts whose keys collide after conversion to str are not generated.",
    "system ids / keys are str; nesting depth of values and request bodies < 40 (RecursionError not modelled)",
    "update handler: client_address_list holds plain addresses (CIDR/client_address_key: C05); Content-Length "
    "header forms [+-]?[0-9]+ or non-numeric ASCII; JSON bodies are UTF-8 without BOM whose float literals are "
    "in repr form — a body outside that grammar (NaN/Infinity literals, UTF-16/32) is marked 'outside' by the model "
    "and only the spec checker (status 200/400, nothing but the configured key changes) is applied to it",
    "order: SQLite BINARY collation = code-point order of the strings (UTF-8 memcmp); checked on every dump",
]

SIDS = ["a", "b", "", "a b", "é", "a\0b", "sys/1", "%41", "😀", "a:b", "A", "0", "ab", "a/b", "a?b", "?x", "b?", "a?b?c"]
KEYS = ["k", "", "k2", "net:ip", "ü", "k\0", "x:y", "K", "netboot", "p:k"]
BAD_TEXT = ["\ud800x", "k\udfff", "\udc00"]
DKEYS = ["", "a", "b", "é", "k\n", "😀", "1", "null", "true", "1.5", "\ud800"]
PREFIXES = ["", "", "p", "a:b", "net", ":", "a:", "é:x", "p:k", "x:y:z"]
PATHS = ["/u", "/upd/", "/", "/a b", "/é", "/x/y", "/u/"]
ACTIONS = ["delete_data", "delete_value", "set_value", "set_json_value_from_request_body",
           "set_text_value_from_request_body"]
METHODS = ["GET", "PUT", "DELETE", "HEAD", "post", "PATCH", "", "POST ", "OPTIONS"]
FLOATS = [1.0, -0.0, 0.0, 1e16, 1e-7, 5e-324, 1.7976931348623157e308, 0.1, 1 / 3, -2.5, 123456789.123, 1e22, 1e21,
          2.0 ** 53, 9007199254740993.0, 1.5e-300, 100.0, 1e15, 123456789012345680.0]
INTS = [0, 1, -1, 2, 7, 255, 2 ** 31, 2 ** 63, -2 ** 63 - 1, 10 ** 30, -(10 ** 40) + 7, 2 ** 64, 10 ** 99]
STRS = ["", "a", "1", "true", "null", "x y", '"\\\n\r\t\b\f', "\x00\x1f\x7f\x80", "é€￿", "😀x", "\ud800",
        "\udc00\ud800", "😀", "a b/c%41", "192.0.2.1", "[1, 2]", "{\"a\": 1}", "  ", "/"]


def fix_pairs(x):
    """drop a low surrogate that directly follows a high surrogate: such a two-code-point str is
    written by json.dumps as the escape pair of ONE astral character and does not read back as
    itself (recorded finding, corpus/C15/surrogate_pair_readback.json) — kept out of the random streams"""
    out = []
    for c in x:
        if out and 0xD800 <= ord(out[-1]) <= 0xDBFF and 0xDC00 <= ord(c) <= 0xDFFF:
            continue
        out.append(c)
    return "".join(out)


def has_surrogate_pair(obj):
    """does a case contain a str value with an adjacent (high, low) surrogate pair?"""
    if isinstance(obj, dict):
        return any(has_surrogate_pair(v) for v in obj.values())
    if isinstance(obj, list):
        if len(obj) == 2 and obj[0] == "s" and isinstance(obj[1], list):
            cp = obj[1]
            return any(0xD800 <= a <= 0xDBFF and 0xDC00 <= b <= 0xDFFF for a, b in zip(cp, cp[1:])
                       if isinstance(a, int) and isinstance(b, int))
        return any(has_surrogate_pair(v) for v in obj)
    return False


def S(x):
    return ["s", cps(x)]


def F(x):
    return ["f", repr(x)]


def I(x):
    return ["i", str(x)]


def atom(rng):
    r = rng.random()
    if r < 0.12:
        return ["n"]
    if r < 0.24:
        return ["b", rng.random() < 0.5]
    if r < 0.44:
        return I(rng.choice(INTS) if rng.random() < 0.7 else rng.randint(-10 ** 25, 10 ** 25))
    if r < 0.62:
        if rng.random() < 0.7:
            return F(rng.choice(FLOATS))
        return F((rng.random() - 0.5) * 10 ** rng.randint(-12, 22))
    if rng.random() < 0.7:
        return S(rng.choice(STRS))
    return S(fix_pairs("".join(chr(rng.choice([rng.randint(0, 127), rng.randint(128, 0x2FFF), rng.randint(0x10000, 0x10FFFF),
                                               rng.randint(0xD800, 0xDFFF), 34, 92])) for _ in range(rng.randint(0, 6)))))


def gen_strict(rng, depth=0):
    """a value of the strict domain"""
    if depth >= 3 or rng.random() < 0.55:
        return atom(rng)
    n = rng.choice([0, 1, 1, 2, 3, 4])
    if rng.random() < 0.5:
        return ["l", [gen_strict(rng, depth + 1) for _ in range(n)]]
    keys = rng.sample(DKEYS, n)
    return ["d", [[S(k), gen_strict(rng, depth + 1)] for k in keys]]


def gen_loose(rng, depth=0):
    """accepted by json.dumps, rejected by the strict check: tuples, non-str keys"""
    r = rng.random()
    if r < 0.4:
        return ["t", [gen_strict(rng, depth + 1) for _ in range(rng.randint(0, 3))]]
    if r < 0.8:
        cands = [["i", "1"], ["i", "-5"], ["i", str(10 ** 20)], ["b", True], ["b", False], ["n"], ["f", "1.5"],
                 ["f", "1e+16"], S("a"), S("")]
        rng.shuffle(cands)
        items, texts, pykeys = [], set(), set()
        for k in cands[:rng.randint(1, 4)]:
            text = {"i": lambda: k[1], "b": lambda: "true" if k[1] else "false", "n": lambda: "null",
                    "f": lambda: k[1], "s": lambda: uncps(k[1])}[k[0]]()
            pk = {"i": lambda: int(k[1]), "b": lambda: bool(k[1]), "n": lambda: None, "f": lambda: float(k[1]),
                  "s": lambda: uncps(k[1])}[k[0]]()
            if text in texts or pk in pykeys:
                continue
            texts.add(text)
            pykeys.add(pk)
            items.append([k, gen_strict(rng, depth + 1)])
        if all(k[0] == "s" for k, _ in items):
            items.append([["i", "7"], ["n"]])
        return ["d", items]
    if r < 0.9:
        return ["l", [gen_strict(rng, depth + 1), gen_loose(rng, depth + 1)]]
    return ["d", [[S("x"), gen_loose(rng, depth + 1)]]]


def gen_rejected(rng, depth=0):
    """raises in json.dumps as well: set, bytes, unusable key, self-containing list"""
    r = rng.random()
    if r < 0.2:
        return ["set", [1, 2]]
    if r < 0.4:
        return ["bytes", "6162"]
    if r < 0.55:
        return ["cyc"]
    if r < 0.7:
        return ["d", [[["o"], ["n"]]]]
    inner = gen_rejected(rng, depth + 1) if depth < 2 else ["cyc"]
    other = rng.choice([gen_strict(rng, 2), ["t", [["i", "1"]]], ["cyc"], ["set", [1]], ["d", [[["i", "1"], ["cyc"]]]]])
    pair = [inner, other] if rng.random() < 0.5 else [other, inner]
    if rng.random() < 0.5:
        return ["l", pair]
    return ["d", [[S("a"), pair[0]], [S("b"), pair[1]]]]


def gen_value(rng, strictness=None):
    r = rng.random() if strictness is None else strictness
    if r < 0.78:
        return gen_strict(rng)
    if r < 0.9:
        return gen_loose(rng)
    return gen_rejected(rng)


def same_form_variants(v):
    """values of other types with the same or a confusable JSON form (find must compare the text)"""
    out = []
    t = v[0]
    if t == "i":
        out += [["f", repr(float(int(v[1])))] if abs(int(v[1])) < 2 ** 53 else ["n"], S(v[1]),
                ["b", True] if v[1] == "1" else ["b", False]]
    if t == "b":
        out += [I(1 if v[1] else 0), S("true" if v[1] else "false")]
    if t == "n":
        out += [S("null"), ["b", False]]
    if t == "f":
        out += [S(v[1])]
        try:
            if float(v[1]) == int(float(v[1])) and abs(float(v[1])) < 2 ** 53:
                out.append(I(int(float(v[1]))))
        except (OverflowError, ValueError):
            pass
    if t == "s":
        out += [["l", [v]], S(uncps(v[1]) + " ")]
    if t == "l":
        out += [["t", v[1]], S(json_text(v))]
    if t == "d":
        out += [S(json_text(v)), ["d", list(reversed(v[1]))]]
    return out


def json_text(v):
    from sqlite_adapter import build
    try:
        return json.dumps(build(v))
    except Exception:
        return ""


# --------------------------------------------------------------------------- request bodies
def json_body_in_domain(raw):
    """is this body inside the JSON grammar of the model? (UTF-8, no BOM/NUL start, no NaN/Infinity
    literal, float literals in repr form) — undecodable bodies ARE in the domain (→ 400)"""
    if raw[:1] == b"\0" or raw[1:2] == b"\0" or raw[:2] in (b"\xff\xfe", b"\xfe\xff") or raw[:3] == b"\xef\xbb\xbf":
        return False
    try:
        text = raw.decode("utf-8", "surrogatepass")
    except ValueError:
        return True
    ok = [True]

    def pf(tok):
        try:
            if repr(float(tok)) != tok:
                ok[0] = False
        except ValueError:
            ok[0] = False
        return 0.0

    def pc(tok):
        ok[0] = False
        return 0.0

    try:
        json.loads(text, parse_float=pf, parse_constant=pc)
    except ValueError:
        # the scanner may have stopped before a later literal: decided as 400 either way
        return True
    except RecursionError:
        return False
    return ok[0]


def effective_body(content_length, raw):
    """what `body.read(int(headers.get('Content-Length', '0')))` returns (None: ValueError)"""
    cl = "0" if content_length is None else content_length
    try:
        n = int(cl)
    except ValueError:
        return None
    return raw if n < 0 else raw[:n]


def header_in_domain(cl):
    if cl is None:
        return True
    import re
    if re.fullmatch(r"[+-]?[0-9]+", cl):
        return True
    try:
        int(cl)
        return False          # a form int() accepts but the model does not describe
    except ValueError:
        return cl.isascii()


def ser_json(rng, v):
    """bytes of a JSON document for the (strict) value v in one of several renderings"""
    from sqlite_adapter import build
    obj = build(v)
    style = rng.randint(0, 5)
    if style == 0:
        t = json.dumps(obj)
    elif style == 1:
        t = json.dumps(obj, separators=(",", ":"))
    elif style == 2:
        t = json.dumps(obj, indent=rng.choice([1, 2, "\t"]))
    elif style == 3:
        t = json.dumps(obj, ensure_ascii=False)
    elif style == 4:
        t = " \n\t" + json.dumps(obj, separators=(" ,\r\n", " : ")) + "\r\n "
    else:
        t = json.dumps(obj, ensure_ascii=False, separators=(",", ": "))
    return t.encode("utf-8", "surrogatepass")


ODD_JSON = [b"", b" ", b"-0", b"[1,]", b"{'a':1}", b'{"a":1,"a":2}', b'{"a":1,"b":2,"a":[3]}', b'"\\ud83d\\ude00"',
            b'"\\ud83d"', b'"\\ude00\\ud83d"', b'"\\ud83d\\u0041"', b'"\\x41"', b'"\\u12"', b'"\\u00zz"', b'"a\nb"',
            b'"a\tb"', b'"\\/"', b'"\\b\\f\\n\\r\\t\\"\\\\"', b"[" * 30 + b"]" * 30, b"[[]", b"[]]", b"{}", b"[]", b"nul",
            b"null ", b"nullx", b"true false", b"tru", b"01", b"1.", b".5", b"-", b"-a", b"1e", b"1e+", b"1 2", b"\"",
            b'"abc', b'{"a"}', b'{"a":}', b'{"a":1,}', b'{,}', b'{1:2}', b"[1 2]", b"\xff", b"\xc3\x28", b'"\xe2\x82"',
            b'"\xed\xa0\x80"', b'"\xed\xa0\x80\xed\xb0\x80"', b'"\xf0\x9f\x98\x80"', b'"\xf4\x90\x80\x80"', b'"\xc0\x80"',
            b"12345678901234567890123456789012345678901234567890", b"-12", b"0", b"-0.0", b"1.5", b"1e+16", b"2.5e-08",
            b"\x0c1", b"\xc2\xa01", b"1\x00", b'{"":""}', b'{"a" : [ ] , "b":{ }}', b'"\x7f"', b'"\\u0000"',
            b'"\\uD83D\\uDE00"', b'"\\uD83d\\ude00x"', b"[null,true,false]", b"NaN", b"Infinity", b"-Infinity", b"[NaN]",
            b"\xef\xbb\xbf1", b"1\x00\x00\x00", b"\x001", b"\xff\xfe1\x00", b"Nan", b"Infinit", b"-Infinit", b"1E5",
            b"1.50", b"1e5", b"1.0e+16"]


def gen_json_body(rng, pool):
    r = rng.random()
    if r < 0.55:
        return ser_json(rng, rng.choice(pool) if rng.random() < 0.6 else gen_strict(rng))
    if r < 0.8:
        return rng.choice(ODD_JSON)
    b = bytearray(ser_json(rng, gen_strict(rng)))
    m = rng.randint(0, 3)
    if m == 0 and b:
        del b[rng.randint(0, len(b) - 1):]
    elif m == 1 and b:
        b[rng.randint(0, len(b) - 1)] = rng.choice([0x22, 0x5c, 0x2c, 0x7b, 0x5d, 0x80, 0xff, 0x20, 0x30, 0x0a, 0x00])
    elif m == 2:
        b += rng.choice([b"x", b",", b" 1", b"]", b"\n", b"\xff"])
    else:
        b = bytearray(b" ") + b + bytearray(b" ")
    return bytes(b)


def gen_text_body(rng):
    r = rng.random()
    if r < 0.6:
        s = rng.choice(STRS) if rng.random() < 0.5 else "".join(
            chr(rng.choice([rng.randint(0, 127), rng.randint(128, 0x2FFF), rng.randint(0x10000, 0x10FFFF)]))
            for _ in range(rng.randint(0, 8)))
        try:
            return s.encode("utf-8")
        except UnicodeEncodeError:
            return s.encode("utf-8", "surrogatepass")
    return rng.choice([b"", b"\xff", b"a\xc3", b"\xc3\x28", b"\xe2\x82", b"\xe2\x82\xac", b"\xed\xa0\x80", b"\xf0\x9f\x98",
                       b"\xf0\x9f\x98\x80", b"\xf5\x80\x80\x80", b"\xc0\xaf", b"\xe0\x80\x80", b"\xf4\x90\x80\x80", b"\x80",
                       b"ok\n", b"1", b"\x00", b"\xef\xbb\xbfx", b"a\xf0\x90\x80", b"\xf0\x28\x8c\x28", b"\xfe\xff"])


def quote_variants(rng, sid):
    style = rng.randint(0, 6)
    if style == 0:
        return urllib.parse.quote(sid, safe="")
    if style == 1:
        return urllib.parse.quote(sid, safe="/:")
    if style == 2:
        return "".join("%%%02x" % b for b in sid.encode("utf-8"))
    if style == 3:
        return "".join(("%%%02X" % b if rng.random() < 0.5 else (chr(b) if b < 128 and b not in (0x25, 0x3f, 0) else "%%%02X" % b))
                       for b in sid.encode("utf-8"))
    if style == 4:
        return sid.replace("%", "%25").replace("?", "%3f").replace("\0", "%00")
    if style == 5:
        return urllib.parse.quote(sid, safe="") + rng.choice(["?x=1", "?", "?a=%41&b", "?/u/other"])
    return urllib.parse.quote(sid, safe="") + rng.choice(["%zz", "%4", "%", "%e2%82", "%ff", "%C3%28", "%2541", "%e2%82%ac",
                                                          "%ED%A0%80", "%f0%9f%98%80", "%F0%9F", "%%41", "%4%41", "+", "%c0%af"])


def norm_path(p):
    return p if p.endswith("/") else p + "/"


def gen_request(rng, h, sids, pool):
    method = "POST" if rng.random() < 0.72 else rng.choice(METHODS)
    base = norm_path(uncps(h["path"]))
    sid = rng.choice(sids)
    r = rng.random()
    if r < 0.8:
        uri = base + quote_variants(rng, sid)
    elif r < 0.84:
        uri = rng.choice(["/other/", "/", "", base[:-1], base]) + (urllib.parse.quote(sid, safe="") if rng.random() < 0.5 else "")
    elif r < 0.88:
        uri = base + urllib.parse.quote(sid, safe="") + rng.choice(["%00", "\0", "a%00b"])
    elif r < 0.93:
        uri = "".join("%%%02x" % ord(c) if (c.isascii() and rng.random() < 0.5) else c for c in base) + urllib.parse.quote(sid, safe="")
    elif r < 0.97:
        uri = base + "/" + urllib.parse.quote(sid, safe="")
    else:
        uri = base + sid.replace("\0", "") if "?" not in sid else base + "x"
    a = h["action"]
    if a == "set_json_value_from_request_body":
        raw = gen_json_body(rng, pool)
    elif a == "set_text_value_from_request_body":
        raw = gen_text_body(rng)
    else:
        raw = rng.choice([b"", b"ignored", b"\xff"])
    r = rng.random()
    if r < 0.74:
        cl = str(len(raw))
    elif r < 0.82:
        cl = None
    elif r < 0.87:
        cl = str(max(0, len(raw) - rng.randint(1, 3)))
    elif r < 0.91:
        cl = str(len(raw) + rng.randint(1, 5))
    elif r < 0.95:
        cl = rng.choice(["abc", "", "1.5", "0x10", "12a", "--1", "+", "-"])
    else:
        cl = rng.choice(["-1", "+%d" % len(raw), "-7", "00%d" % len(raw)])
    return {"view": None, "op": "request", "method": cps(method), "uri": cps(uri), "content_length": None if cl is None else cps(cl),
            "body": raw.hex(), "body_fault": rng.random() < 0.03,
            "client": cps(rng.choice(["192.0.2.1", "192.0.2.1", "192.0.2.9", "10.0.0.5"]))}


def request_in_domain(h, st):
    cl = None if st["content_length"] is None else uncps(st["content_length"])
    if not header_in_domain(cl):
        return False
    if h["action"] == "set_json_value_from_request_body":
        eff = effective_body(cl, bytes.fromhex(st["body"]))
        if eff is not None and not json_body_in_domain(eff):
            return False
    return True


# --------------------------------------------------------------------------- histories
def gen_views(rng, keys, pool, with_proc):
    views = {
        "s0": {"kind": "store", "strict": True},
        "s1": {"kind": "store", "strict": True},
        "s2": {"kind": "store", "strict": rng.random() < 0.4},
    }
    if with_proc:
        views["sp"] = {"kind": "store", "strict": True, "proc": True}
    for i in range(rng.choice([1, 1, 2])):
        views["src%d" % i] = {"kind": "source", "find_enabled": rng.random() < 0.9,
                              "prefix": cps(rng.choice(PREFIXES)), "explicit": True}
    if rng.random() < 0.15:
        views["srcd"] = {"kind": "source", "find_enabled": True, "prefix": "", "explicit": False}
    for i in range(rng.choice([1, 2, 2, 3])):
        a = rng.choice(ACTIONS)
        h = {"kind": "handler", "path": cps(rng.choice(PATHS)), "action": a, "key": None, "value": None,
             "clients": rng.choice([[], [], [], ["192.0.2.1"], ["192.0.2.1", "10.0.0.5"]])}
        if a != "delete_data":
            h["key"] = cps(rng.choice(keys))
        if a == "set_value":
            h["value"] = rng.choice(pool) if rng.random() < 0.7 else gen_value(rng)
        views["h%d" % i] = h
    return views


def gen_history(rng, n_steps=None, with_proc=False, allow_outside=False):
    sids = rng.sample(SIDS, 3)
    keys = rng.sample(KEYS, 3)
    pool = [gen_strict(rng) for _ in range(rng.randint(2, 4))]
    if rng.random() < 0.5:
        pool.append(rng.choice([I(1), ["b", True], F(1.0), S("1"), ["l", [I(1), I(2)]], ["n"], S("")]))
    views = gen_views(rng, keys, pool, with_proc)
    stores = [n for n, c in views.items() if c["kind"] == "store"]
    sources = [n for n, c in views.items() if c["kind"] == "source"]
    handlers = [n for n, c in views.items() if c["kind"] == "handler"]
    n = n_steps or rng.randint(6, 28)
    steps = []
    outside = False

    def sid():
        return rng.choice(BAD_TEXT) if rng.random() < 0.02 else rng.choice(sids)

    def key():
        return rng.choice(BAD_TEXT) if rng.random() < 0.02 else rng.choice(keys)

    def val():
        return rng.choice(pool) if rng.random() < 0.6 else gen_value(rng)

    def probe():
        v = rng.choice(pool)
        if rng.random() < 0.35:
            vs = same_form_variants(v)
            if vs:
                return rng.choice(vs)
        return v if rng.random() < 0.8 else gen_value(rng)

    while len(steps) < n:
        r = rng.random()
        if r < 0.30:
            v = rng.choice(stores)
            steps.append({"view": v, "op": "set_value", "sid": cps(sid()), "key": cps(key()), "value": val()})
        elif r < 0.36:
            steps.append({"view": rng.choice(stores), "op": "delete_value", "sid": cps(sid()), "key": cps(key())})
        elif r < 0.40:
            steps.append({"view": rng.choice(stores), "op": "delete_data", "sid": cps(sid())})
        elif r < 0.50:
            steps.append({"view": rng.choice(stores), "op": "get_value", "sid": cps(sid()), "key": cps(key())})
        elif r < 0.57:
            steps.append({"view": rng.choice(stores), "op": "get_data", "sid": cps(sid())})
        elif r < 0.65:
            steps.append({"view": rng.choice(stores), "op": "find_systems", "key": cps(key()), "value": probe()})
        elif r < 0.69:
            steps.append({"view": rng.choice(stores), "op": "list_systems"})
        elif r < 0.75:
            steps.append({"view": rng.choice(sources), "op": "get_data", "sid": cps(sid())})
        elif r < 0.82:
            s = rng.choice(sources)
            pfx = uncps(views[s]["prefix"]) if views[s].get("explicit", True) else ""
            k = key()
            q = rng.random()
            lk = (pfx + ":" + k) if (pfx and q < 0.75) else (k if q < 0.9 else pfx + k)
            steps.append({"view": s, "op": "find_system", "key": cps(lk), "value": probe()})
        else:
            hn = rng.choice(handlers)
            for _ in range(20):
                st = gen_request(rng, views[hn], sids, pool)
                st["view"] = hn
                if request_in_domain(views[hn], st):
                    break
            else:
                continue
            steps.append(st)
    if allow_outside and not outside:
        # a JSON body the model does not describe (NaN/Infinity literal, BOM, UTF-16/32): only the spec
        # checker applies to that step (200 or 400; nothing but the configured key may change)
        hj = [n for n in handlers if views[n]["action"] == "set_json_value_from_request_body"]
        if hj:
            hn = rng.choice(hj)
            raw = rng.choice([b"NaN", b"[Infinity]", b"-Infinity", b'{"a": NaN}', b"\xef\xbb\xbf1", b"1\x00\x00\x00",
                              b"\xff\xfe1\x00", b"\x00\x31", b"[1, -Infinity, 2]"])
            st = {"view": hn, "op": "request", "method": "POST",
                  "uri": cps(norm_path(uncps(views[hn]["path"])) + urllib.parse.quote(rng.choice(sids) or "x", safe="")),
                  "content_length": str(len(raw)), "body": raw.hex(), "body_fault": False, "client": "192.0.2.1"}
            steps.insert(rng.randint(0, len(steps)), st)
            steps.append({"view": rng.choice(stores), "op": "list_systems"})
            outside = True
    case = {"kind": "history", "views": views, "steps": steps,
            "_meta": {"proc": with_proc, "outside": outside}}
    return case


def gen_source_freshness(rng):
    """a long-lived source is asked for system X, X is changed through another connection, the source is asked for
    ANOTHER system and only then for X again (and the other way round): every answer is the current content"""
    sids = rng.sample(SIDS, 3)
    key = rng.choice(KEYS)
    vals = [gen_strict(rng) for _ in range(4)]
    pfx = rng.choice(PREFIXES)
    views = {"s0": {"kind": "store", "strict": True}, "s1": {"kind": "store", "strict": True},
             "src0": {"kind": "source", "find_enabled": True, "prefix": cps(pfx), "explicit": True},
             "srcd": {"kind": "source", "find_enabled": True, "prefix": "", "explicit": False}}
    X, Y, Z = sids
    src = rng.choice(["src0", "srcd"])
    steps = [{"view": "s0", "op": "set_value", "sid": cps(X), "key": cps(key), "value": vals[0]},
             {"view": "s0", "op": "set_value", "sid": cps(Y), "key": cps(key), "value": vals[1]},
             {"view": src, "op": "get_data", "sid": cps(X)},
             {"view": src, "op": "get_data", "sid": cps(Y)}]
    change = rng.choice([{"view": "s1", "op": "set_value", "sid": cps(X), "key": cps(key), "value": vals[2]},
                         {"view": "s1", "op": "delete_data", "sid": cps(X)},
                         {"view": "s1", "op": "delete_value", "sid": cps(X), "key": cps(key)}])
    steps.append(change)
    for sid in rng.choice([[Y, X], [Z, X], [Y, Z, X, Y], [X], [Y, Y, X]]):
        steps.append({"view": src, "op": "get_data", "sid": cps(sid)})
    steps.append({"view": "s0", "op": "set_value", "sid": cps(Y), "key": cps(key), "value": vals[3]})
    for sid in rng.choice([[X, Y], [Z, Y, X]]):
        steps.append({"view": src, "op": "get_data", "sid": cps(sid)})
    lk = (pfx + ":" + key) if (pfx and src == "src0") else key
    steps.append({"view": src, "op": "find_system", "key": cps(lk), "value": vals[3]})
    return {"kind": "history", "views": views, "steps": steps, "_meta": {"proc": False, "outside": False,
                                                                         "style": "source-freshness"}}


def gen_many_rows(rng):
    """reads that return more rows than any fetch batch: a system with 20-40 keys, 20-40 systems, as many systems
    sharing one value"""
    n = rng.choice([17, 20, 33, 40])
    key = rng.choice(KEYS)
    v = gen_strict(rng)
    views = {"s0": {"kind": "store", "strict": True}, "s1": {"kind": "store", "strict": True},
             "srcd": {"kind": "source", "find_enabled": True, "prefix": "", "explicit": False}}
    steps = []
    for i in range(n):
        steps.append({"view": "s0", "op": "set_value", "sid": cps("big"), "key": cps("k%02d" % i), "value": I(i)})
        steps.append({"view": "s0", "op": "set_value", "sid": cps("sys%02d" % i), "key": cps(key), "value": v})
    steps += [{"view": "s1", "op": "get_data", "sid": cps("big")}, {"view": "s1", "op": "list_systems"},
              {"view": "s1", "op": "find_systems", "key": cps(key), "value": v},
              {"view": "srcd", "op": "get_data", "sid": cps("big")},
              {"view": "s0", "op": "delete_data", "sid": cps("sys00")}, {"view": "s1", "op": "list_systems"},
              {"view": "s0", "op": "find_systems", "key": cps(key), "value": v}]
    return {"kind": "history", "views": views, "steps": steps, "_meta": {"proc": False, "outside": False, "style": "many-rows"}}


def gen_interleave(rng):
    """another connection's complete call falls between two SQL statements of one call (kind "interleave")"""
    sids = rng.sample(SIDS, 2)
    keys = rng.sample(KEYS, 2)
    vals = [gen_strict(rng) for _ in range(3)]
    views = {"s0": {"kind": "store", "strict": True}, "s1": {"kind": "store", "strict": True}}

    def write(view):
        r = rng.random()
        sid, key = rng.choice(sids), rng.choice(keys)
        if r < 0.6:
            return {"view": view, "op": "set_value", "sid": cps(sid), "key": cps(key), "value": rng.choice(vals)}
        if r < 0.8:
            return {"view": view, "op": "delete_value", "sid": cps(sid), "key": cps(key)}
        return {"view": view, "op": "delete_data", "sid": cps(sid)}
    init = [write("s0") for _ in range(rng.choice([0, 0, 1, 2]))]
    a = write("s0")
    b = write("s1")
    if rng.random() < 0.6:
        # both address the same cell (the interesting case: a key that does not exist yet, or one that does)
        for f in ("sid", "key"):
            if f in a and f in b:
                b[f] = a[f]
    if rng.random() < 0.25:
        a = {"view": "s0", "op": rng.choice(["get_data", "list_systems"]), "sid": cps(rng.choice(sids))}
    return {"kind": "interleave", "views": views, "init": init, "a": a, "b": b, "k": rng.choice([1, 2, 2, 2, 3]),
            "_meta": {"style": "interleave"}}


def gen_fn(rng, i):
    m = i % 3
    if m == 0:
        return {"kind": "fn", "fn": "dumps", "value": gen_value(rng, rng.random() * 1.0)}
    if m == 1:
        base = rng.choice(SIDS + ["/u/x", "/é/ü", "a%b", "100%"])
        s = quote_variants(rng, base) if rng.random() < 0.7 else "".join(
            rng.choice(["%", "%4", "%41", "%e2", "%82", "%ac", "%ff", "%f0", "%9f", "%98", "%80", "a", "é", "😀", "/", "%ED", "%A0",
                        "%C3", "%28", "%c0", "%F4", "%90", "%E0", "%9F", "%ef", "%bf", "%bd", "%0", "%00", "%zz", "%%"])
            for _ in range(rng.randint(0, 8)))
        return {"kind": "fn", "fn": "unquote", "s": cps(s)}
    for _ in range(50):
        raw = gen_json_body(rng, [gen_strict(rng)]) if rng.random() < 0.7 else gen_text_body(rng)
        if json_body_in_domain(raw):
            return {"kind": "fn", "fn": "decode", "body": raw.hex()}
    return {"kind": "fn", "fn": "decode", "body": b"null".hex()}


NONFINITE = [["f", "nan"], ["f", "inf"], ["f", "-inf"], ["l", [["f", "nan"], ["i", "1"]]],
             ["d", [[["s", "a"], ["f", "inf"]], [["s", "b"], ["l", [["f", "-inf"]]]]]], ["l", [["f", "nan"], ["f", "nan"]]]]


def gen_crash(rng, heavy=True):
    """write stream for the kill test: rows big enough that a commit spans many pages"""
    sids = rng.sample(["a", "b", "c", "é"], 2)
    keys = ["k%d" % i for i in range(rng.randint(2, 5))]
    steps = []
    n = rng.randint(6, 16)
    for i in range(n):
        r = rng.random()
        if r < 0.7:
            size = rng.choice([10, 3000, 40000, 120000]) if heavy else rng.choice([1, 10, 100])
            v = ["srep", rng.choice([97, 97, 98, 233, 34]), size] if rng.random() < 0.8 else gen_strict(rng)
            steps.append({"view": "w", "op": "set_value", "sid": cps(rng.choice(sids)), "key": rng.choice(keys), "value": v})
        elif r < 0.85:
            steps.append({"view": "w", "op": "delete_value", "sid": cps(rng.choice(sids)), "key": rng.choice(keys)})
        else:
            steps.append({"view": "w", "op": "delete_data", "sid": cps(rng.choice(sids))})
    after = rng.randint(0, n - 1)
    mode = rng.choice(["acked", "mid", "mid", "mid"])
    return {"kind": "crash", "views": {"w": {"kind": "store", "strict": True}}, "steps": steps,
            "kill": {"after": after, "mode": mode, "delay_us": rng.choice([0, 50, 200, 500, 1000, 2000, 4000, 8000])}}


def gen_crash_syscall(rng, heavy=True):
    """the same write streams, killed at a deterministic point: the k-th page write / sync / journal unlink"""
    c = gen_crash(rng, heavy)
    sc = rng.choice(["pwrite64", "pwrite64", "pwrite64", "fdatasync", "unlink", "ftruncate"])
    when = rng.choice([1, 2, 3, 4, 5]) if rng.random() < 0.3 else rng.randint(1, {"pwrite64": 400, "fdatasync": 60,
                                                                                  "unlink": 20, "ftruncate": 20}[sc])
    c["kill"] = {"mode": "syscall", "syscall": sc, "when": when, "after": 0}
    return c


# --------------------------------------------------------------------------- driver requests
def strip_meta(c):
    return {k: v for k, v in c.items() if not k.startswith("_")}


def drop_aux(res):
    return {k: v for k, v in res.items() if k != "aux"}


def norm(x):
    """normalise transport forms: code point arrays -> str"""
    if isinstance(x, list):
        if x and all(isinstance(c, int) and not isinstance(c, bool) for c in x):
            return uncps(x)
        return [norm(y) for y in x]
    if isinstance(x, dict):
        return {k: norm(v) for k, v in x.items()}
    return x


def norm_text(x):
    """a text field: str or code point list (the empty list is the empty string)"""
    return uncps(x) if isinstance(x, list) else x


def norm_res(r):
    r = drop_aux(r)
    out = {}
    for k, v in r.items():
        if k == "text":
            out[k] = norm_text(v)
        elif k == "data":
            out[k] = [[norm_text(a), norm_text(b)] for a, b in v]
        elif k == "systems":
            out[k] = [norm_text(a) for a in v]
        elif k == "system":
            out[k] = None if v is None else norm_text(v)
        elif k == "wrapped":
            out[k] = {"path": [norm_text(a) for a in v["path"]],
                      "rows": [[norm_text(a), norm_text(b)] for a, b in v["rows"]], "text": norm_text(v["text"])}
        else:
            out[k] = v
    return out


def norm_dump(d):
    return [[norm_text(a), norm_text(b), norm_text(c)] for a, b, c in d]
