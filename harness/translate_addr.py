"""
Translator section of C16: every regular-expression literal and every literal tuple /
format specifier that gates behaviour in vinegar/transform/{ip_address,ipv4_address,
ipv6_address,mac_address}.py and vinegar/utils/socket.py:ipv6_address_unwrap.

The verbose MAC expression is emitted twice: verbatim (ADDR_MAC_REGEXP_RAW) and with the
verbose-mode whitespace and comments stripped exactly the way `re` does it
(ADDR_MAC_REGEXP).  The interpreter constant `sys.int_info.default_max_str_digits`
(limit of `int(str)`, a property of the trusted Python runtime, not of /repo) is emitted
as PY_INT_MAX_STR_DIGITS because `int()` raises ValueError beyond it.
"""
import ast
import re
import sys

import translate as tr

PIN_V4 = "([0-9]+)\\.([0-9]+)\\.([0-9]+)\\.([0-9]+)(?:/([0-9]+))?"
PIN_MAC = ("(?x)([0-9A-Fa-f]{1,2})(?P<delimiter>[:\\-])([0-9A-Fa-f]{1,2})((?P=delimiter))([0-9A-Fa-f]{1,2})"
           "((?P=delimiter))([0-9A-Fa-f]{1,2})((?P=delimiter))([0-9A-Fa-f]{1,2})((?P=delimiter))([0-9A-Fa-f]{1,2})")


def strip_verbose(pat):
    """what `re` ignores in verbose mode: unescaped whitespace outside classes, `#` to end of line"""
    out, i, n, in_class = [], 0, len(pat), False
    while i < n:
        ch = pat[i]
        if ch == "\\" and i + 1 < n:
            out.append(pat[i:i + 2])
            i += 2
            continue
        if in_class:
            if ch == "]":
                in_class = False
            out.append(ch)
        elif ch == "[":
            in_class = True
            out.append(ch)
        elif ch.isspace():
            pass
        elif ch == "#":
            while i < n and pat[i] != "\n":
                i += 1
            continue
        else:
            out.append(ch)
        i += 1
    return "".join(out)


def _regex(consts, name):
    v = consts.get(name)
    if isinstance(v, tuple) and v and v[0] == "re" and not v[2]:
        return v[1]
    return None


def _membership_tuples(func):
    """literal tuples on the right of `in` / `not in`, in source order"""
    out = []
    if func is None:
        return out
    for n in ast.walk(func):
        if isinstance(n, ast.Compare) and len(n.ops) == 1 and isinstance(n.ops[0], (ast.In, ast.NotIn)):
            c = n.comparators[0]
            if isinstance(c, ast.Tuple):
                try:
                    out.append((n.lineno, n.col_offset, ast.literal_eval(c)))
                except Exception:
                    pass
    out.sort()
    return [t for _, _, t in out]


def _str_constants(func):
    out = []
    if func is None:
        return out
    for n in ast.walk(func):
        if isinstance(n, ast.Constant) and isinstance(n.value, str):
            out.append(n.value)
    return out


def _int_bounds(func):
    """integer literals compared with `>` / `<` in the function, sorted"""
    out = set()
    if func is None:
        return []
    for n in ast.walk(func):
        if isinstance(n, ast.Compare):
            for c in n.comparators:
                if isinstance(c, ast.Constant) and isinstance(c.value, int) and not isinstance(c.value, bool):
                    out.add(c.value)
    return sorted(out)


def _bytes_prefix(func):
    if func is None:
        return None
    for n in ast.walk(func):
        if isinstance(n, ast.Constant) and isinstance(n.value, bytes):
            return n.value
    return None


def addr_section(g, digests):
    if "ADDR_IPV4_REGEXP" in g.values:
        # core.translate() loads the extra sections and translate.main() loads them again: emit once
        return
    g.comment("vinegar/transform/*.py, vinegar/utils/socket.py:ipv6_address_unwrap (C16)")

    def load(rel):
        try:
            t = tr._parse(rel)
            return t, tr._module_consts(t)
        except Exception:
            return None, {}

    ip_t, ip_c = load("vinegar/transform/ip_address.py")
    v4_t, v4_c = load("vinegar/transform/ipv4_address.py")
    v6_t, v6_c = load("vinegar/transform/ipv6_address.py")
    mac_t, mac_c = load("vinegar/transform/mac_address.py")
    so_t, so_c = load("vinegar/utils/socket.py")

    g.string("ADDR_IPV4_REGEXP", _regex(v4_c, "_IPV4_REGEXP"), PIN_V4)
    g.string("ADDR_IP_IPV4_REGEXP", _regex(ip_c, "_IPV4_REGEXP"), PIN_V4)
    raw = _regex(mac_c, "_MAC_REGEXP")
    g.string("ADDR_MAC_REGEXP_RAW", raw, PIN_MAC)
    g.string("ADDR_MAC_REGEXP", strip_verbose(raw) if isinstance(raw, str) else None, PIN_MAC)
    # every other module-level regex of the four transform files would be a new gate: list them
    others = []
    for rel, c in [("ip_address", ip_c), ("ipv4_address", v4_c), ("ipv6_address", v6_c), ("mac_address", mac_c)]:
        for k, v in sorted(c.items()):
            if isinstance(v, tuple) and v and v[0] == "re" and k not in ("_IPV4_REGEXP", "_MAC_REGEXP"):
                others.append(f"{rel}.{k}={v[1]}")
    g.strlist("ADDR_OTHER_REGEXPS", others, [])

    # range checks of the IPv4 / IPv6 parsers
    f4 = tr._find_func(v4_t, "_str_to_addr_bytes_and_mask") if v4_t else None
    f6 = tr._find_func(v6_t, "_str_to_addr_bytes_and_mask") if v6_t else None
    b4 = _int_bounds(f4)
    b6 = _int_bounds(f6)
    g.nat("ADDR_V4_MAX_OCTET", b4[-1] if len(b4) == 2 else None, 255)
    g.nat("ADDR_V4_MAX_MASK", b4[0] if len(b4) == 2 else None, 32)
    g.nat("ADDR_V6_MAX_MASK", b6[-1] if b6 else None, 128)

    # MAC option tuples and format specifiers
    fm = tr._find_func(mac_t, "normalize") if mac_t else None
    tups = _membership_tuples(fm)
    g.strlist("ADDR_MAC_DELIM_COLON", tups[0] if len(tups) > 0 else None, [":", "colon"])
    g.strlist("ADDR_MAC_DELIM_DASH", tups[1] if len(tups) > 1 else None, ["-", "dash", "minus"])
    g.strlist("ADDR_MAC_CASES", tups[2] if len(tups) > 2 else None, ["lower", "upper"])
    strs = _str_constants(fm)
    fmts = [s for s in strs if s.startswith("{:") and s.endswith("}")]
    g.strlist("ADDR_MAC_FORMATS", sorted(fmts), ["{:02X}", "{:02x}"])

    # IPv4-mapped prefix of ipv6_address_unwrap
    fu = tr._find_func(so_t, "ipv6_address_unwrap") if so_t else None
    pre = _bytes_prefix(fu)
    g.string("ADDR_MAPPED_PREFIX_HEX", pre.hex() if isinstance(pre, bytes) else None, "00000000000000000000ffff")

    # property of the interpreter: int(str) raises ValueError for more digits than this
    lim = getattr(sys.int_info, "default_max_str_digits", 0)
    g.nat("PY_INT_MAX_STR_DIGITS", lim if lim > 0 else None, 4300)

    for rel, t, quals in [
        ("transform/ip_address.py", ip_t, ["net_address", "normalize", "strip_mask"]),
        ("transform/ipv4_address.py", v4_t, ["broadcast_address", "net_address", "normalize", "strip_mask",
                                             "_str_to_addr_bytes_and_mask"]),
        ("transform/ipv6_address.py", v6_t, ["net_address", "normalize", "strip_mask",
                                             "_str_to_addr_bytes_and_mask"]),
        ("transform/mac_address.py", mac_t, ["normalize"]),
        ("utils/socket.py", so_t, ["ipv6_address_unwrap"]),
    ]:
        if t is not None:
            for q in quals:
                digests[rel + ":" + q] = tr._func_digest(t, q)


SECTIONS = [addr_section]
