"""
C05 — shared pieces of the client-address check: value encoding, handler configurations,
the independent `ipaddress` oracle, the real-`inet_pton` table handed to the Lean model, generators,
shrinking.

Value encoding (JSON → Python → Lean `Val`):
  null | {"s": text} | {"i": int} | {"b": bool} | {"l": [values], "k": "list"|"tuple"|"set"} | {"d": [[key, value]…]}
"""
import ipaddress
import re
import socket

SYSTEM_ID = "sys1"
FILE_NAME = "boot.cfg"
FILE_TEXT = "FILE-CONTENT-7f3a\n"
TEMPLATE_TEXT = "TEMPLATE-CONTENT id={{ id if id is defined else '-' }}\n"
# (system, key, value) rows the SQLite store holds before every update request
DB_ROWS = [(SYSTEM_ID, "state", "old"), (SYSTEM_ID, "other", "keep"), ("sys2", "state", "foreign")]


# --------------------------------------------------------------------------- values
def S(x):
    return {"s": x}


def dec(v):
    if v is None:
        return None
    if "s" in v:
        return v["s"]
    if "i" in v:
        return v["i"]
    if "b" in v:
        return v["b"]
    if "l" in v:
        items = [dec(x) for x in v["l"]]
        return {"list": list, "tuple": tuple, "set": set}[v["k"]](items)
    if "d" in v:
        return {k: dec(x) for k, x in v["d"]}
    raise ValueError("bad value encoding")


def cand_of_py(x):
    """how the Lean model sees one member of an address collection (mirrors `candOfVal`)"""
    if isinstance(x, str):
        return x
    if x is None:
        return {"bad": "None", "hashable": True}
    if isinstance(x, bool):
        return {"bad": "bool:" + ("true" if x else "false"), "hashable": True}
    if isinstance(x, int):
        return {"bad": "int:%d" % x, "hashable": True}
    if isinstance(x, tuple):
        return {"bad": "tuple", "hashable": True}
    if isinstance(x, list):
        return {"bad": "list", "hashable": False}
    if isinstance(x, set):
        return {"bad": "set", "hashable": False}
    if isinstance(x, dict):
        return {"bad": "dict", "hashable": False}
    return {"bad": type(x).__name__, "hashable": True}


def build_collection(kind, entries):
    """the Python object handed to the code as an address collection"""
    if kind == "str":
        return dec(entries[0])
    items = [dec(e) for e in entries]
    return {"list": list, "tuple": tuple, "set": set, "frozenset": frozenset}[kind](items)


def iteration_cands(coll):
    try:
        return [cand_of_py(x) for x in coll]
    except TypeError:
        return None


def model_cands(kind, entries):
    """entries in case order as the model's `Cand`s (a `str` collection iterates its characters)"""
    if kind == "str":
        return [c for c in dec(entries[0])]
    return [cand_of_py(dec(e)) for e in entries]


def strings_in(v, acc):
    """every text that occurs anywhere in a value (entries, keys)"""
    if v is None:
        return
    if "s" in v:
        acc.append(v["s"])
    elif "l" in v:
        for x in v["l"]:
            strings_in(x, acc)
    elif "d" in v:
        for k, x in v["d"]:
            acc.append(k)
            strings_in(x, acc)


# --------------------------------------------------------------------------- inet_pton table
def _pton(fam, s):
    try:
        return socket.inet_pton(fam, s).hex()
    except (OSError, ValueError):      # ValueError: embedded NUL / not encodable — rejected all the same
        return None


def pton_table(texts):
    """rows [text, hex4|null, hex6|null] for every text, every text minus its last '/…' suffix, and every
    single character (a `str` used as a collection iterates its characters)"""
    want = []
    for t in texts:
        want.append(t)
        if "/" in t:
            want.append(t.rsplit("/", 1)[0])
    seen, rows = set(), []
    for t in want:
        if t not in seen:
            seen.add(t)
            rows.append([t, _pton(socket.AF_INET, t), _pton(socket.AF_INET6, t)])
    return rows


# --------------------------------------------------------------------------- ipaddress oracle
_DIGITS = re.compile(r"[0-9]+\Z")


def _oracle_addr(text):
    """(version, int) or None — ipaddress-based; stricter inputs that glibc rejects are rejected here too"""
    if not isinstance(text, str) or "%" in text or "/" in text or text != text.strip() or "\0" in text:
        return None
    if not text.isascii():
        return None
    try:
        a = ipaddress.ip_address(text)
    except ValueError:
        return None
    return a.version, int(a)


def oracle_contains(entries, client, allow_mask=True):
    """independent decision: is `client` in the union of the well-formed entries (strings only)"""
    c = _oracle_addr(client)
    if c is None:
        return False
    ver, val = c
    views = []                      # (version, int) readings of the client
    if ver == 4:
        views = [(4, val), (6, (0xFFFF << 32) | val)]
    else:
        views = [(6, val)]
        if val >> 32 == 0xFFFF:
            views.append((4, val & 0xFFFFFFFF))
    for e in entries:
        if not isinstance(e, str):
            continue
        addr_text, mask = e, None
        if allow_mask and "/" in e:
            head, tail = e.rsplit("/", 1)
            if _DIGITS.match(tail) and tail.isascii():
                addr_text, mask = head, int(tail)
        n = _oracle_addr(addr_text)
        if n is None:
            continue
        nver, nval = n
        width = 32 if nver == 4 else 128
        if mask is None:
            mask = width
        if mask > width:
            continue
        for cver, cval in views:
            if cver == nver and (cval >> (width - mask)) == (nval >> (width - mask)):
                return True
    return False


# --------------------------------------------------------------------------- handler configuration
KEY_PATHS = ["net:ip", "allowed", "net:acl:0", "a:b:c"]


def list_collection(cfgc):
    lst = cfgc.get("list")
    if lst is None:
        return None
    return build_collection(lst["coll"], lst["entries"])


def file_handler_config(cfgc, files_root):
    conf = {}
    lookup = cfgc["lookup"]
    if lookup == "off":
        conf["request_path"] = "/boot"
    else:
        conf["request_path"] = "/boot/..."
        conf["lookup_key"] = ":system_id:" if lookup == "system_id" else "net:mac"
    if cfgc.get("mode", "root_dir") == "root_dir":
        conf["root_dir"] = files_root
    else:
        conf["file"] = files_root + "/" + FILE_NAME
    if cfgc.get("key"):
        conf["client_address_key"] = cfgc["key"]
    coll = list_collection(cfgc)
    if coll is not None:
        conf["client_address_list"] = coll
    conf["data_source_error_action"] = cfgc["ds_action"]
    conf["lookup_no_result_action"] = cfgc["no_result"]
    if cfgc.get("template"):
        conf["template"] = "jinja"
    return conf


def sqlite_handler_config(cfgc, db_path):
    conf = {"request_path": "/upd", "db_file": db_path, "action": cfgc.get("action", "set_value")}
    if conf["action"] != "delete_data":
        conf["key"] = "state"
    if conf["action"] == "set_value":
        conf["value"] = "new"
    if cfgc.get("key"):
        conf["client_address_key"] = cfgc["key"]
    coll = list_collection(cfgc)
    if coll is not None:
        conf["client_address_list"] = coll
    return conf


def request_uri(case):
    cfgc = case["cfg"]
    if case["handler"] == "sqlite":
        return "/upd/" + SYSTEM_ID
    base = "/boot" if cfgc["lookup"] == "off" else "/boot/" + (SYSTEM_ID if cfgc["lookup"] == "system_id" else "02:00:00:00:00:01")
    if cfgc.get("mode", "root_dir") == "root_dir":
        return base + ("/" + FILE_NAME if case["world"]["file"] != "no_path" else "/sub/")
    return base


def expected_body(case):
    if case.get("method") == "HEAD":
        return None
    if not case["cfg"].get("template"):
        return FILE_TEXT.encode()
    cfgc, w = case["cfg"], case["world"]
    have = cfgc["lookup"] == "system_id" or (cfgc["lookup"] == "find" and w["find"] == "found")
    return ("TEMPLATE-CONTENT id=%s\n" % (SYSTEM_ID if have else "-")).encode()


# --------------------------------------------------------------------------- spec inputs (own walk of the data)
def _walk(data, key):
    """(status, value): status in found / absent / wrong_type"""
    cur = data
    for part in key.split(":"):
        if isinstance(cur, dict):
            if part not in cur:
                return "absent", None
            cur = cur[part]
        elif isinstance(cur, (list, tuple)) and re.fullmatch("[0-9]+", part) and part.isascii():
            i = int(part)
            if i >= len(cur):
                return "absent", None
            cur = cur[i]
        else:
            return "wrong_type", None
    return "found", cur


def spec_inputs(case):
    """restricted?, listed ∪ stored entries that are strings, is a wrongly typed value involved —
    computed by the harness from the case alone (not by the model, not by the code under test)"""
    cfgc, w = case["cfg"], case["world"]
    entries, has_bad = [], False
    coll = list_collection(cfgc)
    list_on = bool(coll)
    if list_on:
        for x in coll:
            if isinstance(x, str):
                entries.append(x)
            else:
                has_bad = True
    key = cfgc.get("key") or None
    if key:
        if case["handler"] == "sqlite":
            known = True
        else:
            known = cfgc["lookup"] == "system_id" or (cfgc["lookup"] == "find" and w["find"] == "found")
        if known and w["data"] != "raises":
            st, v = _walk(dec(w["data"]), key)
            if st == "wrong_type":
                has_bad = True
            elif st == "found":
                if isinstance(v, str):
                    entries.append(v)
                elif isinstance(v, (list, tuple, set, frozenset, dict)):
                    for x in v:
                        if isinstance(x, str):
                            entries.append(x)
                        else:
                            has_bad = True
                elif v:                     # truthy scalar (an int, True): not an address collection
                    has_bad = True
    return {"restricted": bool(key) or list_on, "entries": entries, "has_bad": has_bad}


# --------------------------------------------------------------------------- address material
V4_POOL = ["192.168.1.77", "10.0.0.1", "1.2.3.4", "255.255.255.255", "0.0.0.0", "127.0.0.1", "172.16.254.3",
           "128.0.0.0", "127.255.255.255", "192.0.2.129"]
V6_POOL = ["2001:db8::1", "fe80::1", "::1", "::", "2001:db8:85a3::8a2e:370:7334", "ff02::fb",
           "8000::", "7fff:ffff:ffff:ffff:ffff:ffff:ffff:ffff", "::ffff:0:0:1", "::fffe:1.2.3.4", "0:0:0:0:0:fffe:102:304"]
MALFORMED_CLIENTS = ["", "1.2.3", "1.2.3.4.5", "256.1.1.1", "01.2.3.4", "1.2.3.4 ", " 1.2.3.4", "1.2.3.4\n",
                     "1.2.3.4\x00", "::g", "1::2::3", "localhost", "1.2.3.4/32", "0x7f.0.0.1", "١.2.3.4",
                     ":::", "::ffff:1.2.3", "[::1]", "1.2.3.4%eth0", "::/0", "0/0", "*"]
BAD_MASKS = ["", "033", "33", "129", "-1", "+24", " 24", "24 ", "2 4", "abc", "0x18", "255.255.255.0", "1e1",
             "٣", "24\n", "9" * 30, "24/24", "/", "ffff::"]
WRONG_TYPES = [{"i": 5}, {"i": 32}, {"i": -1}, None, {"b": True}, {"l": [S("0.0.0.0/0")], "k": "list"},
               {"l": [S("0.0.0.0/0"), S("::/0")], "k": "tuple"}, {"d": [["0.0.0.0/0", S("x")]]},
               {"l": [], "k": "list"}, {"i": 0}]
V4_PREFIXES = [0, 1, 2, 7, 8, 9, 15, 16, 17, 23, 24, 25, 30, 31, 32]
V6_PREFIXES = [0, 1, 7, 8, 9, 15, 16, 17, 47, 48, 49, 63, 64, 65, 95, 96, 97, 103, 104, 105, 111, 112, 113, 119, 120,
               121, 126, 127, 128]


def v4_text(b):
    return socket.inet_ntop(socket.AF_INET, b)


def v6_text(b, rng=None, style=None):
    style = style if style is not None else (rng.randrange(5) if rng else 0)
    if style == 1:
        return ":".join("%x" % int.from_bytes(b[i:i + 2], "big") for i in range(0, 16, 2))
    if style == 2:
        return ":".join("%04X" % int.from_bytes(b[i:i + 2], "big") for i in range(0, 16, 2))
    if style == 3 and b[:12] == bytes(10) + b"\xff\xff":
        return "::ffff:" + v4_text(b[12:])
    if style == 4 and b[:12] == bytes(10) + b"\xff\xff":
        return "0:0:0:0:0:FFFF:" + v4_text(b[12:])
    return socket.inet_ntop(socket.AF_INET6, b)


def rand_client(rng):
    """(text, class)"""
    r = rng.random()
    if r < 0.30:
        b = bytes(rng.randrange(256) for _ in range(4)) if rng.random() < 0.5 else socket.inet_pton(socket.AF_INET, rng.choice(V4_POOL))
        return v4_text(b), "v4"
    if r < 0.52:
        b = bytes(rng.randrange(256) for _ in range(16)) if rng.random() < 0.5 else socket.inet_pton(socket.AF_INET6, rng.choice(V6_POOL))
        return v6_text(b, rng), "v6"
    if r < 0.78:
        b4 = bytes(rng.randrange(256) for _ in range(4)) if rng.random() < 0.5 else socket.inet_pton(socket.AF_INET, rng.choice(V4_POOL))
        b = bytes(10) + b"\xff\xff" + b4
        return v6_text(b, rng, style=rng.choice([0, 1, 2, 3, 4])), "mapped"
    if r < 0.86:
        return rng.choice(["fe80::1%eth0", "fe80::1%1", "::1%lo", "fe80::abcd%enp0s3", "::ffff:1.2.3.4%eth0"]), "scoped"
    return rng.choice(MALFORMED_CLIENTS), "malformed"


def client_readings(text):
    """[(4, bytes)…] readings of a well-formed client"""
    out = []
    b4 = _pton(socket.AF_INET, text)
    if b4 is not None:
        b = bytes.fromhex(b4)
        return [(4, b), (6, bytes(10) + b"\xff\xff" + b)]
    b6 = _pton(socket.AF_INET6, text)
    if b6 is not None:
        b = bytes.fromhex(b6)
        out.append((6, b))
        if b[:12] == bytes(10) + b"\xff\xff":
            out.append((4, b[12:]))
    return out


def network_for(rng, fam, b, member=None):
    """a network text aimed at the address bytes b: prefix p from the boundary grid, host bits randomised,
    and (member False) one bit flipped inside the prefix or (member True) outside it"""
    width = 32 if fam == 4 else 128
    p = rng.choice(V4_PREFIXES if fam == 4 else V6_PREFIXES) if rng.random() < 0.8 else rng.randrange(width + 1)
    val = int.from_bytes(b, "big")
    host = width - p
    if host:
        mode = rng.randrange(3)
        if mode == 0:
            val = (val >> host) << host
        elif mode == 1:
            val = ((val >> host) << host) | rng.randrange(1 << host)
    if member is None:
        member = rng.random() < 0.5
    if not member and p > 0:
        q = rng.choice([p - 1, p - 1, rng.randrange(p), 0, (p - 1) // 8 * 8])     # bit index from the top
        val ^= 1 << (width - 1 - q)
    elif member and host and rng.random() < 0.7:
        q = rng.choice([p, p, rng.randrange(p, width), width - 1])
        val ^= 1 << (width - 1 - q)
    nb = val.to_bytes(width // 8, "big")
    text = v4_text(nb) if fam == 4 else v6_text(nb, rng)
    form = rng.random()
    if p == width and form < 0.3:
        return text
    if form < 0.88:
        return "%s/%d" % (text, p)
    if form < 0.95:
        return "%s/%03d" % (text, p)
    return "%s/0%d" % (text, p)


def malformed_entry(rng, client_text):
    """an entry that must be ignored; most of them would admit the client if treated leniently"""
    base = client_text if (client_text and "/" not in client_text and rng.random() < 0.6) else rng.choice(V4_POOL + V6_POOL)
    r = rng.randrange(8)
    if r == 0:
        return base + "/" + rng.choice(BAD_MASKS)
    if r == 1:
        return rng.choice(["0.0.0.0/33", "::/129", "0.0.0.0/", "/0", "0/0", "::/", "*", "0.0.0.0/0/0", "any", "",
                           "0.0.0.0/00x", "::/0x0", "0.0.0.0 /0", "0.0.0.0/ 0", "0.0.0/0", "0/8", "::ffff:0.0.0.0/-0"])
    if r == 2:
        return rng.choice(MALFORMED_CLIENTS)
    if r == 3:
        return base + "%eth0"
    if r == 4:
        return " " + base
    if r == 5:
        return base + "/" + str(rng.choice([33, 64, 128, 129, 256, 1000]) if ":" not in base else rng.choice([129, 130, 256, 999]))
    if r == 6:
        return base.replace(".", ",") if "." in base else base.replace(":", ";")
    return base + "/"


def rand_entries(rng, client_text, n=None):
    """list of encoded values aimed at the client: related networks, decoys, malformed, wrongly typed"""
    reads = client_readings(client_text)
    n = rng.choice([0, 1, 1, 2, 3, 4, 6]) if n is None else n
    out = []
    for _ in range(n):
        r = rng.random()
        if r < 0.5 and reads:
            fam, b = rng.choice(reads)
            out.append(S(network_for(rng, fam, b)))
        elif r < 0.62:
            fam = rng.choice([4, 6])
            b = bytes(rng.randrange(256) for _ in range(4 if fam == 4 else 16))
            out.append(S(network_for(rng, fam, b, member=True)))
        elif r < 0.70:
            out.append(S(rng.choice(V4_POOL + V6_POOL)))
        elif r < 0.90:
            out.append(S(malformed_entry(rng, client_text)))
        else:
            out.append(rng.choice(WRONG_TYPES))
    return out


def hashable_only(entries):
    return [e for e in entries if not (isinstance(e, dict) and ("d" in e or (e.get("k") in ("list", "set"))))]


def no_bool_int_clash(entries):
    """a Python set identifies True with 1 and False with 0; keep such pairs out of generated collections"""
    out, seen = [], set()
    for e in entries:
        k = repr(dec(e)) if not (isinstance(e, dict) and ("l" in e or "d" in e)) else None
        if e is not None and isinstance(e, dict) and ("b" in e or e.get("i") in (0, 1)):
            if "boolish" in seen:
                continue
            seen.add("boolish")
        if k is not None:
            if k in seen:
                continue
            seen.add(k)
        out.append(e)
    return out
