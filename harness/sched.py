"""
Deterministic scheduler for REAL threads (C19).

Worker threads run real vinegar code, but only one of them runs at any time: every worker stops
at each traced source line of the files under test (`sys.settrace`) and continues only when the
scheduler hands it the token. A *schedule* is described by its pre-emption points: the list of
(global step number, thread to switch to). Without pre-emptions threads run to completion in index
order (a thread that blocks on a lock hands the token on).

Locks created while `coop_locks()` is active are cooperative: a blocked `acquire` yields to the
scheduler instead of blocking the process (the holder is paused, so a real block would deadlock
the harness), honours `blocking=False`, and a state in which every unfinished thread is blocked is
reported as a deadlock of the code under test.
"""
import sys
import threading

_RealLock = threading.Lock
_RealThread = threading.Thread
_RealSemaphore = threading.Semaphore

_current = None  # the active Scheduler


class Deadlock(Exception):
    pass


LOCK_WAIT_S = 0.5


class CoopLock:
    def __init__(self):
        self._real = _RealLock()
        self.owner = None

    def acquire(self, blocking=True, timeout=-1):
        s = _current
        me = s.me() if s is not None else None
        if me is None:
            if blocking and timeout is not None and timeout < 0:
                # outside a scheduled run nobody else is running: a lock that is not free now was left behind
                # by a call that has ended, and will never be released
                if self._real.acquire(True, LOCK_WAIT_S):
                    return True
                raise Deadlock("a lock is still held although no thread is running (left behind by an earlier call)")
            return self._real.acquire(blocking, timeout)
        while True:
            if self._real.acquire(False):
                self.owner = me
                return True
            if not blocking:
                return False
            s.block(me, self)

    def release(self):
        self.owner = None
        self._real.release()
        s = _current
        if s is not None:
            s.unblock(self)
            h = getattr(s, "on_release", None)
            if h is not None and not getattr(s, "killing", False):
                h(s.me(), self)

    def locked(self):
        return self._real.locked()

    def __enter__(self):
        self.acquire()
        return self

    def __exit__(self, *a):
        self.release()


class coop_locks:
    """context manager: locks created inside are cooperative"""

    def __enter__(self):
        threading.Lock = CoopLock
        return self

    def __exit__(self, *a):
        threading.Lock = _RealLock


class Worker:
    def __init__(self, idx, body):
        self.idx = idx
        self.body = body
        self.go = _RealSemaphore(0)
        self.state = "runnable"   # runnable | blocked | done
        self.blocked_on = None
        self.result = None
        self.error = None
        self.thread = None
        self.steps = 0


class Scheduler:
    def __init__(self, bodies, traced_files, preemptions=(), start_order=None, max_steps=200000, line_funcs=None):
        self.workers = [Worker(i, b) for i, b in enumerate(bodies)]
        self.traced = tuple(traced_files)
        self.preempt = {}
        for step, target in preemptions:
            self.preempt.setdefault(step, target)
        self.order = list(start_order) if start_order is not None else list(range(len(bodies)))
        self.step = 0
        self.done_evt = _RealSemaphore(0)
        self.ident = {}
        self.deadlock = False
        self.max_steps = max_steps
        self.trace_points = []   # (step, thread, file:line) sample for evidence
        self.switches = 0
        # None: every line of the traced files is a yield point; otherwise every call/return of a traced function
        # is one, and additionally every line of the functions named here
        self.line_funcs = line_funcs

    # ---- identity ---------------------------------------------------------------
    def me(self):
        return self.ident.get(threading.get_ident())

    # ---- token passing -------------------------------------------------------------
    def _pick_next(self, after=None, prefer=None):
        """next thread to run: the preferred one if runnable, otherwise round-robin in `order` starting behind
        `after` (so that after a pre-empting thread has finished, the thread FOLLOWING it in the order runs before
        the pre-empted one resumes)"""
        if prefer is not None and self.workers[prefer].state == "runnable":
            return self.workers[prefer]
        order = self.order
        start = 0
        if after is not None and after.idx in order:
            start = order.index(after.idx) + 1
        for k in range(len(order)):
            w = self.workers[order[(start + k) % len(order)]]
            if w.state == "runnable" and w is not after:
                return w
        if after is not None and after.state == "runnable":
            return after
        return None

    def _switch_from(self, w, prefer=None):
        nxt = self._pick_next(after=w, prefer=prefer)
        if nxt is None:
            if all(x.state == "done" for x in self.workers):
                self.done_evt.release()
                return
            # every unfinished thread is blocked
            self.deadlock = True
            for x in self.workers:
                if x.state == "blocked":
                    x.state = "runnable"
                    x.error = Deadlock("all threads blocked")
            self.done_evt.release()
            return
        if nxt is w:
            return
        self.switches += 1
        nxt.go.release()
        if w is not None and w.state != "done":
            w.go.acquire()
            if w.error is not None and isinstance(w.error, Deadlock):
                raise w.error

    def block(self, idx, lock):
        w = self.workers[idx]
        w.state = "blocked"
        w.blocked_on = lock
        self._switch_from(w)

    def unblock(self, lock):
        for x in self.workers:
            if x.state == "blocked" and x.blocked_on is lock:
                x.state = "runnable"
                x.blocked_on = None

    def yield_point(self, idx, where):
        self.step += 1
        w = self.workers[idx]
        w.steps += 1
        if self.step > self.max_steps:
            raise RuntimeError("scheduler: step limit exceeded")
        if len(self.trace_points) < 40:
            self.trace_points.append((self.step, idx, where))
        target = self.preempt.get(self.step)
        if target is not None and target != idx and self.workers[target].state == "runnable":
            self._switch_from(w, prefer=target)

    # ---- tracing ---------------------------------------------------------------------
    def _tracer(self, idx):
        traced = self.traced

        line_funcs = self.line_funcs

        def where(frame):
            return "%s:%d" % (frame.f_code.co_filename.rsplit("/", 1)[-1], frame.f_lineno)

        def local(frame, event, arg):
            if event == "line":
                self.yield_point(idx, where(frame))
            return local

        def local_calls(frame, event, arg):
            if event == "return":
                self.yield_point(idx, where(frame))
            return local_calls

        def glob(frame, event, arg):
            if event == "call" and frame.f_code.co_filename.endswith(traced):
                if line_funcs is None or frame.f_code.co_name in line_funcs:
                    return local
                self.yield_point(idx, where(frame))
                return local_calls
            return None

        return glob

    def _main(self, w):
        self.ident[threading.get_ident()] = w.idx
        w.go.acquire()
        sys.settrace(self._tracer(w.idx))
        try:
            w.result = w.body()
        except Deadlock as e:
            w.error = e
        except BaseException as e:   # the body's own exceptions are results
            w.error = e
        finally:
            sys.settrace(None)
            w.state = "done"
            self._switch_from(w)

    def run(self, real_timeout=60.0):
        global _current
        _current = self
        try:
            for w in self.workers:
                w.thread = _RealThread(target=self._main, args=(w,), daemon=True)
                w.thread.start()
            first = self._pick_next()
            if first is None:
                return
            first.go.release()
            if not self.done_evt.acquire(timeout=real_timeout):
                raise TimeoutError("scheduler run did not finish")
            for w in self.workers:
                w.thread.join(5.0)
        finally:
            _current = None
        return self


# =====================================================================================================
# Dynamic threads: code under test that itself creates threads (server lifecycle, C20)
# =====================================================================================================
class Killed(BaseException):
    """raised inside a parked worker when the run is over (the thread unwinds and ends)"""


class CoopThread:
    """threading.Thread look-alike: start() registers a new worker of the active DynScheduler (runnable, scheduled
    like every other worker), join() blocks cooperatively until that worker has finished"""

    def __init__(self, group=None, target=None, name=None, args=(), kwargs=None, *, daemon=None):
        self._target, self._args, self._kwargs = target, args, kwargs or {}
        self.name = name or "coop-thread"
        self.daemon = bool(daemon)
        self._worker = None
        self._started = False

    def run(self):
        if self._target is not None:
            self._target(*self._args, **self._kwargs)

    def start(self):
        if self._started:
            raise RuntimeError("threads can only be started once")
        s = _current
        if not isinstance(s, DynScheduler):
            raise RuntimeError("CoopThread started outside a DynScheduler run")
        self._started = True
        self._worker = s.spawn(self.run, self)

    def is_alive(self):
        return self._started and self._worker is not None and self._worker.state != "done"

    @property
    def ident(self):
        return None if self._worker is None or self._worker.thread is None else self._worker.thread.ident

    JOIN_TIMEOUT_YIELDS = 25

    def join(self, timeout=None):
        if not self._started:
            raise RuntimeError("cannot join thread before it is started")
        s = _current
        me = s.me() if s is not None else None
        if timeout is not None and me is not None:
            # a bounded wait: the joined thread gets a bounded number of turns, then the wait times out
            for _ in range(self.JOIN_TIMEOUT_YIELDS):
                if self._worker.state == "done":
                    return
                s.yield_now()
            return
        while self._worker.state != "done":
            if me is None:
                raise RuntimeError("CoopThread joined from outside the scheduler")
            if self._worker.idx == me:
                raise RuntimeError("cannot join current thread")
            s.block(me, self)


class coop_threads:
    """context manager: threads created inside are workers of the active DynScheduler. (Locks are NOT patched
    here: the scheduler's own semaphores are built on threading.Lock; create the object under test inside
    `coop_locks()` and run it inside `coop_threads()`.)"""

    def __enter__(self):
        threading.Thread = CoopThread
        return self

    def __exit__(self, *a):
        threading.Thread = _RealThread


class DynScheduler(Scheduler):
    """Scheduler whose workers may create further (daemon) workers. The run is over when every non-daemon
    worker has finished; daemon workers still alive then are parked and, after the observation hook has run,
    unwound with `Killed`. `yield_now` lets a polling loop (socket timeout) hand the token on."""

    def __init__(self, bodies, traced_files, **kw):
        super().__init__(bodies, traced_files, **kw)
        for w in self.workers:
            w.daemon = False
            w.thread_obj = None
        self.killing = False
        self.livelock = False
        self.timed_out = False
        self.on_release = None      # hook(worker idx, lock) after every release of a cooperative lock
        self.on_worker_end = None   # hook(worker idx)
        self.on_finish = None       # called on the harness thread when the run is over, before the unwinding
        self.finish_result = None

    # ---- dynamic workers -------------------------------------------------------------------------
    def spawn(self, body, thread_obj):
        w = Worker(len(self.workers), body)
        w.daemon = bool(thread_obj.daemon)
        w.thread_obj = thread_obj
        self.workers.append(w)
        self.order.append(w.idx)
        w.thread = _RealThread(target=self._main, args=(w,), daemon=True)
        w.thread.start()
        return w

    def _over(self):
        return all(x.state == "done" for x in self.workers if not x.daemon)

    def _park(self, w):
        w.go.acquire()
        if self.killing:
            raise Killed()

    def _switch_from(self, w, prefer=None):
        if self.killing:
            if w is not None and w.state != "done":
                raise Killed()
            return
        if self._over():
            self.done_evt.release()
            if w is not None and w.state != "done":
                self._park(w)
            return
        nxt = self._pick_next(after=w, prefer=prefer)
        if nxt is None:
            self.deadlock = True       # every unfinished thread is blocked
            self.done_evt.release()
            if w is not None and w.state != "done":
                self._park(w)
            return
        if nxt is w:
            return
        self.switches += 1
        nxt.go.release()
        if w is not None and w.state != "done":
            self._park(w)

    def yield_now(self):
        """called by the running worker inside a polling loop: let the next runnable worker run"""
        idx = self.me()
        if idx is None:
            return
        if self.killing:
            raise Killed()      # the run is over: a worker that is still running unwinds at its next yield
        w = self.workers[idx]
        self.step += 1
        if self.step > self.max_steps:
            self.livelock = True
            self.done_evt.release()
            self._park(w)
        self._switch_from(w)

    def yield_point(self, idx, where):
        if self.killing:
            if self.timed_out:
                raise Killed()  # abandoned run: a worker that is still running must not spin on
            return
        self.step += 1
        w = self.workers[idx]
        w.steps += 1
        if self.step > self.max_steps:
            self.livelock = True
            self.done_evt.release()
            self._park(w)
        if len(self.trace_points) < 40:
            self.trace_points.append((self.step, idx, where))
        target = self.preempt.get(self.step)
        if target is not None and target != idx and target < len(self.workers) \
                and self.workers[target].state == "runnable":
            self._switch_from(w, prefer=target)

    def unblock(self, obj):
        super().unblock(obj)

    def _main(self, w):
        self.ident[threading.get_ident()] = w.idx
        w.go.acquire()
        if self.killing:
            w.state = "done"
            return
        sys.settrace(self._tracer(w.idx))
        try:
            w.result = w.body()
        except Killed:
            pass
        except BaseException as e:   # the body's own exceptions are results
            w.error = e
        finally:
            sys.settrace(None)
            w.state = "done"
            if not self.killing:
                if w.thread_obj is not None:
                    self.unblock(w.thread_obj)
                if self.on_worker_end is not None:
                    try:
                        self.on_worker_end(w.idx)
                    except Exception:   # noqa
                        pass
                try:
                    self._switch_from(w)
                except Killed:
                    pass

    def run(self, real_timeout=60.0):
        global _current
        _current = self
        try:
            for w in list(self.workers):
                w.thread = _RealThread(target=self._main, args=(w,), daemon=True)
                w.thread.start()
            first = self._pick_next()
            if first is None:
                return self
            first.go.release()
            self.timed_out = not self.done_evt.acquire(timeout=real_timeout)
            if self.on_finish is not None and not self.timed_out:
                self.finish_result = self.on_finish()
            self.killing = True
            for w in list(self.workers):
                if w.state != "done":
                    w.go.release()
            for w in list(self.workers):
                w.thread.join(5.0)
        finally:
            _current = None
        return self


class CoopEvent:
    """threading.Event look-alike whose wait() blocks cooperatively"""

    def __init__(self):
        self._flag = False

    def is_set(self):
        return self._flag

    isSet = is_set

    def set(self):
        self._flag = True
        s = _current
        if s is not None:
            s.unblock(self)

    def clear(self):
        self._flag = False

    def wait(self, timeout=None):
        s = _current
        me = s.me() if s is not None else None
        while not self._flag:
            if me is None:
                raise RuntimeError("CoopEvent waited for from outside the scheduler")
            s.block(me, self)
        return True


class ThreadingShim:
    """stands in for the `threading` module inside ONE module under test (module.threading = ThreadingShim(...)):
    the named attributes are replaced, everything else is the real module's"""

    def __init__(self, **over):
        self.__dict__.update(over)

    def __getattr__(self, name):
        return getattr(threading, name)
