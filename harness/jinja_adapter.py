"""
C17 adapter: drives the REAL `vinegar.template.jinja.JinjaEngine` (from VINEGAR_REPO) on a
sandbox tree and returns canonical observations.

history:  one long-lived engine renders at every `render` operation; next to it a freshly
          constructed engine (same configuration) renders the same template — the reference
          the property names. Observation of one render: ["ok", text] or ["err", class name].
          File edits set mtime to STAMP_BASE + stamp seconds through os.utime (the stamps of a
          case increase strictly), because the kernel's timestamp granularity would otherwise make
          "edit twice quickly" look stale — which the code documents as out of contract.
access:   decisions of the real `_PythonHelper._check_access` for a sequence of module names on
          ONE helper object (so its decision cache is exercised).
join:     results of the real environment's `join_path`.
"""
import os
import shutil
import sys
import tempfile
import time

import jinja_common as J

_STATE = {}


def setup():
    """create the fake importable modules and make them importable"""
    d = tempfile.mkdtemp(prefix="c17mods_")
    for mod, attrs in J.MODULES.items():
        parts = mod.split(".")
        pkg = os.path.join(d, *parts)
        os.makedirs(pkg, exist_ok=True)
        with open(os.path.join(pkg, "__init__.py"), "w") as f:
            for k, v in attrs.items():
                f.write("%s = %r\n" % (k, v))
    sys.path.insert(0, d)
    sys.dont_write_bytecode = True
    _STATE["mods"] = d
    _STATE["cwd0"] = os.getcwd()
    import atexit
    atexit.register(shutil.rmtree, d, True)


def _engine_cls():
    from vinegar.template.jinja import JinjaEngine
    return JinjaEngine


def _observe(fn):
    try:
        return ["ok", fn()]
    except BaseException as e:  # noqa: BLE001 - the class name IS the observation
        if isinstance(e, (KeyboardInterrupt, SystemExit)):
            raise
        return ["err", type(e).__name__, str(e)[:160]]


def run_history(case):
    Engine = _engine_cls()
    world = os.path.realpath(tempfile.mkdtemp(prefix="c17_"))
    try:
        root = os.path.join(world, J.ROOT)
        for d in J.DIRS:
            os.makedirs(os.path.join(root, d), exist_ok=True)
        os.chdir(root)
        config = J.engine_config(case["cfg"], world)
        engine = Engine(dict(config))
        out_engine, out_fresh = [], []
        for op in case["ops"]:
            if op[0] == "write":
                path = os.path.join(world, op[1])
                os.makedirs(os.path.dirname(path), exist_ok=True)
                if len(op) > 4 and op[4] == "keep_stat" and os.path.isfile(path):
                    # rewritten IN PLACE (same inode), padded to the old size with a trailing comment, the old modification
                    # time restored: only the ctime tells (rsync --inplace -t, an editor that preserves times)
                    st = os.stat(path)
                    src = J.jinja_source(op[2], world).encode("utf-8")
                    pad = st.st_size - len(src)
                    if pad == 0 or pad >= 4:
                        if pad:
                            src += b"{#" + b" " * (pad - 4) + b"#}"
                        time.sleep(0.002)           # a ctime that differs also on coarse clocks
                        with open(path, "r+b") as f:
                            f.write(src)
                        os.utime(path, ns=(st.st_atime_ns, st.st_mtime_ns))
                        continue
                    op = op[:4] + ["keep_mtime"]     # sizes cannot be made equal: replace, keeping the mtime
                if len(op) > 4 and op[4] == "keep_mtime" and os.path.isfile(path):
                    # the file is REPLACED (new inode, new ctime) but keeps the old modification time
                    st = os.stat(path)
                    with open(path + ".replacement", "w", encoding="utf-8") as f:
                        f.write(J.jinja_source(op[2], world))
                    os.replace(path + ".replacement", path)
                    os.utime(path, ns=(st.st_atime_ns, st.st_mtime_ns))
                    continue
                if len(op) > 4 and op[4] == "symlink" and not os.path.lexists(path):
                    # the template is a symbolic link to the real file; later writes go through the link, in place
                    os.symlink(os.path.basename(path) + ".target", path)
                with open(path, "w", encoding="utf-8") as f:
                    f.write(J.jinja_source(op[2], world))
                t = J.STAMP_BASE + op[3]
                os.utime(path, ns=(t * 10 ** 9, t * 10 ** 9))
            elif op[0] == "delete":
                try:
                    os.unlink(os.path.join(world, op[1]))
                except FileNotFoundError:
                    pass
            elif op[0] == "render_w":
                name = J.subst(op[1], world)
                ctx = J.dec_ctx(op[2])
                target = os.path.join(world, op[3])
                # the fresh engine first (the file is still the old one), then the long-lived engine with the hook
                fresh = Engine(dict(config))
                out_fresh.append(_observe(lambda: fresh.render(name, dict(ctx))))

                def rewrite():
                    with _REAL_OPEN(target, "w", encoding="utf-8") as f:
                        f.write(J.jinja_source(op[4], world))
                    t = J.STAMP_BASE + op[5]
                    os.utime(target, ns=(t * 10 ** 9, t * 10 ** 9))
                out_engine.append(_observe(lambda: _with_write_after_read(target, rewrite,
                                                                         lambda: engine.render(name, dict(ctx)))))
            elif op[0] == "render":
                name = J.subst(op[1], world)
                ctx = J.dec_ctx(op[2])
                out_engine.append(_observe(lambda: engine.render(name, dict(ctx))))
                fresh = Engine(dict(config))
                out_fresh.append(_observe(lambda: fresh.render(name, dict(ctx))))
            else:
                raise ValueError(op[0])
        return {"world": world, "engine": out_engine, "fresh": out_fresh}
    finally:
        os.chdir(_STATE.get("cwd0", "/"))
        shutil.rmtree(world, ignore_errors=True)


import builtins  # noqa: E402
_REAL_OPEN = builtins.open


class _ReadHook:
    """file object proxy: the first read() that returns runs `action` once"""

    def __init__(self, f, fire):
        self._f, self._fire = f, fire

    def read(self, *a):
        data = self._f.read(*a)
        self._fire()
        return data

    def __enter__(self):
        self._f.__enter__()
        return self

    def __exit__(self, *a):
        return self._f.__exit__(*a)

    def __iter__(self):
        return iter(self._f)

    def __getattr__(self, name):
        return getattr(self._f, name)


def _with_write_after_read(target, action, body):
    """run body(); the first time `target` is opened for reading and read, `action` runs right after the read
    returns (the file changes between the reader's read and whatever it does next); if the file is never read
    the action runs after body()"""
    state = {"done": False}

    def fire():
        if not state["done"]:
            state["done"] = True
            action()

    def hooked(file, mode="r", *a, **kw):
        f = _REAL_OPEN(file, mode, *a, **kw)
        try:
            same = isinstance(file, (str, bytes, os.PathLike)) and os.path.abspath(os.fspath(file)) == target
        except Exception:  # noqa
            same = False
        if same and not state["done"] and "r" in mode and "+" not in mode:
            return _ReadHook(f, fire)
        return f

    builtins.open = hooked
    try:
        return body()
    finally:
        builtins.open = _REAL_OPEN
        fire()


def run_access(case):
    Engine = _engine_cls()
    engine = Engine({"provide_python_modules": case["allow"]})
    import introspect as I
    import jinja2
    env = I.find_instance(engine, jinja2.Environment)
    if env is None:
        return {"unobservable": "the engine holds no jinja2.Environment"}
    helper = env.globals.get("python")
    if helper is None:
        return {"helper": False, "decisions": []}
    check = I.find_method(helper, "check", "access")
    if check is None:
        return {"unobservable": "the python helper has no access-check method"}
    out = []
    for q in case["queries"]:
        try:
            check(q)
            out.append(True)
        except RuntimeError:
            out.append(False)
    return {"helper": True, "decisions": out}


def run_join(case):
    Engine = _engine_cls()
    cfg = {}
    if case.get("relative") is not None:
        cfg["relative_includes"] = case["relative"]
    engine = Engine(cfg)
    import introspect as I
    import jinja2
    env = I.find_instance(engine, jinja2.Environment)
    if env is None:
        return {"unobservable": "the engine holds no jinja2.Environment"}
    return {"joined": [env.join_path(t, p) for t, p in case["pairs"]]}


def run_case(case):
    k = case.get("kind")
    if k == "history":
        return run_history(case)
    if k == "access":
        return run_access(case)
    if k == "join":
        return run_join(case)
    raise ValueError("unknown case kind %r" % (k,))
