"""
Worker-side adapter of the YAML target source checks (C11, C12): builds the sandbox tree,
drives the REAL `YamlTargetSource` from $VINEGAR_REPO, and computes the *view* of the tree
that the Lean model works on — every file rendered (vinegar's Jinja engine, a fresh instance
per call, or plain reading when templating is off) and parsed (yaml.safe_load) with the real
libraries, the target expressions of the top file evaluated with the real matcher.
"""
import collections.abc
import copy
import os

import sim_fs
import yaml_common as Y


class Unsupported(Exception):
    """the rendered tree left the domain of the model (generator bug, not a finding)"""


# --------------------------------------------------------------------------- value tagging
def tag_value(v):
    if v is None:
        return ["n"]
    if isinstance(v, bool):
        return ["b", v]
    if isinstance(v, int):
        return ["i", v]
    if isinstance(v, float):
        return ["f", repr(v)]
    if isinstance(v, str):
        return ["s", v]
    if isinstance(v, (list, tuple)):
        return ["l", [tag_value(x) for x in v]]
    if isinstance(v, collections.abc.Mapping):
        return ["d", tag_items(v)]
    if isinstance(v, (set, frozenset)):
        if not all(isinstance(x, str) for x in v):
            raise Unsupported("set with non-string elements")
        return ["S", sorted(v)]
    return ["o", repr(v)]


def tag_items(m):
    out = []
    for k, v in m.items():
        if not isinstance(k, str):
            raise Unsupported("non-string mapping key %r" % (k,))
        out.append([k, tag_value(v)])
    return out


def mutate(v):
    """what a careless caller might do with returned data"""
    if isinstance(v, dict):
        for x in list(v.values()):
            mutate(x)
        v["__mutated__"] = 1
        for k in list(v)[:1]:
            if k != "__mutated__":
                v[k] = "clobbered"
    elif isinstance(v, list):
        for x in v:
            mutate(x)
        v.append("__mutated__")
    elif isinstance(v, set):
        v.add("__mutated__")


# --------------------------------------------------------------------------- tree on disk
def build_tree(sb, tree):
    for m, spec in tree["files"].items():
        sb.write(Y.fs_path(m), Y.render_spec(spec))
    for d in tree.get("dirs", []):
        sb.mkdir(Y.fs_path(d))
    if tree.get("top") is not None:
        sb.write("top.yaml", Y.render_spec(tree["top"]))


def list_tree(root):
    """module paths of every *.yaml below root: ([segments], is_dir) — except top.yaml"""
    out = []
    for dirpath, dirnames, filenames in os.walk(root):
        rel = os.path.relpath(dirpath, root)
        segs = [] if rel == "." else rel.split(os.sep)
        for fn in sorted(filenames):
            if fn.endswith(".yaml") and not (not segs and fn == "top.yaml"):
                out.append((segs + [fn[:-5]], False))
        for dn in sorted(dirnames):
            if dn.endswith(".yaml"):
                out.append((segs + [dn[:-5]], True))
        dirnames[:] = sorted(d for d in dirnames if not d.endswith(".yaml"))
    return sorted(out)


def make_source(root, cfg, cache_size):
    from vinegar.data_source.yaml_target import YamlTargetSource
    c = {"root_dir": root, "cache_size": cache_size, "merge_lists": cfg["merge_lists"],
         "merge_sets": cfg["merge_sets"], "allow_empty_top": cfg["allow_empty_top"], "template": cfg["template"]}
    return YamlTargetSource(c)


def classify_message(e):
    m = str(e)
    for key, kind in (("Recursion loop", "cycle"), ("must not be empty", "emptyName"), ("outside the root", "aboveRoot"),
                      ("only consist of dots", "onlyDots"), ("Error processing data file", "render/parse"),
                      ("Error processing top file", "topRender/topParse"), ("could not be found", "missing"),
                      ("Could not find top", "topMissing"), ("does not contain a dictionary", "nonMapping"),
                      ("Top file is empty", "topEmpty"), ("Cannot merge", "mergeType"), ("empty string", "topEmptyName"),
                      ("Malformed file list", "topListNotSeq"), ("matcher expression", "matchErr")):
        if key in m:
            return kind
    return "other"


def call(source, sid, pdata, pversion):
    """one get_data call -> (observation, returned data object or None)"""
    try:
        data, version = source.get_data(sid, copy.deepcopy(pdata), pversion)
    except RecursionError as e:
        return ["err", "RecursionError", "fuel"], None
    except Exception as e:  # the class is the observation
        return ["err", type(e).__name__, classify_message(e)], None
    if not isinstance(data, collections.abc.Mapping) or not isinstance(version, str):
        return ["err", "BAD-RETURN-TYPE", repr(type(data))], None
    return ["ok", tag_items(data), version], data


# --------------------------------------------------------------------------- the view
class Renderer:
    """renders like `_DataCompiler._render` with a template engine of its own"""

    def __init__(self, template, sid, pdata):
        from vinegar.utils.smart_dict import SmartLookupDict
        self.ctx = {"id": sid, "data": SmartLookupDict(copy.deepcopy(pdata))}
        self.engine = None
        if template is not None:
            import vinegar.template
            self.engine = vinegar.template.get_template_engine(template, {})

    def render(self, path):
        """rendered text, or None when rendering raises"""
        try:
            if self.engine is None:
                with open(path, "r", encoding="utf-8") as f:
                    return f.read()
            return self.engine.render(path, copy.deepcopy(self.ctx))
        except RecursionError:
            raise
        except Exception:
            return None


def parse_data_text(text):
    import yaml
    try:
        d = yaml.safe_load(text)
    except Exception:
        return ["error"]
    if not isinstance(d, collections.abc.Mapping):
        return ["nonMapping"]
    return ["mapping", tag_items(d)]


TOP_MATCHES = []     # (expression, verdict of the real matcher) of the latest top files parsed (read by run_c11)


def parse_top_text(text, sid, pdata):
    import yaml
    import vinegar.utils.system_matcher as sm
    from vinegar.utils.smart_dict import SmartLookupDict
    try:
        d = yaml.safe_load(text)
    except Exception:
        return ["error"]
    if d is None:
        return ["null"]
    if not isinstance(d, collections.abc.Mapping):
        return ["nonMapping"]
    entries = []
    for expr, fl in d.items():
        if not isinstance(expr, str):
            m = ["error", "TypeError"]
        else:
            try:
                m = "yes" if sm.match(expr, system_id=sid, system_data=SmartLookupDict(copy.deepcopy(pdata))) else "no"
            except Exception as e:
                m = ["error", type(e).__name__]
            if len(TOP_MATCHES) < 64:
                TOP_MATCHES.append([expr, m])
        if isinstance(fl, str):
            l = ["str"]
        elif isinstance(fl, (list, tuple)):
            l = ["names", list(fl)] if all(isinstance(x, str) for x in fl) else ["unsupported"]
        elif isinstance(fl, collections.abc.Sequence):
            l = ["unsupported"]
        else:
            l = ["notSeq"]
        entries.append([m, l])
    return ["entries", entries]


def compute_view(root, cfg, sid, pdata):
    """C11 view: top and every file rendered and parsed for this call"""
    r = Renderer(cfg["template"], sid, pdata)
    top_path = os.path.join(root, "top.yaml")
    if not os.path.lexists(top_path):
        top = ["missing"]
    else:
        t = r.render(top_path)
        top = ["renderError"] if t is None else parse_top_text(t, sid, pdata)
    files = []
    for segs, is_dir in list_tree(root):
        if is_dir:
            files.append([segs, ["dir"]])
            continue
        t = r.render(os.path.join(root, *segs) + ".yaml")
        files.append([segs, ["renderError"] if t is None else parse_data_text(t)])
    return {"top": top, "files": files}


# --------------------------------------------------------------------------- C11
def run_c11(case):
    cfg = case["cfg"]
    with sim_fs.Sandbox("verif-c11-") as sb:
        build_tree(sb, case)
        src = make_source(sb.root, cfg, 64)
        impl, _ = call(src, case["id"], case["pdata"], "pv0")
        del TOP_MATCHES[:]
        try:
            view = compute_view(sb.root, cfg, case["id"], case["pdata"])
        except Unsupported as e:
            return {"unsupported": str(e), "impl": impl}
    return {"impl": impl, "view": view, "top_matches": [list(x) for x in TOP_MATCHES]}


# --------------------------------------------------------------------------- C12
class Interner:
    def __init__(self, prefix):
        self.prefix = prefix
        self.ids = {}

    def get(self, text):
        if text not in self.ids:
            self.ids[text] = "%s%d" % (self.prefix, len(self.ids))
        return self.ids[text]


def apply_step(sb, step):
    op = step[0]
    if op == "write":
        sb.write(Y.fs_path(step[1]), Y.render_spec(step[2]), keep_mtime=(len(step) > 3 and step[3] == "keep_mtime"))
    elif op == "delete":
        sb.remove(Y.fs_path(step[1]))
    elif op == "mkdir":
        sb.mkdir(Y.fs_path(step[1]))
    elif op == "swap":
        a, b = Y.fs_path(step[1]), step[1] + "/init.yaml"
        if sb.exists(a) and not sb.exists(b):
            sb.move(a, b)
        elif sb.exists(b) and not sb.exists(a):
            sb.move(b, a)
    elif op == "top":
        if step[1] is None:
            sb.remove("top.yaml")
        else:
            sb.write("top.yaml", Y.render_spec(step[1]))
    else:
        raise ValueError(op)


def run_lru(case):
    """the cache object exactly as YamlTargetSource.__init__ builds it, driven directly"""
    import vinegar.utils.cache as vc
    size = case["size"]
    cache = vc.NullCache() if size <= 0 else vc.SynchronizedCache(vc.LRUCache(cache_size=size))
    gets = []
    for op in case["ops"]:
        if op[0] == "get":
            gets.append(cache.get(op[1], None))
        else:
            cache[op[1]] = op[2]
    keys = sorted(k for k in case["alphabet"] if k in cache)
    return {"lru": {"gets": gets, "keys": keys, "len": len(cache)}}


def run_c12(case):
    if case.get("kind") == "lru":
        return run_lru(case)
    cfg = case["cfg"]
    srcs, texts = Interner("S"), Interner("T")
    text_table, top_table, render_table = {}, {}, {}
    pd_canon = []          # distinct preceding data values -> version "pv<k>"

    def pdv_of(pd):
        for k, x in enumerate(pd_canon):
            if x == pd:
                return "pv%d" % k
        pd_canon.append(copy.deepcopy(pd))
        return "pv%d" % (len(pd_canon) - 1)

    def put(table, key, value, what):
        if key in table and table[key] != value:
            raise RuntimeError("oracle is not a function of its inputs: %s %r" % (what, key))
        table[key] = value

    def snode(spec):
        return ["file", srcs.get(Y.render_spec(spec))]

    init_model = {"top": None if case["init"]["top"] is None else snode(case["init"]["top"]),
                  "files": [[m.split("/"), snode(s)] for m, s in case["init"]["files"].items()] +
                           [[d.split("/"), ["dir"]] for d in case["init"].get("dirs", [])]}
    steps_model, calls = [], []
    with sim_fs.Sandbox("verif-c12-") as sb:
        build_tree(sb, case["init"])
        long_lived = make_source(sb.root, cfg, cfg["cache_size"])
        for step in case["steps"]:
            if step[0] != "get":
                apply_step(sb, step)
                if step[0] == "write":
                    steps_model.append(["write", step[1].split("/"), srcs.get(Y.render_spec(step[2]))])
                elif step[0] == "top":
                    steps_model.append(["setTop", None if step[1] is None else snode(step[1])])
                else:
                    steps_model.append([step[0], step[1].split("/")])
                continue
            sid, pd = step[1], case["pdatas"][step[2]]
            pdv = pdv_of(pd)
            steps_model.append(["get", sid, pdv])
            o_long, data = call(long_lived, sid, pd, pdv)
            if data is not None:
                mutate(data)                       # isolation: the caller scribbles over the result
            o_fresh, _ = call(make_source(sb.root, cfg, 0), sid, pd, pdv)
            calls.append({"long": o_long, "fresh": o_fresh})
            # the view of this call, interned into the tables of the model's world
            try:
                r = Renderer(cfg["template"], sid, pd)
                top_path = os.path.join(sb.root, "top.yaml")
                nodes = [(top_path, True)] if os.path.lexists(top_path) else []
                nodes += [(os.path.join(sb.root, *segs) + ".yaml", False) for segs, is_dir in list_tree(sb.root)
                          if not is_dir]
                for path, is_top in nodes:
                    if os.path.isdir(path):
                        continue
                    with open(path, "r", encoding="utf-8") as f:
                        s = srcs.get(f.read())
                    t = r.render(path)
                    if t is None:
                        put(render_table, (s, sid, pdv), None, "render")
                        continue
                    tid = texts.get(t)
                    put(render_table, (s, sid, pdv), tid, "render")
                    if is_top:
                        put(top_table, (tid, sid, pdv), parse_top_text(t, sid, pd), "top")
                    else:
                        put(text_table, tid, parse_data_text(t), "parse")
            except Unsupported as e:
                return {"unsupported": str(e), "calls": calls}
    return {"calls": calls, "init": init_model, "steps": steps_model,
            "texts": [[k, v] for k, v in text_table.items()],
            "tops": [[k[0], k[1], k[2], v] for k, v in top_table.items()],
            "render": [[k[0], k[1], k[2], v] for k, v in render_table.items()]}
