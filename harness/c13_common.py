"""
C13 helpers: tagged-JSON value encoding, generators (exhaustive small scopes + random),
the adapter that calls the REAL merge_data_trees / composite source, shrinking.

Value encoding (also the driver's wire format):
  {"t":"none"} {"t":"bool","v":true} {"t":"int","v":5} {"t":"str","v":"x"} {"t":"bytes","v":"<hex>"}
  {"t":"float","v":"<repr>"} {"t":"list"|"tuple"|"set","v":[…]} {"t":"dict","v":[[key,value],…]}
Dict entries keep insertion order (key order is part of the property); sets are sorted by their JSON text.
"""
import collections
import collections.abc
import itertools
import json
import types

# ----------------------------------------------------------------------------- encoding


def _k(j):
    return json.dumps(j, sort_keys=True, separators=(",", ":"))


def enc(o):
    """Python value -> canonical tagged JSON"""
    if o is None:
        return {"t": "none"}
    if isinstance(o, bool):
        return {"t": "bool", "v": o}
    if isinstance(o, int):
        return {"t": "int", "v": o}
    if isinstance(o, float):
        return {"t": "float", "v": repr(o)}
    if isinstance(o, str):
        return {"t": "str", "v": o}
    if isinstance(o, bytes):
        return {"t": "bytes", "v": o.hex()}
    if isinstance(o, collections.abc.Mapping):
        return {"t": "dict", "v": [[enc(k), enc(v)] for k, v in o.items()]}
    if isinstance(o, list):
        return {"t": "list", "v": [enc(x) for x in o]}
    if isinstance(o, tuple):
        return {"t": "tuple", "v": [enc(x) for x in o]}
    if isinstance(o, collections.abc.Set):
        return {"t": "set", "v": sorted((enc(x) for x in o), key=_k)}
    return {"t": "other", "v": type(o).__name__}


def dec(j, mapping="dict", hashable=False):
    """tagged JSON -> Python value; `mapping` selects the Mapping class used for every dict"""
    t = j["t"]
    if t == "none":
        return None
    if t in ("bool", "int", "str"):
        return j["v"]
    if t == "float":
        return float(j["v"])
    if t == "bytes":
        return bytes.fromhex(j["v"])
    if t == "list":
        return [dec(x, mapping) for x in j["v"]]
    if t == "tuple":
        return tuple(dec(x, mapping, hashable) for x in j["v"])
    if t == "set":
        return set(dec(x, mapping, True) for x in j["v"])
    if t == "dict":
        d = {}
        for k, v in j["v"]:
            d[dec(k, mapping, True)] = dec(v, mapping)
        if mapping == "ordered":
            return collections.OrderedDict(d)
        if mapping == "proxy":
            return types.MappingProxyType(d)
        return d
    raise ValueError("bad tag " + str(t))


def canon(j):
    """canonical form of a tagged value that came from the driver: sets sorted"""
    if not isinstance(j, dict) or "t" not in j:
        return j
    t = j["t"]
    if t in ("list", "tuple"):
        return {"t": t, "v": [canon(x) for x in j["v"]]}
    if t == "set":
        return {"t": t, "v": sorted((canon(x) for x in j["v"]), key=_k)}
    if t == "dict":
        return {"t": t, "v": [[canon(k), canon(v)] for k, v in j["v"]]}
    return j


def canon_outcome(o):
    if o is None:
        return None
    if "ok" in o:
        v = o["ok"]
        if isinstance(v, list):      # (data, version)
            return {"ok": [canon(v[0]), v[1]]}
        return {"ok": canon(v)}
    return {"exc": o["exc"]}


def size(j):
    t = j.get("t")
    if t in ("list", "tuple", "set"):
        return 1 + sum(size(x) for x in j["v"])
    if t == "dict":
        return 1 + sum(1 + size(v) for _, v in j["v"])
    return 1


# ----------------------------------------------------------------------------- value pools

def J(o):
    return enc(o)


FLOATS = [0.5, -1.5, 2.25, 0.001]          # finite, non-integral (see ASSUMPTIONS)
SCALARS = [None, True, False, 0, 1, 2, -3, "a", "b", "", "ü", b"a", b"", 0.5, 2.25]
KEYS = ["a", "b", "c", "k", 1, 2, 0, True, False, None, b"k", 0.5, "ü", ""]
EXC_CLASSES = ["KeyError", "ValueError", "RuntimeError", "TypeError", "OSError"]


def small_values():
    """the value alphabet of the exhaustive single-key scope: every kind, empty and non-empty,
    elements that bridge bool/int, nested containers"""
    return [
        None, True, 1, 0, "s", b"s", 0.5,
        [], [1], [1, 2], [True, "x"], [[1]], [{"p": 1}],
        (), (1,), (2, 1),
        set(), {1}, {2, "x"}, {True},
        {}, {"p": 1}, {"q": [1]}, {"p": {"r": 2}},
    ]


def reduced_values():
    return [1, "s", [1], [2, 1], (2,), {1}, {3}, {"k": 1}, {"k": [1], "m": 2}, {}]


def exhaustive_merge_cases(tier):
    flags = [(False, False), (False, True), (True, False), (True, True)]
    # E1: one common key, every pair of small values, all four flag settings
    vals = small_values()
    for ml, ms in flags:
        for v in vals:
            for w in vals:
                yield {"kind": "merge", "ml": ml, "ms": ms, "a": J({"x": v}), "b": J({"x": w}),
                       "mapping": "dict", "_meta": {"scope": "E1"}}
    # E2: key order — every ordered choice of <= 2 keys from (x, True, 1) on both sides; values scalar or mapping
    keys = ["x", True, 1]
    dicts = []
    for n in range(0, 3):
        for ks in itertools.permutations(keys, n):
            if sum(1 for k in ks if k == 1) > 1:
                continue            # one Python dict cannot hold both
            for vs in itertools.product([7, {"z": 2}], repeat=n):
                dicts.append(dict(zip(ks, vs)))
    for a in dicts:
        for b in dicts:
            yield {"kind": "merge", "ml": False, "ms": True, "a": J(a), "b": J(b), "mapping": "dict",
                   "_meta": {"scope": "E2"}}
    # E3: the same decision one level down
    red = reduced_values()
    for ml, ms in flags:
        for v in red:
            for w in red:
                yield {"kind": "merge", "ml": ml, "ms": ms, "a": J({"o": {"x": v, "y": 1}}),
                       "b": J({"n": 0, "o": {"z": 2, "x": w}}), "mapping": "dict", "_meta": {"scope": "E3"}}
    if tier != "quick":
        # E4: two common keys in opposite order, all value pairs of the reduced alphabet on both keys
        for ml, ms in flags:
            for v, w, v2, w2 in itertools.product(red, repeat=4):
                yield {"kind": "merge", "ml": ml, "ms": ms, "a": J({"x": v, "y": v2}), "b": J({"y": w2, "x": w}),
                       "mapping": "dict", "_meta": {"scope": "E4"}}


def exhaustive_triple_cases(tier):
    flags = [(False, False), (False, True), (True, False), (True, True)]
    vals = [1, [1], [2, 1], {1}, {"k": 1}] if tier == "quick" else [1, "s", [1], [2, 1], (1, 3), {1}, {2}, {"k": 1}, {"m": [1]}]
    # W: the witnesses of the Lean associativity theorems, replayed on the real code.
    #  errsite — both bracketings raise TypeError, at different raise sites (merge_assoc_error_site_differs): the
    #            messages differ ("…for key y." mapping vs "…for key x." sequence); recorded in the case label only,
    #            the property does not constrain the message;
    #  bridge  — True == 1 in keys and list elements, tuples merged into a list: both give {True: [True, 2, 3]}.
    yield {"kind": "merge3", "ml": True, "ms": False, "a": J({"y": {}, "x": 1}), "b": J({"x": 1}),
           "c": J({"x": [], "y": 1}), "_meta": {"scope": "W-errsite"}}
    yield {"kind": "merge3", "ml": True, "ms": True, "a": J({True: [True]}), "b": J({1: [1, 2]}),
           "c": J({True: (2, True, 3)}), "_meta": {"scope": "W-bridge"}}
    for ml, ms in flags:
        for u, v, w in itertools.product(vals, repeat=3):
            yield {"kind": "merge3", "ml": ml, "ms": ms, "a": J({"x": u, "p": 1}), "b": J({"q": 2, "x": v}),
                   "c": J({"x": w, "r": 3, "p": 4}), "_meta": {"scope": "T1"}}


# ----------------------------------------------------------------------------- random values

def rand_scalar(rng):
    return rng.choice(SCALARS)


def rand_hashable(rng, depth=1):
    if depth > 0 and rng.random() < 0.2:
        return tuple(rand_hashable(rng, depth - 1) for _ in range(rng.randint(0, 2)))
    return rand_scalar(rng)


def rand_val(rng, depth, kind=None):
    kind = kind or rng.choice(["scalar", "scalar", "list", "tuple", "set", "dict", "dict"])
    if depth <= 0 and kind in ("dict",):
        kind = rng.choice(["scalar", "list", "set"])
    if kind == "scalar":
        return rand_scalar(rng)
    if kind == "list":
        return [rand_val(rng, depth - 1) if rng.random() < 0.4 else rand_scalar(rng) for _ in range(rng.randint(0, 4))]
    if kind == "tuple":
        return tuple(rand_val(rng, depth - 1) if rng.random() < 0.3 else rand_scalar(rng) for _ in range(rng.randint(0, 3)))
    if kind == "set":
        return set(rand_hashable(rng) for _ in range(rng.randint(0, 4)))
    return rand_dict(rng, depth - 1)


def rand_dict(rng, depth, maxkeys=4):
    d = {}
    for _ in range(rng.randint(0, maxkeys)):
        d[rng.choice(KEYS)] = rand_val(rng, depth)
    return d


def kind_of(v):
    if isinstance(v, collections.abc.Mapping):
        return "dict"
    if isinstance(v, collections.abc.Set):
        return "set"
    if isinstance(v, (list, tuple)):
        return "seq"
    return "scalar"


def related_dict(rng, a, depth):
    """a second tree that shares keys with `a`: same-kind values (merge paths), other-kind values
    (conflict / override paths), dropped and new keys, shuffled order"""
    items = []
    for k, v in a.items():
        r = rng.random()
        if r < 0.2:
            continue
        if r < 0.65:                      # same kind
            kd = kind_of(v)
            if kd == "dict":
                nv = related_dict(rng, v, depth - 1)
            elif kd == "seq":
                base = list(v)
                extra = [rand_val(rng, max(depth - 1, 0)) if rng.random() < 0.3 else rand_scalar(rng)
                         for _ in range(rng.randint(0, 3))]
                pick = [x for x in base if rng.random() < 0.5] + extra
                rng.shuffle(pick)
                nv = pick if rng.random() < 0.7 else tuple(pick)
            elif kd == "set":
                nv = set(x for x in v if rng.random() < 0.5) | set(rand_hashable(rng) for _ in range(rng.randint(0, 2)))
            else:
                nv = rand_scalar(rng)
        elif r < 0.75:
            nv = v
        else:                             # any kind: override or conflict, depending on the flags
            nv = rand_val(rng, max(depth - 1, 0))
        items.append((k, nv))
    for _ in range(rng.randint(0, 2)):
        items.append((rng.choice(KEYS), rand_val(rng, max(depth - 1, 0))))
    if rng.random() < 0.6:
        rng.shuffle(items)
    d = {}
    for k, v in items:
        d[k] = v
    return d


def rand_flags(rng):
    return rng.random() < 0.5, rng.random() < 0.5


def rand_merge_case(rng, big=False):
    depth = rng.choice([1, 2, 2, 3]) + (1 if big else 0)
    a = rand_dict(rng, depth, 6 if big else 4)
    r = rng.random()
    if r < 0.08:
        b = {}
    elif r < 0.16:
        a, b = {}, a
    elif r < 0.25:
        b = rand_dict(rng, depth)
    else:
        b = related_dict(rng, a, depth)
    ml, ms = rand_flags(rng)
    c = {"kind": "merge", "ml": ml, "ms": ms, "a": J(a), "b": J(b),
         "mapping": rng.choice(["dict", "dict", "ordered", "proxy"]), "_meta": {"scope": "random"}}
    if not ml and ms and rng.random() < 0.3:
        c["use_defaults"] = True          # call without the flag arguments: documented defaults
    return c


def rand_triple_case(rng):
    depth = rng.choice([1, 2, 2])
    a = rand_dict(rng, depth)
    b = related_dict(rng, a, depth)
    c = related_dict(rng, b if rng.random() < 0.5 else a, depth)
    r = rng.random()
    # error-free triples are the interesting ones for associativity: mostly switch the flags off
    ml, ms = (False, False) if r < 0.3 else rand_flags(rng)
    return {"kind": "merge3", "ml": ml, "ms": ms, "a": J(a), "b": J(b), "c": J(c), "_meta": {"scope": "random"}}


VCHARS = "abc019-_.ü"


def rand_version(rng, allow_sep=True):
    n = rng.randint(0, 6)
    s = "".join(rng.choice(VCHARS) for _ in range(n))
    if allow_sep and rng.random() < 0.1:
        p = rng.randint(0, len(s))
        s = s[:p] + "|" + s[p:]
    return s


def rand_get_spec(rng, base):
    r = rng.random()
    if r < 0.62:
        d = related_dict(rng, base, 2) if rng.random() < 0.7 else rand_dict(rng, 2)
        if rng.random() < 0.1:
            d = {}
        return {"kind": "const", "data": J(d), "version": rand_version(rng)}
    if r < 0.72:
        return {"kind": "raise", "cls": rng.choice(EXC_CLASSES)}
    if r < 0.88:
        return {"kind": "echo", "key": J(rng.choice(["seen", "a", 1, None])), "prefix": rand_version(rng, False)}
    return {"kind": "sysid"}


def rand_find_spec(rng, key, value):
    r = rng.random()
    if r < 0.5:
        return {"kind": "const", "result": None}
    if r < 0.75:
        return {"kind": "const", "result": rng.choice(["sys1", "sys2", "", "0", "None"])}
    if r < 0.85:
        return {"kind": "raise", "cls": rng.choice(EXC_CLASSES)}
    if rng.random() < 0.5:
        return {"kind": "eq", "key": key, "value": value, "result": "hit"}
    return {"kind": "eq", "key": rng.choice(["mac", "ip", key + "x"]), "value": J(rand_scalar(rng)), "result": "miss"}


def rand_sources(rng, n, base, key, value):
    return [{"get": rand_get_spec(rng, base), "find": rand_find_spec(rng, key, value)} for _ in range(n)]


def rand_chain_case(rng, n=None):
    n = rng.randint(0, 4) if n is None else n
    d0 = rand_dict(rng, 2) if rng.random() < 0.6 else {}
    key, value = rng.choice(["mac", "ip", "net:mac"]), J(rand_scalar(rng))
    ml, ms = rand_flags(rng)
    srcs = rand_sources(rng, n, d0 or {"a": 1, "k": [1]}, key, value)
    if rng.random() < 0.6:                 # mostly error-free chains so that the whole fold is exercised
        for s in srcs:
            if s["get"]["kind"] == "raise":
                s["get"] = {"kind": "const", "data": J({}), "version": rand_version(rng)}
        if rng.random() < 0.7:
            ml, ms = False, False
    c = {"kind": "chain", "ml": ml, "ms": ms, "sid": rng.choice(["sys1", "host-ü", ""]), "d0": J(d0),
         "v0": rand_version(rng), "sources": srcs, "_meta": {"scope": "random"}}
    consts = [i for i, s in enumerate(srcs) if s["get"]["kind"] == "const"]
    if consts and rng.random() < 0.7:
        i = rng.choice(consts)
        old = srcs[i]["get"]["version"]
        r = rng.random()
        if r < 0.4 and old:
            new = old[:-1]
        elif r < 0.7:
            new = old + rng.choice(VCHARS)
        else:
            new = rand_version(rng, False)
        c["alt"] = {"index": i, "version": new}
    return c


def rand_find_case(rng, n=None):
    n = rng.randint(0, 4) if n is None else n
    key, value = rng.choice(["mac", "ip", "net:mac"]), J(rand_scalar(rng) if rng.random() < 0.8 else rand_val(rng, 1))
    return {"kind": "find", "key": key, "value": value, "sources": rand_sources(rng, n, {"a": 1}, key, value),
            "_meta": {"scope": "random"}}


def exhaustive_find_cases():
    """every chain of <= 4 sources over the answer alphabet {None, 's', '', raise}"""
    alpha = [{"kind": "const", "result": None}, {"kind": "const", "result": "s"},
             {"kind": "const", "result": ""}, {"kind": "raise", "cls": "KeyError"}]
    get = {"kind": "const", "data": J({}), "version": "v"}
    for n in range(0, 5):
        for combo in itertools.product(range(4), repeat=n):
            # label the answers so that "first" and "last" non-None differ
            srcs = []
            for i, c in enumerate(combo):
                f = dict(alpha[c])
                if f.get("result") == "s":
                    f["result"] = "s%d" % i
                srcs.append({"get": get, "find": f})
            yield {"kind": "find", "key": "mac", "value": J("02:00"), "sources": srcs, "_meta": {"scope": "F1"}}


def rand_agg_case(rng):
    n = rng.randint(0, 4)
    vs = [rand_version(rng) for _ in range(n)]
    c = {"kind": "agg", "versions": vs, "_meta": {"scope": "random"}}
    if n and rng.random() < 0.8:
        vs2 = list(vs)
        i = rng.randrange(n)
        r = rng.random()
        if r < 0.3 and i + 1 < n:           # move a character across the separator
            vs2[i], vs2[i + 1] = vs2[i] + vs2[i + 1][:1], vs2[i + 1][1:]
        elif r < 0.6:
            vs2[i] = vs2[i] + rng.choice(VCHARS)
        else:
            vs2[i] = rand_version(rng)
        c["versions2"] = vs2
    return c


# ----------------------------------------------------------------------------- adapter (real code)

_STATE = {}


def _vinegar():
    if "ds" not in _STATE:
        import vinegar.data_source as ds
        import vinegar.utils.version as ver

        class RecordingSource(ds.DataSource):
            """test double: behaves as scripted by `spec`, records every call with deep snapshots"""

            def __init__(self, spec, get_log, find_log, kept):
                self.spec, self.get_log, self.find_log, self.kept = spec, get_log, find_log, kept
                g = spec["get"]
                self.const_data = dec(g["data"]) if g["kind"] == "const" else None

            def get_data(self, system_id, preceding_data, preceding_data_version):
                g = self.spec["get"]
                entry = {"sid": system_id, "pd": enc(preceding_data), "pv": preceding_data_version}
                self.kept.append((preceding_data, entry["pd"]))
                self.get_log.append(entry)
                if g["kind"] == "raise":
                    entry["out"] = {"exc": g["cls"]}
                    raise _exc_class(g["cls"])("scripted")
                if g["kind"] == "const":
                    data, version = self.const_data, self.spec.get("_version_override", g["version"])
                elif g["kind"] == "echo":
                    data, version = {dec(g["key"]): preceding_data}, g["prefix"] + preceding_data_version
                else:
                    data, version = {"id": system_id}, "s:" + system_id
                entry["out"] = {"ok": [enc(data), version]}
                self.kept.append((data, enc(data)))
                return data, version

            def find_system(self, lookup_key, lookup_value):
                f = self.spec["find"]
                entry = {"key": lookup_key, "value": enc(lookup_value)}
                self.find_log.append(entry)
                if f["kind"] == "raise":
                    entry["out"] = {"exc": f["cls"]}
                    raise _exc_class(f["cls"])("scripted")
                if f["kind"] == "const":
                    res = f["result"]
                else:
                    res = f["result"] if (lookup_key == f["key"] and enc(lookup_value) == f["value"]) else None
                entry["out"] = {"ok": res}
                return res

        _STATE["ds"], _STATE["ver"], _STATE["rec"] = ds, ver, RecordingSource
    return _STATE["ds"], _STATE["ver"], _STATE["rec"]


def _exc_class(name):
    import builtins
    return getattr(builtins, name)


def _call(f):
    try:
        return {"ok": f()}, None
    except Exception as e:                       # noqa: BLE001 — the class name is the observation
        return {"exc": type(e).__name__}, e


def _merge_once(ds, a, b, ml, ms, use_defaults=False):
    """one real call with deep snapshots of both arguments before and after"""
    sa, sb = enc(a), enc(b)
    if use_defaults:
        out, exc = _call(lambda: ds.merge_data_trees(a, b))
    else:
        out, exc = _call(lambda: ds.merge_data_trees(a, b, ml, ms))
    _STATE["last_msg"] = None if exc is None else str(exc)
    res = out.get("ok")
    mutated = []
    if enc(a) != sa:
        mutated.append("tree1")
    if enc(b) != sb:
        mutated.append("tree2")
    if "ok" in out:
        if not isinstance(res, collections.abc.Mapping):
            out = {"exc": "NotAMapping:" + type(res).__name__}
        else:
            out = {"ok": enc(res)}
    return out, res, mutated


def run_merge(case):
    ds, _, _ = _vinegar()
    a = dec(case["a"], case.get("mapping", "dict"))
    b = dec(case["b"], case.get("mapping", "dict"))
    out, _, mutated = _merge_once(ds, a, b, case["ml"], case["ms"], case.get("use_defaults", False))
    return {"out": out, "mutated": mutated}


def run_merge3(case):
    ds, _, _ = _vinegar()
    ml, ms = case["ml"], case["ms"]
    a, b, c = dec(case["a"]), dec(case["b"]), dec(case["c"])
    obs = {"mutated": [], "msg": {}}       # msg: exception text per bracketing (an observation, never judged)
    ab_out, ab, m = _merge_once(ds, a, b, ml, ms)
    obs["mutated"] += ["ab:" + x for x in m]
    obs["ab"] = ab_out
    obs["msg"]["left"] = _STATE["last_msg"]
    obs["left"] = None
    if "ok" in ab_out:
        obs["left"], _, m = _merge_once(ds, ab, c, ml, ms)
        obs["mutated"] += ["left:" + x for x in m]
        obs["msg"]["left"] = _STATE["last_msg"]
    bc_out, bc, m = _merge_once(ds, b, c, ml, ms)
    obs["mutated"] += ["bc:" + x for x in m]
    obs["bc"] = bc_out
    obs["msg"]["right"] = _STATE["last_msg"]
    obs["right"] = None
    if "ok" in bc_out:
        obs["right"], _, m = _merge_once(ds, a, bc, ml, ms)
        obs["mutated"] += ["right:" + x for x in m]
        obs["msg"]["right"] = _STATE["last_msg"]
    return obs


def _run_chain_once(case, override=None):
    ds, ver, Rec = _vinegar()
    get_log, find_log, kept = [], [], []
    specs = []
    for i, s in enumerate(case["sources"]):
        s = dict(s)
        if override is not None and override["index"] == i:
            s["_version_override"] = override["version"]
        specs.append(s)
    srcs = [Rec(s, get_log, find_log, kept) for s in specs]
    comp = ds.get_composite_data_source(srcs, merge_lists=case["ml"], merge_sets=case["ms"])
    d0 = dec(case["d0"])
    s0 = enc(d0)
    out, _ = _call(lambda: comp.get_data(case["sid"], d0, case["v0"]))
    if "ok" in out:
        r = out["ok"]
        if (isinstance(r, tuple) and len(r) == 2 and isinstance(r[0], collections.abc.Mapping)
                and isinstance(r[1], str)):
            out = {"ok": [enc(r[0]), r[1]]}
        else:
            out = {"exc": "BadReturn:" + type(r).__name__}
    mutated = []
    if enc(d0) != s0:
        mutated.append("initial preceding_data")
    for obj, snap in kept:
        if enc(obj) != snap:
            mutated.append("a tree handed to / returned by a source")
            break
    # tabulate H = version_for_str at the points the observation itself determines
    table = {}
    for e in get_log:
        if "ok" in e.get("out", {}):
            s = e["pv"] + "|" + e["out"]["ok"][1]
            table[s] = ver.version_for_str(s)
    return {"result": out, "log": get_log, "htable": sorted(table.items()), "mutated": mutated}


def run_chain(case):
    obs = _run_chain_once(case)
    if case.get("alt") is not None:
        alt = _run_chain_once(case, case["alt"])
        obs["alt_result"] = alt["result"]
        obs["alt_versions"] = [e["out"]["ok"][1] for e in alt["log"] if "ok" in e.get("out", {})]
    return obs


def run_find(case):
    ds, _, Rec = _vinegar()
    get_log, find_log, kept = [], [], []
    srcs = [Rec(s, get_log, find_log, kept) for s in case["sources"]]
    comp = ds.get_composite_data_source(srcs)
    value = dec(case["value"])
    out, _ = _call(lambda: comp.find_system(case["key"], value))
    if "ok" in out and not (out["ok"] is None or isinstance(out["ok"], str)):
        out = {"exc": "BadReturn:" + type(out["ok"]).__name__}
    return {"result": out, "log": find_log}


def run_agg(case):
    _, ver, _ = _vinegar()
    obs = {}
    for name in ("versions", "versions2"):
        if name in case:
            vs = case[name]
            out, _ = _call(lambda: ver.aggregate_version(list(vs)))
            joined = "|".join(vs)
            obs[name] = {"out": out, "htable": [[joined, ver.version_for_str(joined)]]}
    return obs


def _run_nested_once(case, opaque):
    """[before..., composite(inner sources, inner flags), after...] with the outer flags; `opaque`: the inner composite is
    wrapped in a plain data source (a composite IS a data source: the two must be indistinguishable)"""
    ds, ver, Rec = _vinegar()
    get_log, find_log, kept = [], [], []
    mk = lambda specs: [Rec(dict(s_), get_log, find_log, kept) for s_ in specs]
    inner = ds.get_composite_data_source(mk(case["inner"]), merge_lists=case["iml"], merge_sets=case["ims"])
    if opaque:
        class Wrapper(ds.DataSource):
            def __init__(self, src):
                self._src = src

            def get_data(self, system_id, preceding_data, preceding_data_version):
                return self._src.get_data(system_id, preceding_data, preceding_data_version)

            def find_system(self, lookup_key, lookup_value):
                return self._src.find_system(lookup_key, lookup_value)
        inner = Wrapper(inner)
    comp = ds.get_composite_data_source(mk(case["before"]) + [inner] + mk(case["after"]),
                                        merge_lists=case["ml"], merge_sets=case["ms"])
    d0 = dec(case["d0"])
    out, _ = _call(lambda: comp.get_data(case["sid"], d0, case["v0"]))
    if "ok" in out:
        r = out["ok"]
        out = {"ok": [enc(r[0]), None]} if isinstance(r, tuple) and len(r) == 2 else {"exc": "BadReturn"}
    # versions are opaque hashes of the same inputs in both runs; data handed to every source must coincide
    return {"result": out, "log": [{"sid": e["sid"], "pd": e["pd"], "out": ({"exc": e["out"]["exc"]} if "exc" in e.get("out", {})
                                                                     else {"ok": e.get("out", {}).get("ok", [None])[0]})}
                                   for e in get_log]}


def run_nested(case):
    return {"direct": _run_nested_once(case, False), "opaque": _run_nested_once(case, True)}


def rand_nested_case(rng):
    key, value = rng.choice(["mac", "ip"]), J(rand_scalar(rng))
    d0 = rand_dict(rng, 2) if rng.random() < 0.5 else {}
    base = d0 or {"a": 1, "k": [1], "s": {"x"}}
    def consts(n):
        out = rand_sources(rng, n, base, key, value)
        for s_ in out:
            if s_["get"]["kind"] == "raise" and rng.random() < 0.8:
                s_["get"] = {"kind": "const", "data": J(rand_dict(rng, 2)), "version": rand_version(rng)}
        return out
    ml, ms = rand_flags(rng)
    iml, ims = rand_flags(rng)
    if rng.random() < 0.7 and (ml, ms) == (iml, ims):
        iml, ims = not ml, not ms           # differing flags are the interesting case
    return {"kind": "nested", "ml": ml, "ms": ms, "iml": iml, "ims": ims, "sid": "sys1", "d0": J(d0), "v0": rand_version(rng),
            "before": consts(rng.randint(0, 2)), "inner": consts(rng.randint(1, 3)), "after": consts(rng.randint(0, 2)),
            "_meta": {"scope": "nested"}}


NESTED_FIXED = [
    {"kind": "nested", "ml": False, "ms": True, "iml": True, "ims": True, "sid": "sys1", "d0": J({}), "v0": "",
     "before": [], "after": [{"get": {"kind": "echo", "key": J("seen"), "prefix": "e:"}, "find": {"kind": "none"}}],
     "inner": [{"get": {"kind": "const", "data": J({"l": [0, 1]}), "version": "a"}, "find": {"kind": "none"}},
               {"get": {"kind": "const", "data": J({"l": [2]}), "version": "b"}, "find": {"kind": "none"}}],
     "_meta": {"scope": "nested-fixed"}},
    {"kind": "nested", "ml": False, "ms": True, "iml": False, "ims": False, "sid": "sys1", "d0": J({}), "v0": "",
     "before": [], "after": [],
     "inner": [{"get": {"kind": "const", "data": J({"s": {0, 1}}), "version": "a"}, "find": {"kind": "none"}},
               {"get": {"kind": "const", "data": J({"s": {2}}), "version": "b"}, "find": {"kind": "none"}}],
     "_meta": {"scope": "nested-fixed"}},
]


def run_case(case):
    return {"merge": run_merge, "merge3": run_merge3, "chain": run_chain, "find": run_find,
            "agg": run_agg, "nested": run_nested}[case["kind"]](case)


# ----------------------------------------------------------------------------- shrinking

def shrink_val(j, top=False):
    """smaller variants of a tagged value; `top` = must stay a dict"""
    t = j["t"]
    if t in ("list", "tuple", "set"):
        if not top:
            yield {"t": "int", "v": 0}
            for x in j["v"]:
                yield x
        for i in range(len(j["v"])):
            yield {"t": t, "v": j["v"][:i] + j["v"][i + 1:]}
        for i, x in enumerate(j["v"]):
            for y in itertools.islice(shrink_val(x), 6):
                if t == "set" and y["t"] in ("list", "set", "dict"):
                    continue
                yield {"t": t, "v": j["v"][:i] + [y] + j["v"][i + 1:]}
    elif t == "dict":
        if not top:
            yield {"t": "int", "v": 0}
            for _, v in j["v"]:
                yield v
        for i in range(len(j["v"])):
            yield {"t": t, "v": j["v"][:i] + j["v"][i + 1:]}
        for i, (k, v) in enumerate(j["v"]):
            for y in itertools.islice(shrink_val(v), 8):
                yield {"t": t, "v": j["v"][:i] + [[k, y]] + j["v"][i + 1:]}
            if k != {"t": "str", "v": "k"} and all(kk != {"t": "str", "v": "k"} for kk, _ in j["v"]):
                yield {"t": t, "v": j["v"][:i] + [[{"t": "str", "v": "k"}, v]] + j["v"][i + 1:]}
    elif t == "int":
        if j["v"] not in (0, 1):
            yield {"t": "int", "v": 1}
    elif t == "str":
        if j["v"] not in ("", "s"):
            yield {"t": "str", "v": "s"}
    elif t in ("bytes", "float", "none", "bool"):
        if not top:
            yield {"t": "int", "v": 1}


def _strip(case):
    return {k: v for k, v in case.items() if not k.startswith("_")}


def shrink_case(case):
    case = _strip(case)
    kind = case["kind"]
    out = []
    if kind in ("merge", "merge3"):
        if case.get("mapping", "dict") != "dict":
            out.append(dict(case, mapping="dict"))
        names = ["a", "b"] + (["c"] if kind == "merge3" else [])
        gens = [(n, shrink_val(case[n], top=True)) for n in names]
        # interleave so that every argument gets candidates among the first 64
        for group in itertools.zip_longest(*[itertools.islice(g, 40) for _, g in gens]):
            for (n, _), y in zip(gens, group):
                if y is not None:
                    out.append(dict(case, **{n: y}))
        if kind == "merge3":
            # an associativity failure may already be a plain merge failure
            out.insert(0, {"kind": "merge", "ml": case["ml"], "ms": case["ms"], "a": case["a"], "b": case["b"],
                           "mapping": "dict"})
            out.insert(1, {"kind": "merge", "ml": case["ml"], "ms": case["ms"], "a": case["b"], "b": case["c"],
                           "mapping": "dict"})
    elif kind == "chain":
        srcs = case["sources"]
        for i in range(len(srcs)):
            c = dict(case, sources=srcs[:i] + srcs[i + 1:])
            alt = case.get("alt")
            if alt is not None:
                if alt["index"] == i:
                    c.pop("alt")
                elif alt["index"] > i:
                    c["alt"] = {"index": alt["index"] - 1, "version": alt["version"]}
            out.append(c)
        if "alt" in case:
            c = dict(case)
            c.pop("alt")
            out.append(c)
        for y in itertools.islice(shrink_val(case["d0"], top=True), 10):
            out.append(dict(case, d0=y))
        for i, s in enumerate(srcs):
            g = s["get"]
            if g["kind"] == "const":
                for y in itertools.islice(shrink_val(g["data"], top=True), 10):
                    out.append(dict(case, sources=srcs[:i] + [dict(s, get=dict(g, data=y))] + srcs[i + 1:]))
            elif g["kind"] in ("echo", "sysid"):
                ng = {"kind": "const", "data": {"t": "dict", "v": []}, "version": "v"}
                out.append(dict(case, sources=srcs[:i] + [dict(s, get=ng)] + srcs[i + 1:]))
        if case["v0"] != "":
            out.append(dict(case, v0=""))
    elif kind == "find":
        srcs = case["sources"]
        for i in range(len(srcs)):
            out.append(dict(case, sources=srcs[:i] + srcs[i + 1:]))
    elif kind == "agg":
        for name in ("versions2",):
            if name in case:
                c = dict(case)
                c.pop(name)
                out.append(c)
        vs = case["versions"]
        if "versions2" not in case:
            for i in range(len(vs)):
                out.append(dict(case, versions=vs[:i] + vs[i + 1:]))
    return out


def neighbours_case(case, rng):
    case = _strip(case)
    kind = case["kind"]
    for _ in range(100):
        c = json.loads(json.dumps(case))
        if kind in ("merge", "merge3"):
            r = rng.random()
            if r < 0.3:
                c["ml"], c["ms"] = rand_flags(rng)
            else:
                n = rng.choice(["a", "b"] + (["c"] if kind == "merge3" else []))
                cands = list(itertools.islice(shrink_val(c[n], top=True), 30))
                if cands and rng.random() < 0.5:
                    c[n] = rng.choice(cands)
                else:
                    c[n] = J(related_dict(rng, dec(c[n]), 2))
        elif kind == "chain":
            c = rand_chain_case(rng, len(case["sources"]))
            c.pop("_meta", None)
        elif kind == "find":
            c = rand_find_case(rng, len(case["sources"]))
            c.pop("_meta", None)
        else:
            c = rand_agg_case(rng)
            c.pop("_meta", None)
        yield c
