"""
C20 — start()/stop() of the REAL TftpServer under the deterministic scheduler (sched.DynScheduler).

Caller threads execute their start/stop programs; the request-port thread that start() creates becomes a worker
of the same scheduler; the socket is a stub whose receive call times out at once and hands the token on. Every line
of TftpServer.start / stop / _run is a pre-emption point. What is recorded: after every critical section
(`with self._running_lock:`) of a caller thread the flags and resources of the server, the moment the request-port
thread sees the shutdown request, and its end. The Lean model (`Vinegar.Lifecycle`, one step per critical section)
is replayed on exactly that sequence of events by the driver (`lifecycle.replay`).
"""
import errno
import json
import os
import socket
import sys
import threading

import introspect as I
import sched

REPO = os.environ.get("VINEGAR_REPO", "/repo")
LINE_FUNCS = ("start", "stop", "_run")
_real_socket = socket.socket


class LifeSocket:
    registry = []

    def __init__(self, family=None, type=None, *a, **kw):  # noqa: A002
        self.closed = False
        self.bound = None
        LifeSocket.registry.append(self)

    def setsockopt(self, *a):
        if self.closed:
            raise OSError(errno.EBADF, "Bad file descriptor")

    def settimeout(self, t):
        pass

    def bind(self, addr):
        if self.closed:
            raise OSError(errno.EBADF, "Bad file descriptor")
        self.bound = addr

    def getsockname(self):
        if self.closed:
            raise OSError(errno.EBADF, "Bad file descriptor")
        return (self.bound[0], self.bound[1], 0, 0)

    pending = []        # (datagram, sender address) still to be delivered to a listening socket of this run
    eager = False       # deliver pending datagrams without giving other threads a turn first
    flood = None        # (datagram, sender) delivered whenever nothing else is pending

    def _recv(self):
        if self.closed:
            raise OSError(errno.EBADF, "Bad file descriptor")
        s = sched._current
        if LifeSocket.pending and self.bound is not None and LifeSocket.eager:
            # requests that arrived back to back: the next one is already there when the loop comes round again
            # (no other thread gets a turn in between unless a pre-emption says so)
            return LifeSocket.pending.pop(0)
        if s is not None:
            s.yield_now()
        if LifeSocket.pending and self.bound is not None:
            return LifeSocket.pending.pop(0)
        if LifeSocket.flood and self.bound is not None:
            # steady traffic: there is ALWAYS another (stray, ignored) datagram, the receive never times out
            return LifeSocket.flood
        raise socket.timeout("timed out")

    def recvmsg(self, *a):
        data, sender = self._recv()
        return data, [], 0, sender

    def recvfrom(self, *a):
        return self._recv()

    def sendto(self, *a):
        return 0

    def fileno(self):
        return -1

    def close(self):
        self.closed = True

    def __enter__(self):
        return self

    def __exit__(self, *a):
        self.close()
        return False


def _server_module():
    if REPO not in sys.path:
        sys.path.insert(0, REPO)
    import vinegar.tftp.server as m
    return m


def _run_once(case, preempt):
    m = _server_module()
    n = len(case["threads"])
    LifeSocket.registry = []
    busy = int(case.get("busy", 0))
    LifeSocket.pending = [(b"\x00\x01busy\x00octet\x00", ("::1", 40000, 0, 0))] if busy else []
    LifeSocket.eager = False
    LifeSocket.flood = (b"\x00", ("::1", 40009, 0, 0)) if case.get("flood") else None
    names = case.get("datagrams") or []
    handled = []
    if names:
        # dispatch scenario (C10): several read requests arrive back to back, each from its own client port
        LifeSocket.eager = True
        for i, nm in enumerate(names):
            dg = b"\x00\x01" + nm.encode() + b"\x00octet\x00"
            LifeSocket.pending.append((dg, ("::1", 41000 + i, 0, 0)))
    events = []

    class RecordingHandler(m.TftpRequestHandler):
        """accepts everything, records what it was given and declines with FILE_NOT_FOUND"""

        def prepare_context(self, filename):
            return ("ctx", filename)

        def can_handle(self, filename, context):
            handled.append(["can_handle", filename, list(context) if isinstance(context, tuple) else context])
            return True

        def handle(self, filename, client_address, server_address, context):
            handled.append(["handle", filename, list(context) if isinstance(context, tuple) else context,
                            list(client_address)[:2]])
            raise m.TftpError("recorded", m.ErrorCode.FILE_NOT_FOUND)

    class BusyHandler(m.TftpRequestHandler):
        """a handler that takes long to decide (many turns of the scheduler) and then declines"""

        def prepare_context(self, filename):
            return None

        def can_handle(self, filename, context):
            s_ = sched._current
            for _ in range(busy):
                if s_ is not None:
                    s_.yield_now()
            return False

        def handle(self, filename, client_address, server_address, context):
            raise m.TftpError(m.ErrorCode.FILE_NOT_FOUND, "declined")
    socket.socket = LifeSocket
    try:
        with sched.coop_locks():
            srv = m.TftpServer([RecordingHandler()] if names else [BusyHandler()] if busy else [], bind_address="::",
                               bind_port=6969)
        with sched.coop_threads():

            the_lock = I.find_instance(srv, sched.CoopLock)

            def flag(*needles):
                v = I.find_named(srv, *needles, kind=bool)
                return None if v is I.MISSING else bool(v)      # None: not observable (skipped by the judge)

            def snapshot():
                mains = [w for w in s.workers[n:]]
                return {"running": flag("running"), "shutdown_requested": flag("shutdown"),
                        "thread_alive": any(w.state != "done" for w in mains),
                        "socket_open": any(not x.closed for x in LifeSocket.registry),
                        "sockets_open": sum(1 for x in LifeSocket.registry if not x.closed),
                        "threads_alive": sum(1 for w in mains if w.state != "done")}

            results = [[] for _ in range(n)]

            def body(i):
                def run():
                    for op in case["threads"][i]:
                        if op == "pause":       # let the other threads (the request-port thread) have a few turns
                            for _ in range(3):
                                s.yield_now()
                            continue
                        try:
                            getattr(srv, op)()
                            results[i].append("ok")
                        except sched.Killed:
                            raise
                        except BaseException as e:  # noqa
                            results[i].append("raised:" + type(e).__name__)
                return run

            s = sched.DynScheduler([body(i) for i in range(n)], ("vinegar/tftp/server.py",),
                                   preemptions=[tuple(p) for p in preempt], start_order=case.get("order"),
                                   line_funcs=LINE_FUNCS, max_steps=int(case.get("max_steps", 6000)))

            def on_release(idx, lock):
                if lock is not the_lock or idx is None:
                    return
                if idx < n:
                    events.append({"k": "cs", "t": idx, "state": snapshot()})
                elif flag("shutdown"):
                    events.append({"k": "srv_sees_shutdown", "t": idx, "state": snapshot()})

            def on_worker_end(idx):
                if idx >= n:
                    if not any(e["k"] == "srv_sees_shutdown" and e["t"] == idx for e in events):
                        # the shutdown flag is not observable (renamed): the request-port thread must have noticed
                        # the request at some point before it ended; for the model that point is here
                        st = dict(events[-1]["state"]) if events else snapshot()
                        events.append({"k": "srv_sees_shutdown", "t": idx, "state": st, "synthetic": True})
                    events.append({"k": "srv_end", "t": idx, "state": snapshot()})

            s.on_release = on_release
            s.on_worker_end = on_worker_end
            s.on_finish = snapshot
            s.run(real_timeout=float(case.get("real_timeout", 30)))
    finally:
        socket.socket = _real_socket
    errors = [type(w.error).__name__ for w in s.workers if w.error is not None]
    return {"results": results, "events": events, "final": s.finish_result, "deadlock": s.deadlock, "handled": handled,
            "undelivered": len(LifeSocket.pending),
            "livelock": s.livelock, "timed_out": s.timed_out, "errors": errors, "steps": s.step,
            "switches": s.switches, "workers": len(s.workers), "trace": [list(t) for t in s.trace_points[:12]],
            "preempt": [list(p) for p in preempt]}


_steps_cache = {}


def _total_steps(case):
    key = json.dumps({k: case.get(k) for k in ("threads", "order", "busy", "datagrams", "flood")}, sort_keys=True)
    if key not in _steps_cache:
        _steps_cache[key] = _run_once(case, [])["steps"]
    return _steps_cache[key]


def run_case(case):
    if case.get("sweep"):
        # every single pre-emption of the chunk: at every global step, to every other worker (callers and the
        # request-port threads that exist by then)
        base = _run_once(case, [list(p) for p in case.get("preempt", [])])
        if base["deadlock"] or base["livelock"] or base["timed_out"] or base["errors"]:
            # already the run without any pre-emption fails: that is the outcome; sweeping it would take for ever
            return {"sweep": [base], "total_steps": base["steps"], "runs": 1}
        total = min(base["steps"], int(case.get("max_sweep_steps", 600)))
        k, mod = case["sweep"]
        n = len(case["threads"])
        outs, distinct, runs = [], {}, 0
        for step in range(1, total + 1):
            if step % mod != k:
                continue
            for target in range(n + int(case.get("servers", 1))):
                o = _run_once(case, [[step, target]] + [list(p) for p in case.get("preempt", [])])
                runs += 1
                key = json.dumps([o["results"], o["events"], o["final"], o["deadlock"], o["livelock"], o["errors"],
                                  o.get("handled")], sort_keys=True)
                if key not in distinct:
                    distinct[key] = o
            if len(distinct) >= 40:
                break       # far more distinct outcomes than the correct code has: enough to judge
        return {"sweep": list(distinct.values()), "total_steps": total, "runs": runs}
    pre = case.get("preempt", [])
    if "preempt_frac" in case:
        total = _total_steps(case)
        pre = sorted([[1 + int(f * total), t] for f, t in case["preempt_frac"]])
    return _run_once(case, pre)


if __name__ == "__main__":
    c = json.loads(sys.argv[1]) if len(sys.argv) > 1 else {"threads": [["start", "stop"], ["stop", "start"]]}
    print(json.dumps(run_case(c), indent=1)[:6000])
