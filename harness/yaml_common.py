"""
Shared pieces of the YAML target source checks (C11, C12): the structured description of
file contents and its rendering to YAML/Jinja text, case generators, shrinkers, request
builders and result comparison. Nothing here imports vinegar (that happens in
yaml_adapter.py, inside the worker process).

A file is described by a *spec*:
  {"raw": "<text>"}                                   -- literal text (malformed stream)
  {"blocks": [{"cond": C, "items": [[key, value], …]}, …]}
      C     = None | ["id", "s1"] | ["nid", "s1"] | ["data", "role", "web"]
              (rendered as a Jinja {% if %} around the block)
      value = JSON value | {"$set": [strings]} | {"$id": 1} | {"$data": key}
The top file uses the same shape (key = target expression, value = list of names).
A tree maps module paths "a/b" (the file a/b.yaml) to specs; "dirs" lists module paths p for
which p.yaml is a directory.
"""
import copy
import json

FUEL = 300  # recursion depth given to the model; generated trees are far shallower

SEGS = ["a", "b", "c", "q"]
IDS = ["s1", "s2", "web-1", "S1"]
PDATAS = [{}, {"role": "web"}, {"role": "db", "n": {"x": 1}}, {"role": "web", "flag": False, "count": 0}]
CONDS = [None, None, None, ["id", "s1"], ["id", "web-1"], ["nid", "s1"], ["data", "role", "web"]]
TOP_EXPRS = ["*", "s1", "s*", "web-* or s2", "not s1", "@data_literal:role@web", "@data_glob:role@d*",
             "not s1 and web-*", "not web-* and s1", "not s* and not web-* or s2", "not (s1 or s2) and s*",
             "* and not @data_literal:role@db", "S1", "@id_literal@s2", "(s1 or s2) and not web-*",
             "@data_literal:flag@False", "not @data_glob:count@0", "@data_glob/i:flag@f* and s*"]

TRUSTED_BASE = [
    "Lean 4.33 kernel; axioms of every property theorem audited to be within propext/Classical.choice/Quot.sound",
    "PyYAML and Jinja2 (and vinegar's Jinja engine wrapper) are shared with the implementation: the adapter renders "
    "and parses every file with the real libraries and ships the parsed result (or the failure) to the model",
    "vinegar.utils.system_matcher (target expressions): the model receives the real matcher's verdicts as facts (C18 owns the "
    "matcher); for C11 every such verdict is additionally compared with the Lean matcher model (`Matcher.parse` + "
    "`evalConcrete`: literal and bracket-free glob terms on ASCII text; regular expressions stay with C18)",
    "harness: sandbox trees with deterministic mtime bumps (sim_fs.py), generators, value tagging, the compiled driver",
    "hash functions of vinegar.utils.version: injectivity is a hypothesis of the C12 theorems (no hash collisions)",
]
ASSUMPTIONS = [
    "domain: file names are dot-separated segments without '/', mapping keys are strings, include is a list of "
    "strings (or a falsy value), top-file lists contain strings; anything else is reported by the model as UNSUPPORTED "
    "and is not generated",
    "the preceding data of a call is determined by its version string (caller contract of DataSource.get_data)",
    "recursion depth of generated trees stays far below Python's recursion limit (model fuel %d); above the bound of "
    "Vinegar.C11.expand_fuel_adequate the model's result does not depend on the fuel, while the real code raises "
    "RecursionError on trees whose aliased names (x...y.z) make the include chain longer than about 490 files" % FUEL,
]


# --------------------------------------------------------------------------- rendering
def _flow(v):
    if isinstance(v, dict):
        if "$set" in v:
            return "!!set {" + ", ".join(json.dumps(x) + ": null" for x in v["$set"]) + "}"
        if "$id" in v:
            return '"{{ id }}"'
        if "$data" in v:
            return '"{{ data.get(%s, \'none\') }}"' % json.dumps(v["$data"]).replace('"', "'")
        return "{" + ", ".join(json.dumps(k) + ": " + _flow(x) for k, x in v.items()) + "}"
    if isinstance(v, list):
        return "[" + ", ".join(_flow(x) for x in v) + "]"
    return json.dumps(v)


def _cond(c):
    if c[0] == "id":
        return "id == %s" % json.dumps(c[1]).replace('"', "'")
    if c[0] == "nid":
        return "id != %s" % json.dumps(c[1]).replace('"', "'")
    if c[0] == "data":
        return "data.get('%s') == '%s'" % (c[1], c[2])
    raise ValueError(c)


def render_spec(spec):
    if spec is None:
        return None
    if "raw" in spec:
        return spec["raw"]
    out = []
    for b in spec["blocks"]:
        if b.get("cond"):
            out.append("{%% if %s %%}" % _cond(b["cond"]))
        for k, v in b["items"]:
            key = json.dumps(k) if isinstance(k, str) else _flow(k)
            out.append(key + ": " + _flow(v))
        if b.get("cond"):
            out.append("{% endif %}")
    return "\n".join(out) + "\n"


def fs_path(mod):
    """module path "a/b" -> relative file path a/b.yaml"""
    return mod + ".yaml"


# --------------------------------------------------------------------------- generation
def gen_value(rng, key):
    if key == "l":
        pool = [1, 2, 3, "u", "v", True, [1], {"z": 1}]
        return [rng.choice(pool) for _ in range(rng.randint(0, 3))]
    if key == "s":
        if rng.random() < 0.15:
            return rng.choice([1, ["a"], "str"])
        return {"$set": sorted(set(rng.choice("abcd") for _ in range(rng.randint(0, 3))))}
    if key == "d":
        if rng.random() < 0.12:
            return rng.choice([1, "scalar", [1, 2], None])
        d = {}
        for k in rng.sample(["u", "v", "w", "z"], rng.randint(0, 3)):
            d[k] = rng.choice([1, 2, "t", [1, 2], [2, 3], {"z": rng.randint(1, 3)}, {"y": [1]}, None, True])
        return d
    r = rng.random()
    if r < 0.5:
        return rng.randint(0, 4)
    if r < 0.7:
        return rng.choice(["p", "q", "", "x y"])
    if r < 0.78:
        return rng.choice([True, False, None])
    if r < 0.84:
        return {"$id": 1}
    if r < 0.9:
        return {"$data": "role"}
    if r < 0.95:
        return {"u": rng.randint(0, 2)}
    return [rng.randint(0, 2)]


def name_forms(rng, place, target, files):
    """dotted names that denote the file at module path `target` (list of segments) when
    written in a file whose place in the tree is `place`"""
    forms = [".".join(target)]
    targets = [target]
    if len(target) > 1 and target[-1] == "init":
        targets.append(target[:-1])
        forms.append(".".join(target[:-1]))
    if place is not None:
        for t in targets:
            for k in range(1, len(place) + 1):
                base = place[:-k]
                if t[:len(base)] == base and len(t) > len(base):
                    forms.append("." * k + ".".join(t[len(base):]))
    f = rng.choice(forms)
    r = rng.random()
    if r < 0.04 and "." in f.strip("."):
        i = f.rindex(".")
        f = f[:i] + "." + f[i:]          # a..b : empty segment in the middle
    elif r < 0.07:
        f = f + "."                       # trailing empty segment
    return f


BAD_NAMES = ["", ".", "..", "....a", "zz", "a.zz", "..zz", "a..b", ".....", "init"]


def gen_file_spec(rng, mod, order, templated, mode, p_include=0.6):
    place = mod.split("/")
    keys = rng.sample(["k", "j", "m", "x", "l", "s", "d"], rng.randint(0, 4))
    items = [[k, gen_value(rng, k)] for k in keys]
    blocks = [{"cond": None, "items": items}]
    if rng.random() < 0.35:
        ks = rng.sample(["k", "j", "m", "y", "d"], rng.randint(1, 2))
        blocks.append({"cond": rng.choice(CONDS) if templated else None, "items": [[k, gen_value(rng, k)] for k in ks]})
    if rng.random() < p_include and order:
        me = order.index(mod) if mod in order else 0
        cand = order[me + 1:] if mode == "dag" else order
        names = []
        for _ in range(rng.choice([1, 1, 2, 3])):
            if cand and rng.random() < 0.9:
                names.append(name_forms(rng, place, rng.choice(cand).split("/"), order))
            elif rng.random() < 0.5:
                names.append(rng.choice(BAD_NAMES))
        inc = names if rng.random() < 0.97 else rng.choice([None, [], ""])
        b = rng.choice(blocks)
        pos = rng.choice([0, len(b["items"]), rng.randint(0, len(b["items"]))])
        b["items"].insert(pos, ["include", inc])
    return {"blocks": blocks}


def gen_paths(rng, n):
    paths = []
    tries = 0
    while len(paths) < n and tries < 100:
        tries += 1
        depth = rng.choice([1, 1, 2, 2, 3])
        p = [rng.choice(SEGS) for _ in range(depth)]
        if rng.random() < 0.3:
            if depth > 1:
                p[-1] = "init"
            elif rng.random() < 0.3:
                p = ["init"]
        m = "/".join(p)
        if m not in paths:
            paths.append(m)
    return paths


def gen_top_spec(rng, order, templated, malformed=True):
    r = rng.random()
    if malformed and r < 0.02:
        return None
    if malformed and r < 0.05:
        return {"raw": rng.choice(["", "[1, 2]\n", "k: [\n", "5\n", "{}\n", "# nothing\n"])}
    exprs = rng.sample(TOP_EXPRS, rng.randint(1, 4))
    if "*" not in exprs and rng.random() < 0.5:
        exprs.insert(rng.randint(0, len(exprs)), "*")
    blocks = [{"cond": None, "items": []}]
    for e in exprs:
        names = [name_forms(rng, None, rng.choice(order).split("/"), order) for _ in range(rng.choice([1, 1, 2, 3]))] \
            if order else []
        v = names
        q = rng.random()
        if malformed:
            if q < 0.02:
                names.insert(rng.randint(0, len(names)), "")
            elif q < 0.03:
                v = rng.choice(["a", 5, {"a": 1}, None])
            elif q < 0.05:
                names.append(rng.choice(["....a", "zz", "a.zz", "..zz", "a..b", "init", "a."]))
            elif q < 0.06:
                e = rng.choice(["((", "a or", "@data_literal:role", 5])
        if templated and rng.random() < 0.2:
            blocks.append({"cond": rng.choice(CONDS[3:]), "items": [[e, v]]})
            blocks.append({"cond": None, "items": []})
        else:
            blocks[-1]["items"].append([e, v])
    return {"blocks": [b for b in blocks if b["items"] or b["cond"]]}


def gen_cfg(rng):
    return {"merge_lists": rng.random() < 0.5, "merge_sets": rng.random() < 0.6,
            "allow_empty_top": rng.random() < 0.2, "template": "jinja" if rng.random() < 0.7 else None}


def gen_tree(rng, cfg, n_files=None, mode=None, malformed=True):
    templated = cfg["template"] is not None
    n = n_files if n_files is not None else rng.choice([1, 2, 3, 3, 4, 5, 6, 7])
    order = gen_paths(rng, n)
    mode = mode or rng.choice(["dag", "dag", "free"])
    files = {}
    for m in order:
        if malformed and rng.random() < 0.03:
            files[m] = {"raw": rng.choice(["{}\n", "{}\n", "include: []\n", "", "[1, 2]\n", "k: [\n", "just a string\n", "k: 1\nk: 2\n", "{% if %}\n",
                                           "k: {{ undefined_thing.attr }}\n", "? [1, 2]\n: x\n"])}
        else:
            files[m] = gen_file_spec(rng, m, order, templated, mode)
    dirs = []
    if malformed and rng.random() < 0.06:
        d = rng.choice(order + ["/".join(rng.choice(SEGS) for _ in range(2))])
        dirs.append(d)
        files.pop(d, None)
    top = gen_top_spec(rng, order, templated, malformed)
    return {"top": top, "files": files, "dirs": dirs}


def gen_c11_case(rng, style=None):
    cfg = gen_cfg(rng)
    style = style or rng.choice(["dag", "dag", "free", "deep", "diamond", "alias"])
    if style == "deep":
        tree = gen_chain_tree(rng, cfg)
    elif style == "diamond":
        tree = gen_diamond_tree(rng, cfg)
    elif style == "alias":
        tree = gen_alias_tree(rng, cfg)
    else:
        tree = gen_tree(rng, cfg, mode=style)
    case = {"cfg": cfg, "id": rng.choice(IDS), "pdata": copy.deepcopy(rng.choice(PDATAS))}
    case.update(tree)
    case["_meta"] = {"style": style}
    return case


def gen_chain_tree(rng, cfg):
    """a chain of relative includes through nested directories, optionally closed to a cycle"""
    depth = rng.randint(2, 6)
    files = {}
    path = []
    mods = []
    for i in range(depth):
        path.append(rng.choice(SEGS))
        use_init = rng.random() < 0.5
        mods.append(("/".join(path + ["init"]), True) if use_init else ("/".join(path), False))
    for i, (m, is_init) in enumerate(mods):
        items = [["k", i], [rng.choice(["j", "m"]), i]]
        if i + 1 < depth:
            nxt = mods[i + 1][0].split("/")
            place = m.split("/")
            tgt = nxt[:-1] if mods[i + 1][1] and rng.random() < 0.7 else nxt
            forms = []
            for k in range(1, len(place) + 1):
                base = place[:-k]
                if tgt[:len(base)] == base and len(tgt) > len(base):
                    forms.append("." * k + ".".join(tgt[len(base):]))
            forms.append(".".join(tgt))
            inc = [rng.choice(forms)]
        elif rng.random() < 0.4:
            back = mods[rng.randint(0, depth - 1)][0].split("/")
            inc = [".".join(back[:-1] if back[-1] == "init" and rng.random() < 0.5 and len(back) > 1 else back)]
        else:
            inc = None
        if inc is not None:
            items.insert(rng.randint(0, len(items)), ["include", inc])
        if m in files:
            continue
        files[m] = {"blocks": [{"cond": None, "items": items}]}
    first = mods[0][0].split("/")
    top = {"blocks": [{"cond": None, "items": [["*", [".".join(first[:-1] if mods[0][1] else first)]]]}]}
    return {"top": top, "files": files, "dirs": []}


def gen_alias_tree(rng, cfg):
    """several NAMES of one file: empty segments (`a..b`, `a.`, leading dots in a top list) are
    dropped when the path is built but kept in the name, and the cycle check compares names. A file
    can therefore be expanded inside itself (under a new name each time) without a cycle error;
    the depth grows with the number of dots, not with the number of files (Theorems/C11.lean,
    `linear_bound_fails`). All families stay far below the model's fuel."""
    def spec(items):
        return {"blocks": [{"cond": None, "items": items}]}

    def body(tag, inc, n=2):
        items = [[k, gen_value(rng, k) if rng.random() < 0.5 else tag] for k in rng.sample(["k", "j", "m", "x", "y"], n)]
        if inc is not None:
            items.insert(rng.randint(0, len(items)), ["include", inc])
        return spec(items)

    fam = rng.choice(["countdown", "countdown-dir", "self", "self", "counter", "counter", "trailing", "trailing",
                      "init-twice", "mixed", "mixed"])
    files = {}
    if fam == "countdown":
        # a.yaml includes '..a'; listed as '.....a': k+1 nested expansions, then above the root
        k = rng.randint(0, 7)
        files["a"] = body("a", ["..a"] + (["b"] if rng.random() < 0.3 else []))
        if rng.random() < 0.5:
            files["b"] = body("b", None)
        names = ["." * k + "a"]
    elif fam == "countdown-dir":
        # x/a.yaml includes '..a'; listed as 'x....a': ends at the root file a.yaml (if present)
        k = rng.randint(1, 6)
        files["x/a"] = body("xa", ["..a"])
        if rng.random() < 0.85:
            files["a"] = body("a", rng.choice([None, None, None, ["x.a"], ["x..a"]]))
        names = ["x" + "." * k + "a"]
    elif fam == "self":
        # x/y.yaml includes '..y' (documented meaning: y.yaml one directory up); under the name
        # x..y that is x/y.yaml itself, once more, without a cycle error
        k = rng.randint(1, 4)
        files["x/y"] = body("xy", ["..y"])
        if rng.random() < 0.9:
            files["y"] = body("y", None)
        names = [rng.choice(["x" + "." * (k + 1) + "y", "x.y", "x.y" + "." * k])]
    elif fam == "counter":
        # two files, depth ~ (a+1)*(B+2): x/y/z.yaml counts the dots before z down, x/z.yaml
        # drops one dot before y and reloads the dots before z
        a, bb = rng.randint(0, 3), rng.randint(0, 3)
        files["x/y/z"] = body("xyz", ["..z"])
        files["x/z"] = body("xz", ["..y" + "." * (bb + 1) + "z"])
        if rng.random() < 0.85:
            files["y/z"] = body("yz", None)
        names = ["x" + "." * (a + 1) + "y.z"]
    elif fam == "trailing":
        # 'a.' is a.yaml with the place ['a', '']: '.b' then means a/b.yaml, not b.yaml
        files["a"] = body("a", [rng.choice([".b", ".b.", "a.", "..b"])])
        for m in rng.sample(["b", "a/b", "a/init"], rng.randint(1, 3)):
            files[m] = body(m, None)
        names = [rng.choice(["a.", "a..", "a", ".a."])]
    elif fam == "init-twice":
        # documented syntax only: a/init.yaml is reached as 'a' and then as 'a.init'
        files["a/init"] = body("ai", [rng.choice([".init", "a.init", "a"])] + (["b"] if rng.random() < 0.4 else []))
        files["b"] = body("b", None)
        names = [rng.choice(["a", "a.init", "a..init", "a."])]
    else:
        # an ordinary tree whose names get extra dots
        tree = gen_tree(rng, cfg, n_files=rng.randint(2, 4), mode="dag", malformed=False)

        def dot(n):
            if not isinstance(n, str) or not n or rng.random() < 0.4:
                return n
            r = rng.random()
            if r < 0.4 and "." in n.strip("."):
                i = n.rindex(".")
                return n[:i] + "." * rng.randint(1, 2) + n[i:]
            if r < 0.7:
                return n + "." * rng.randint(1, 2)
            return n
        for sp in list(tree["files"].values()) + [tree["top"]]:
            if sp and "blocks" in sp:
                for b in sp["blocks"]:
                    for it in b["items"]:
                        if isinstance(it[1], list) and (sp is tree["top"] or it[0] == "include"):
                            it[1] = [dot(n) for n in it[1]]
        return tree
    extra = [n for n in (rng.choice(["b", "a.", "x.y", "zz"]),) if rng.random() < 0.1]
    top = spec([["*", names + extra]])
    return {"top": top, "files": files, "dirs": []}


def gen_diamond_tree(rng, cfg):
    """top lists two files that include a common file (and each other's neighbours)"""
    templated = cfg["template"] is not None
    files = {
        "a": {"blocks": [{"cond": None, "items": [["k", 1], ["include", ["c", rng.choice(["b", ".c", "q.d"])]], ["m", 1]]}]},
        "b": {"blocks": [{"cond": None, "items": [["include", ["c"]], ["j", 2], ["d", {"u": 1}]]}]},
        "c": {"blocks": [{"cond": None, "items": [["j", 3], ["d", {"v": rng.randint(0, 3)}], ["l", [1]]]},
                         {"cond": ["id", "s1"] if templated else None, "items": [["x", {"$id": 1}]]}]},
        "q/d": {"blocks": [{"cond": None, "items": [["l", [2, True]], ["include", ["..c", ".e"]], ["s", {"$set": ["a"]}]]}]},
        "q/e": {"blocks": [{"cond": None, "items": [["s", {"$set": ["b"]}], ["include", rng.choice([["a"], [], ["c"]])]]}]},
    }
    top = {"blocks": [{"cond": None, "items": [["*", ["a", "b"]], [rng.choice(TOP_EXPRS[1:]), ["q.d", "c"]]]}]}
    return {"top": top, "files": files, "dirs": []}


# --------------------------------------------------------------------------- C12 histories
def _names_of(paths):
    out = []
    for p in paths:
        segs = p.split("/")
        out.append(".".join(segs))
        if len(segs) > 1 and segs[-1] == "init":
            out.append(".".join(segs[:-1]))
    return out


def gen_pool(rng, templated, paths):
    """a small pool of file contents; edits draw from the pool so that the same text appears
    in different places and at different times (what the per-name caches key on)"""
    pool = []
    rel = [".q", ".b", "..a", ".a", "..q", ".init", "...a", "..b"]
    absn = _names_of(paths)
    for i in range(rng.randint(4, 7)):
        keys = rng.sample(["k", "j", "m", "l", "d"], rng.randint(0, 3))
        items = [[k, gen_value(rng, k)] for k in keys]
        if i % 2 == 1:
            inc = [rng.choice(absn) if rng.random() < 0.7 else rng.choice(rel) for _ in range(rng.choice([1, 1, 2]))]
            items.insert(rng.choice([0, len(items), rng.randint(0, len(items))]), ["include", inc])
        blocks = [{"cond": None, "items": items}]
        if templated and rng.random() < 0.35:
            blocks.append({"cond": rng.choice(CONDS[3:]), "items": [[rng.choice(["k", "j", "y"]), gen_value(rng, "k")]]})
        pool.append({"blocks": blocks})
    pool.append({"raw": "{}\n"})
    if templated:
        # a template that loads an object through vinegar's serialisation extension and changes it in place
        pool.append({"raw": "{% load_yaml as d %}{l: [], n: 0}{% endload %}{% do d.l.append(id) %}{% do d.update({'n': d.l | length}) %}"
                            "loaded: {{ d | yaml }}\n"})
    # two texts that differ only in the white space in front of the first line - and in what they mean
    pool.append({"raw": "d:\n  u: 1\n"})
    pool.append({"raw": "  d:\n  u: 1\n"})
    return pool


C12_PATHS = ["a", "b", "q", "c", "a/init", "a/q", "a/q/init", "a/q/q", "a/b", "q/init", "b/init", "q/a"]


def gen_c12_top(rng, templated, paths):
    names = _names_of(paths)
    exprs = rng.sample(["*", "s1", "not s1", "@data_literal:role@web", "s*", "web-*", "@id_literal@s1", "@id_glob@s*",
                        "@id_literal@S1"], rng.randint(1, 3))
    if "*" not in exprs and rng.random() < 0.7:
        exprs.insert(0, "*")
    blocks = [{"cond": None, "items": [[e, [rng.choice(names) for _ in range(rng.choice([1, 1, 2, 3]))]] for e in exprs]}]
    if templated and rng.random() < 0.25:
        blocks.append({"cond": rng.choice(CONDS[3:]), "items": [["@id_glob@*", [rng.choice(names)]]]})
    return {"blocks": blocks}


def gen_c12_case(rng, cache_size=None, template="default"):
    cfg = gen_cfg(rng)
    if template != "default":
        cfg["template"] = template
    cfg["allow_empty_top"] = rng.random() < 0.2
    cfg["merge_lists"] = rng.random() < 0.3
    cfg["cache_size"] = cache_size if cache_size is not None else rng.choice([0, 1, 2, 64])
    templated = cfg["template"] is not None
    paths = rng.sample(C12_PATHS, rng.randint(2, 6))
    pool = gen_pool(rng, templated, paths)
    leaves = [p for i, p in enumerate(pool) if i % 2 == 0]
    init = {"top": gen_c12_top(rng, templated, paths),
            "files": {p: copy.deepcopy(rng.choice(pool if rng.random() < 0.5 else leaves)) for p in paths}, "dirs": []}
    ids = rng.sample(IDS, rng.choice([1, 2, 2, 3]))
    pdatas = [copy.deepcopy(p) for p in rng.sample(PDATAS, rng.choice([1, 2, 3]))]
    steps = []
    n = rng.randint(5, 14)
    for _ in range(n):
        r = rng.random()
        if r < 0.42 or not steps:
            steps.append(["get", rng.choice(ids), rng.randrange(len(pdatas))])
        elif r < 0.72:
            steps.append(["write", rng.choice(C12_PATHS if rng.random() < 0.25 else paths), copy.deepcopy(rng.choice(pool))])
            if rng.random() < 0.15:
                steps[-1].append("keep_mtime")      # replaced, but with the old file's modification time
        elif r < 0.77:
            steps.append(["delete", rng.choice(paths if rng.random() < 0.7 else C12_PATHS)])
        elif r < 0.87:
            steps.append(["swap", rng.choice([p for p in paths if not p.endswith("init")] or ["a"])
                          if rng.random() < 0.7 else rng.choice(["a", "b", "q", "a/q", "c"])])
        elif r < 0.97:
            steps.append(["top", gen_c12_top(rng, templated, paths) if rng.random() < 0.9 else
                          rng.choice([None, {"raw": ""}, {"raw": "[1]\n"}])])
        else:
            steps.append(["mkdir", rng.choice(["a", "b", "a/q"])])
    if steps[-1][0] != "get":
        steps.append(["get", rng.choice(ids), rng.randrange(len(pdatas))])
    return {"cfg": cfg, "init": init, "pdatas": pdatas, "steps": steps, "_meta": {"style": "random"}}


def gen_c12_swap_case(rng, cache_size=None, template=None):
    """file <-> init-directory swaps with UNCHANGED content: a relative include then resolves to a
    different file (`.q` in `a.yaml` is `q`, in `a/init.yaml` it is `a.q`); both candidates exist"""
    cfg = gen_cfg(rng)
    cfg["template"] = template
    cfg["allow_empty_top"] = False
    cfg["cache_size"] = cache_size if cache_size is not None else rng.choice([1, 2, 64])
    mod = rng.choice(["a", "b"])
    inc = rng.choice(["q", "c"])
    def spec(items):
        return {"blocks": [{"cond": None, "items": items}]}
    pos = rng.choice(["start", "middle", "end"])
    body = [["k", 1], ["m", 2]]
    incl = ["include", ["." + inc]]
    items = {"start": [incl] + body, "middle": [body[0], incl, body[1]], "end": body + [incl]}[pos]
    files = {mod: spec(items), inc: spec([["j", rng.choice([1, "outer"])], ["k", 7]]),
             mod + "/" + inc: spec([["j", rng.choice([2, "inner"])], ["m", 9]])}
    init = {"top": spec([["*", [mod]]]), "files": files, "dirs": []}
    steps = [["get", "s1", 0], ["swap", mod], ["get", "s1", 0]]
    for _ in range(rng.randrange(0, 4)):
        steps.append(rng.choice([["swap", mod], ["get", "s1", 0], ["get", "s2", 0],
                                 ["write", inc, spec([["j", rng.choice([3, 4])]])]]))
    steps.append(["get", "s1", 0])
    return {"cfg": cfg, "init": init, "pdatas": [{}], "steps": steps, "_meta": {"style": "swap"}}


def gen_c12_listmerge_case(rng, cache_size=None, template=None):
    """the same key holds a list (a set, a mapping) in several applied files and the lists are merged; then a LATER
    file (or top.yaml) changes while the earlier files stay as they are and are served from the per-file cache: the
    result must be recomputed from the earlier files' own content, not from what was merged into it before"""
    cfg = gen_cfg(rng)
    cfg["template"] = template
    cfg["allow_empty_top"] = False
    cfg["merge_lists"] = rng.random() < 0.85
    cfg["merge_sets"] = rng.random() < 0.7
    cfg["cache_size"] = cache_size if cache_size is not None else rng.choice([1, 2, 64])
    def spec(items):
        return {"blocks": [{"cond": None, "items": items}]}
    def later(n):
        return spec([["l", [rng.choice(["u", "v", 3, n])] + ([[1]] if rng.random() < 0.2 else [])],
                     ["d", {"u": [n, 2], "w": {"y": [n]}}], ["s", {"$set": [rng.choice("bcd")]}]])
    files = {"a": spec([["l", [1, 2]], ["d", {"u": [1], "w": {"y": [1]}}], ["s", {"$set": ["a"]}]]),
             "b": later(5), "c": later(6)}
    names = ["a", "b"] + (["c"] if rng.random() < 0.5 else [])
    if rng.random() < 0.3:
        files["a"]["blocks"][0]["items"].append(["include", ["b"]])    # the later file arrives through an include
        names = ["a"]
    init = {"top": spec([["*", names]]), "files": files, "dirs": []}
    steps = [["get", "s1", 0]]
    for i in range(rng.randint(1, 4)):
        r = rng.random()
        if r < 0.6:
            steps.append(["write", rng.choice(["b", "c"]), later(7 + i)])
        elif r < 0.8:
            steps.append(["top", spec([["*", rng.choice([["a"], ["a", "c"], ["a", "b"], ["b", "a"]])]])])
        else:
            steps.append(["get", rng.choice(["s1", "s2"]), 0])
        steps.append(["get", "s1", 0])
    return {"cfg": cfg, "init": init, "pdatas": [{}], "steps": steps, "_meta": {"style": "listmerge"}}


def gen_c12_repeat_case(rng, cache_size=None, template=None):
    """a file that is ALREADY applied is applied again later (or stops being repeated), all file texts unchanged, and
    another file overrides its keys in between: what changes is only how often and where the file is merged — through
    an edit of top.yaml, through preceding data that make a second target match, or through the system id"""
    cfg = gen_cfg(rng)
    cfg["template"] = template
    cfg["allow_empty_top"] = False
    cfg["cache_size"] = cache_size if cache_size is not None else rng.choice([1, 2, 64])
    def spec(items):
        return {"blocks": [{"cond": None, "items": items}]}
    files = {"a": spec([["k", "default"], ["d", {"u": 1}]]), "b": spec([["k", "site"], ["d", {"u": 2, "v": 3}]]),
             "c": spec([["include", ["a"]]])}
    again = rng.choice(["a", "a", "c"])
    plain = [["*", ["a", "b"]]]
    twice = [["*", ["a", "b"]], [rng.choice(["s1", "s*", "*"]), [again]]]
    by_data = [["*", ["a", "b"]], ["@data_literal:role@web", [again]]]
    pdatas = [{}, {"role": "web"}]
    mode = rng.choice(["top", "top", "data", "id"])
    if mode == "top":
        init_top, steps = plain, [["get", "s1", 0], ["top", spec(twice)], ["get", "s1", 0], ["top", spec(plain)],
                                  ["get", "s1", 0]]
        if rng.random() < 0.5:
            init_top, steps = twice, [["get", "s1", 0], ["top", spec(plain)], ["get", "s1", 0], ["top", spec(twice)],
                                      ["get", "s1", 0]]
    elif mode == "data":
        init_top = by_data
        steps = [["get", "s1", 0], ["get", "s1", 1], ["get", "s1", 0], ["get", "s1", 1]]
    else:
        init_top = [["*", ["a", "b"]], ["s1", [again]]]
        steps = [["get", "s2", 0], ["get", "s1", 0], ["get", "s2", 0]]
    for _ in range(rng.randrange(0, 3)):
        steps.insert(rng.randrange(1, len(steps)), rng.choice([["get", "s2", 0], ["get", "s1", 1], ["get", "s1", 0]]))
    init = {"top": spec(init_top), "files": files, "dirs": []}
    return {"cfg": cfg, "init": init, "pdatas": pdatas, "steps": steps, "_meta": {"style": "repeat"}}


def gen_lru_case(rng, size):
    alphabet = ["a", "b", "c", "d"][:rng.choice([2, 3, 4])]
    ops = []
    for i in range(rng.randint(3, 16)):
        if rng.random() < 0.5:
            ops.append(["get", rng.choice(alphabet)])
        else:
            ops.append(["set", rng.choice(alphabet), i])
    return {"kind": "lru", "size": size, "alphabet": alphabet, "ops": ops, "_meta": {"style": "lru"}}


def shrink_lru(case):
    base = {k: v for k, v in case.items() if not k.startswith("_")}
    for i in range(len(base["ops"])):
        c = copy.deepcopy(base)
        del c["ops"][i]
        yield c


# --------------------------------------------------------------------------- model requests
def c11_request(case, obs):
    cfg = case["cfg"]
    v = obs["view"]
    return {"op": "yaml.compile",
            "cfg": {k: bool(cfg[k]) for k in ("merge_lists", "merge_sets", "allow_empty_top")},
            "fuel": FUEL, "top": v["top"], "files": v["files"], "impl": obs["impl"][:2]}


def c12_request(case, obs):
    cfg = case["cfg"]
    return {"op": "yaml.history",
            "cfg": {k: bool(cfg[k]) for k in ("merge_lists", "merge_sets", "allow_empty_top")},
            "fuel": FUEL, "cache_size": max(0, int(cfg["cache_size"])),
            "texts": obs["texts"], "tops": obs["tops"], "render": obs["render"],
            "init": obs["init"], "steps": obs["steps"],
            "impl": [c["long"][:3] if c["long"][0] == "ok" else c["long"][:2] for c in obs["calls"]],
            "impl_fresh": [c["fresh"][:3] if c["fresh"][0] == "ok" else c["fresh"][:2] for c in obs["calls"]]}


def version_classes(vs):
    """canonical form of a list of version strings up to renaming: index of first occurrence"""
    first = {}
    out = []
    for v in vs:
        if v is None:
            out.append(None)
        else:
            out.append(first.setdefault(v, len(first)))
    return out


# --------------------------------------------------------------------------- shrinking
def _spec_shrinks(spec):
    if spec is None or "raw" in spec:
        return
    bl = spec["blocks"]
    for i in range(len(bl)):
        yield {"blocks": bl[:i] + bl[i + 1:]}
    for i, b in enumerate(bl):
        if b.get("cond"):
            nb = dict(b)
            nb["cond"] = None
            yield {"blocks": bl[:i] + [nb] + bl[i + 1:]}
        for j in range(len(b["items"])):
            nb = dict(b)
            nb["items"] = b["items"][:j] + b["items"][j + 1:]
            yield {"blocks": bl[:i] + [nb] + bl[i + 1:]}
        for j, (k, v) in enumerate(b["items"]):
            if isinstance(v, list) and len(v) > 0:
                for t in range(len(v)):
                    nb = dict(b)
                    nb["items"] = b["items"][:j] + [[k, v[:t] + v[t + 1:]]] + b["items"][j + 1:]
                    yield {"blocks": bl[:i] + [nb] + bl[i + 1:]}
            elif isinstance(v, dict) and v and "$set" not in v and "$id" not in v and "$data" not in v:
                for t in list(v):
                    nv = {a: b2 for a, b2 in v.items() if a != t}
                    nb = dict(b)
                    nb["items"] = b["items"][:j] + [[k, nv]] + b["items"][j + 1:]
                    yield {"blocks": bl[:i] + [nb] + bl[i + 1:]}


def shrink_c11(case):
    base = {k: v for k, v in case.items() if not k.startswith("_")}
    for m in list(base["files"]):
        c = copy.deepcopy(base)
        del c["files"][m]
        yield c
    for d in list(base.get("dirs", [])):
        c = copy.deepcopy(base)
        c["dirs"].remove(d)
        yield c
    if base.get("pdata"):
        c = copy.deepcopy(base)
        c["pdata"] = {}
        yield c
    if base["cfg"].get("template"):
        c = copy.deepcopy(base)
        c["cfg"]["template"] = None
        yield c
    for s in _spec_shrinks(base.get("top")):
        c = copy.deepcopy(base)
        c["top"] = s
        yield c
    for m, spec in base["files"].items():
        for s in _spec_shrinks(spec):
            c = copy.deepcopy(base)
            c["files"][m] = s
            yield c


def shrink_c12(case):
    base = {k: v for k, v in case.items() if not k.startswith("_")}
    st = base["steps"]
    # drop steps (keep at least one get at the end)
    for i in range(len(st)):
        ns = st[:i] + st[i + 1:]
        if any(s[0] == "get" for s in ns):
            c = copy.deepcopy(base)
            c["steps"] = ns
            yield c
    for m in list(base["init"]["files"]):
        c = copy.deepcopy(base)
        del c["init"]["files"][m]
        yield c
    if base["cfg"].get("template"):
        c = copy.deepcopy(base)
        c["cfg"]["template"] = None
        yield c
    for i, s in enumerate(st):
        if s[0] == "get" and s[2] != 0:
            c = copy.deepcopy(base)
            c["steps"][i] = ["get", s[1], 0]
            yield c
    for s in _spec_shrinks(base["init"].get("top")):
        c = copy.deepcopy(base)
        c["init"]["top"] = s
        yield c
    for m, spec in base["init"]["files"].items():
        for s in _spec_shrinks(spec):
            c = copy.deepcopy(base)
            c["init"]["files"][m] = s
            yield c
    for i, stp in enumerate(st):
        if stp[0] == "write":
            for s in _spec_shrinks(stp[2]):
                c = copy.deepcopy(base)
                c["steps"][i] = ["write", stp[1], s]
                yield c
        if stp[0] == "top" and stp[1] is not None:
            for s in _spec_shrinks(stp[1]):
                c = copy.deepcopy(base)
                c["steps"][i] = ["top", s]
                yield c


def strip_meta(case):
    return {k: v for k, v in case.items() if not k.startswith("_")}
