"""C03 — HTTP responses carry exactly the handler's status, headers and body."""
import http_common as H

ID = "C03"
MODULE = "props.c03"
THEOREM_MODULES = ["Vinegar.Theorems.C03"]
THEOREMS = [
    "Vinegar.C03.parse_emit",
    "Vinegar.C03.parse_emit_error",
    "Vinegar.C03.bare_error_page",
    "Vinegar.C03.raise_gives_500",
    "Vinegar.C03.c03Check_emit",
    "Vinegar.C03.resultClauses_exact",
    "Vinegar.C03.dispatch_first",
    "Vinegar.C03.dispatch_calls",
    "Vinegar.C03.dispatch_raise",
    "Vinegar.C03.none_404",
    "Vinegar.C03.gate_400_iff",
    "Vinegar.C03.respond_wellformed",
]
TRUSTED_BASE = H.TRUSTED_BASE
ASSUMPTIONS = H.ASSUMPTIONS
RULE = ("one real HttpServer per case on loopback with scripted handlers; full grid status class {2xx,3xx,4xx,5xx} x headers "
        "{None, {}, non-empty} x body {None, empty, small, medium, 256 KiB (quick) / 4 MiB (thorough)} x method "
        "{GET,HEAD,POST,PUT,DELETE}, raising handle/prepare_context/can_handle x methods, no accepting handler, targets "
        "refused by the gate, random combinations with odd-but-legal header values, each optionally followed by "
        "sequential and concurrent further requests to the same server; the raw bytes read until the server closes are "
        "parsed by the Lean parseResponse and compared byte-for-byte with the model's emit; non-trivial = a handler "
        "was used for at least one request; distinct by SHA-1 of the case")
BUDGET_S = {"quick": 60, "thorough": 1500}


def env_of(case):
    return H.ENV


def worker_setup(env):
    import http_adapter
    http_adapter.setup()


def run_overlap(case):
    """'keeps answering concurrent requests': n requests are held inside their handlers until one more request,
    sent while they are all in progress, has been served (or a real-time limit passes)"""
    import http as _http
    import io
    import socket
    import threading
    import time
    import http_adapter as A
    A.setup()
    from vinegar.http.server import HttpRequestHandler, HttpServer
    n = case["waiters"]
    entered = threading.Semaphore(0)
    release = threading.Event()
    saw = []

    class Hd(HttpRequestHandler):
        def can_handle(self, uri, context):
            return True

        def handle(self, request_info, body, context):
            if request_info.uri.startswith("/wait"):
                entered.release()
                saw.append(release.wait(case.get("limit_s", 6.0)))
                return (_http.HTTPStatus.OK, {"Content-Type": "text/plain"}, io.BytesIO(b"waited"))
            release.set()
            return (_http.HTTPStatus.OK, {"Content-Type": "text/plain"}, io.BytesIO(b"pong"))

    bind = "::1"
    port = A.pick_port(bind)
    srv = HttpServer([Hd()], bind, port)
    srv.start()
    out = {"ping": None, "waits": []}

    def get(path, timeout):
        s = socket.create_connection((bind, port), timeout=timeout)
        try:
            s.settimeout(timeout)
            s.sendall(b"GET " + path + b" HTTP/1.0\r\n\r\n")
            data = b""
            while True:
                chunk = s.recv(65536)
                if not chunk:
                    break
                data += chunk
            return data
        finally:
            s.close()

    results = [None] * n

    def waiter(i):
        try:
            results[i] = get(b"/wait/%d" % i, 20.0)
        except Exception as e:  # noqa
            results[i] = repr(e).encode()

    ths = [threading.Thread(target=waiter, args=(i,)) for i in range(n)]
    try:
        for t in ths:
            t.start()
        # the first waiter must be inside its handler before the ping is sent
        got_in = entered.acquire(timeout=10.0)
        t0 = time.monotonic()
        try:
            ping = get(b"/ping", case.get("limit_s", 6.0) - 1.0)
            out["ping"] = ping.endswith(b"pong")
        except Exception as e:  # noqa
            out["ping"] = False
            out["ping_error"] = repr(e)
        out["ping_s"] = round(time.monotonic() - t0, 2)
        release.set()
        for t in ths:
            t.join(25.0)
        out["entered"] = got_in
        out["waits"] = [bool(r and r.endswith(b"waited")) for r in results]
        out["released_by_ping"] = list(saw)
    finally:
        try:
            srv.stop()
        finally:
            A.hygiene_close(srv)
    return out


def run_impl(case, env):
    if case.get("kind") == "overlap":
        return run_overlap(case)
    return H.run_impl_http(case)


def model_requests(case, obs):
    if case.get("kind") == "overlap":
        return []
    return H.model_requests_http(case, obs)


def judge(case, obs, responses):
    if case.get("kind") == "overlap":
        from core import Judgement
        if "harness_exception" in obs or not obs.get("entered"):
            return Judgement(case, True, False, {"infrastructure": obs}, kind="infra", nontrivial=False)
        ok = bool(obs.get("ping")) and all(obs.get("waits", [False])) and all(obs.get("released_by_ping", [False]))
        return Judgement(case, ok, ok, None if ok else obs, kind="overlap", nontrivial=True,
                         failed_clause=None if ok else "concurrent_request_not_served")
    return H.judge_http(case, obs, responses, prop="C03")


def shrink(case):
    if case.get("kind") == "overlap":
        if case["waiters"] > 1:
            yield dict(case, waiters=case["waiters"] - 1)
        return
    yield from H.shrink_http(case)


def neighbours(case, rng):
    if case.get("kind") == "overlap":
        return iter(())
    return H.neighbours_http(case, rng)


def signature(case, j):
    if case.get("kind") == "overlap":
        return {"clause": j.failed_clause, "kind": "overlap"}
    return H.signature_http(case, j)


def followups(rng, i):
    """further requests to the same server: sequential and concurrent"""
    ph = []
    if i % 3 == 0:
        ph.append([H.gen_request(rng)])
    if i % 3 == 1:
        ph.append([H.gen_request(rng, target=f"/c/{j}") for j in range(rng.choice([2, 3, 4, 8]))])
        ph.append([H.liveness_request(i)])
    return ph


def gen(rng, tier, mult=1):
    for w in ((1, 3) if tier == "quick" else (1, 2, 3, 5, 8)):
        yield {"kind": "overlap", "waiters": w, "proto": "http", "_meta": {"kind": "overlap"}}
    i = 0
    # 1. the full grid of the property's quantifier
    for sc in (2, 3, 4, 5):
        for hstyle in ("none", "empty", "some"):
            for bstyle in ("none", "empty", "small", "big"):
                for method in ("GET", "HEAD", "POST", "PUT", "DELETE"):
                    if bstyle == "big" and tier == "quick" and method not in ("GET", "HEAD", "POST"):
                        continue
                    i += 1
                    res = H.gen_result(rng, tier, status_class=sc, hstyle=hstyle, bstyle=bstyle)
                    hs = [{"accept": "yes", "result": res}]
                    if i % 4 == 0:
                        hs.insert(0, {"accept": "no", "result": dict(H.SMALL_RESULT)})
                    yield H.exchange_case(hs, [[H.gen_request(rng, method=method)]] + followups(rng, i),
                                          meta={"kind": f"grid/{sc}xx/h-{hstyle}/b-{bstyle}"})
    # 2. raising handlers, nobody accepts, gate
    for method in ("GET", "HEAD", "POST", "PUT", "DELETE"):
        for acc, res, label in (("yes", {"kind": "raised"}, "raise-handle"),
                                ("raise_prepare", dict(H.SMALL_RESULT), "raise-prepare"),
                                ("raise_can", dict(H.SMALL_RESULT), "raise-can")):
            for pre in (0, 1):
                i += 1
                hs = [{"accept": "no", "result": dict(H.SMALL_RESULT)}] * pre + [
                    {"accept": acc, "result": res}, {"accept": "yes", "result": dict(H.SMALL_RESULT)}]
                yield H.exchange_case(hs, [[H.gen_request(rng, method=method)]] + followups(rng, i),
                                      meta={"kind": f"{label}/{method}"})
        for hs in ([], [{"accept": "no", "result": dict(H.SMALL_RESULT)}],
                   [{"accept": "no", "result": dict(H.SMALL_RESULT)}] * 3):
            i += 1
            rq = H.gen_request(rng, method=method)
            rq["body"] = None
            yield H.exchange_case(hs, [[rq]] + followups(rng, i), meta={"kind": f"none-accepts/{method}"})
        for t in H.BAD_TARGETS:
            i += 1
            rq = H.gen_request(rng, method=method, target=t)
            rq["body"] = None
            yield H.exchange_case([{"accept": "yes", "result": dict(H.SMALL_RESULT)}], [[rq], [H.liveness_request()]],
                                  meta={"kind": f"gate/{method}"})
    # 2a. handlers that raise exceptions of other classes (the handler's own I/O trouble looks like a connection error)
    for exc in ("OSError", "ConnectionRefusedError", "BrokenPipeError", "ConnectionResetError", "TimeoutError", "KeyError",
                "UnicodeDecodeError", "FileNotFoundError", "EOFError", "LookupError"):
        for method in ("GET", "POST"):
            i += 1
            hs = [{"accept": "yes", "result": {"kind": "raised", "exc": exc}}]
            yield H.exchange_case(hs, [[H.gen_request(rng, method=method)]] + followups(rng, i),
                                  meta={"kind": f"raise-handle-{exc}/{method}"})
    # 2b. a handler that answers a request with a body WITHOUT reading that body, the response carrying a Content-Length:
    #     the unread bytes (request lines, blank lines, binary) must not be taken for a further request
    for method in ("POST", "PUT"):
        for version in ("HTTP/1.1", "HTTP/1.0"):
            for body in (b"GET /x HTTP/1.1\r\nHost: y\r\n\r\n", b"a\r\nb\r\n", b"\r\n\r\n", b"x" * 70000, b"\n"):
                for keep in (None, "keep-alive", "close"):
                    i += 1
                    hdrs = ([["Host", "localhost"]] if version == "HTTP/1.1" else []) + ([["Connection", keep]] if keep else [])
                    rq = {"method": method, "target": H.hx("/a"), "version": version, "headers": hdrs, "body": body.hex()}
                    res = {"kind": "ret", "status": 200, "headers": [[H.hx("Content-Length"), H.hx("2")]], "body": "6f6b"}
                    yield H.exchange_case([{"accept": "yes", "result": res, "read_body": False}],
                                          [[rq], [H.liveness_request(i)]], meta={"kind": "unread-request-body"})
    # 2c. a client that stops reading in the middle of a multi-megabyte body and resumes later gets the whole body
    for pause, size in (((6, 12 << 20),) if tier == "quick" else ((6, 12 << 20), (35, 12 << 20), (12, 24 << 20))):
        i += 1
        res = {"kind": "ret", "status": 200, "headers": [[H.hx("Content-Length"), H.hx(str(size))]], "body": None,
               "body_gen": {"len": size, "mul": 7, "add": 3, "off": 0}}
        rq = H.gen_request(rng, method="GET")
        rq["body"] = None
        rq["slow_read"] = {"rcvbuf": 65536, "pause_s": pause}
        yield H.exchange_case([{"accept": "yes", "result": res}], [[rq], [H.liveness_request(i)]],
                              meta={"kind": "slow-reader"})
    # 2d. many connections that are reset before their request head is complete (port scans, health checks, clients
    #     that lose power), then ordinary requests: every one of them is answered
    for k in ((120,) if tier == "quick" else (120, 400)):
        i += 1
        ab = {"raw": b"GET /x HT".hex(), "abort": True, "expect": "any", "is_head": False}
        phases = [[dict(ab) for _ in range(20)] for _ in range(k // 20)]
        phases += [[H.liveness_request(i)], [H.gen_request(rng, method="GET") for _ in range(3)]]
        yield H.exchange_case([{"accept": "yes", "result": dict(H.SMALL_RESULT)}], phases, meta={"kind": "abort-storm"})
    # 3. random combinations
    n = (350 if tier == "quick" else 9000) * mult
    for _ in range(n):
        i += 1
        k = rng.choice([1, 1, 1, 2, 3])
        hs = []
        for _h in range(k - 1):
            hs.append({"accept": rng.choice(["no", "no", {"in": ["/a"]}]), "result": H.gen_result(rng, tier)})
        last = rng.random()
        if last < 0.08:
            hs.append({"accept": "yes", "result": {"kind": "raised"}})
        elif last < 0.12:
            hs.append({"accept": rng.choice(["raise_prepare", "raise_can"]), "result": dict(H.SMALL_RESULT)})
        else:
            big = rng.random() < (0.03 if tier == "quick" else 0.01)
            hs.append({"accept": "yes", "result": H.gen_result(rng, tier, bstyle="big" if big else None)})
        phases = [[H.gen_request(rng)]]
        r = rng.random()
        if r < 0.25:
            phases.append([H.gen_request(rng) for _ in range(rng.choice([2, 3, 5, 8]))])
        if r < 0.4:
            phases.append([H.gen_request(rng)])
        yield H.exchange_case(hs, phases, bind=rng.choice(["::1", "::1", "::", "::ffff:127.0.0.1"]),
                              factory=(i % 9 == 0), meta={"kind": "random"})
