"""C13 — data-tree merging and data-source chaining follow the documented algebra."""
import c13_common as M
from core import Judgement

ID = "C13"
MODULE = "props.c13"
THEOREM_MODULES = ["Vinegar.Theorems.C13"]
THEOREMS = [
    "Vinegar.C13.merge_keys",
    "Vinegar.C13.merge_value_spec",
    "Vinegar.C13.merge_leaf_spec",
    "Vinegar.C13.append_unseen_spec",
    "Vinegar.C13.merge_typeerror_iff",
    "Vinegar.C13.merge_empty_left",
    "Vinegar.C13.merge_empty_right",
    "Vinegar.C13.merge_checked",
    "Vinegar.C13.merge_outcome_checked",
    "Vinegar.C13.composite_foldl",
    "Vinegar.C13.composite_args",
    "Vinegar.C13.composite_checked",
    "Vinegar.C13.composite_find_first",
    "Vinegar.C13.composite_find_checked",
    "Vinegar.C13.aggregate_version_injective",
    "Vinegar.C13.composite_version_injective",
    "Vinegar.C13.composite_version_changes",
    "Vinegar.C13.merge_assoc",
    "Vinegar.C13.merge_assoc_ok_iff",
    "Vinegar.C13.merge_assoc_typeerror_iff",
    "Vinegar.C13.merge_assoc_outcome",
    "Vinegar.C13.merge_assoc_error_site_differs",
    "Vinegar.C13.merge_wf",
    "Vinegar.C13.append_unseen_assoc",
]
TRUSTED_BASE = [
    "Lean 4 kernel; axioms of every listed theorem audited each run to be within {propext, Classical.choice, Quot.sound}",
    "the compiled model driver (Lean compiler) and harness/c13_common.py (value encoding, recording test-double sources, "
    "deep snapshots, generators)",
    "CPython's ==, hashing and isinstance(…, collections.abc.Mapping/Sequence/Set) on the generated value types "
    "(modelled by pyEq / Val.kind and checked differentially only)",
    "hashlib.md5 / mmh3 behind version_for_str, modelled as an injective function H (hypothesis of the version theorems, "
    "never an axiom); H is tabulated from the real version_for_str at the points an observation needs",
]
ASSUMPTIONS = [
    "Non-mutation of the arguments cannot be stated over immutable Lean values; it is checked by the harness only: deep "
    "canonical snapshots of every argument tree (and of every tree handed to or returned by a chained source) before and "
    "after the real call must be equal (clause non_mutation).",
    "Value domain: None, bool, int, str, bytes, finite non-integral float, list, tuple, set, dict with hashable-scalar keys "
    "(set elements: scalars and tuples of scalars). Integral floats (1.0 == 1), NaN, bytearray/memoryview, frozenset, "
    "tuple keys and user-defined Mapping/Sequence/Set classes are outside the model; Mapping classes other than dict are "
    "exercised on the implementation side (OrderedDict, MappingProxyType) and canonicalised to dict.",
    "Exceptions are observed by class name only; the TypeError message (key path) is not part of the property.",
    "Version theorems: H injective and constituent versions free of '|'. Strings carry no lone surrogates "
    "(the MD5 fallback encodes with errors='ignore', which would identify such strings).",
    "Chained sources are harness test doubles (scripted const / raise / echo-preceding-data / system-id behaviours) "
    "subclassing the real DataSource; the composite is built by the real get_composite_data_source.",
    "Associativity (merge_assoc, merge_assoc_ok_iff, merge_assoc_typeerror_iff, merge_assoc_outcome) is proved for all "
    "dictionaries of the value domain (distinct keys at every level — what a Python dict is) and all flag settings: both "
    "bracketings give the same association list (keys, key order, key objects, values, list order) or both raise "
    "TypeError. It uses of == only reflexivity (from well-formedness) and transitivity (pyEq_trans). The identity of the "
    "raise site / the message is NOT preserved (merge_assoc_error_site_differs, replayed as case W-errsite); the harness "
    "compares result or exception CLASS of both bracketings of every generated triple (clause assoc).",
]
RULE = ("merge: exhaustive single-common-key pairs over a 24-value alphabet covering every kind x kind combination "
        "(E1, x 4 flag settings), every pair of ordered <=2-key dicts over keys x/True/1 (E2, key order and bool/int "
        "bridging), the same decision table one level down (E3), thorough: two common keys in opposite order (E4); random "
        "related tree pairs of depth <= 4 beyond; triples (the two theorem witnesses W-errsite / W-bridge, exhaustive T1, "
        "random) run both bracketings, whose result or exception class must coincide; chains of 0-4 "
        "recording sources (const/raise/echo/sysid, random versions incl. '|', one constituent version varied); find_system "
        "exhaustively over all answer sequences of length <= 4 in {None, id, '', raise} plus random; aggregate_version on "
        "random lists. A case is non-trivial if it has a key common to both trees / at least one source / at least one "
        "version; distinct by SHA-1 of the whole case")
BUDGET_S = {"quick": 60, "thorough": 900}
EXHAUSTIVE = {"quick": True, "thorough": True}
ENV = "plain"


def env_of(case):
    return ENV


def worker_setup(env):
    pass


def run_impl(case, env):
    return M.run_case(case)


# ----------------------------------------------------------------------------- generation

def gen(rng, tier, mult=1):
    quick = tier == "quick"
    yield from M.exhaustive_merge_cases(tier)
    yield from M.exhaustive_triple_cases(tier)
    yield from M.exhaustive_find_cases()
    n = (1 if quick else 15) * mult
    for i in range(700 * n):
        yield M.rand_merge_case(rng, big=(i % 5 == 4))
    for _ in range(300 * n):
        yield M.rand_triple_case(rng)
    for _ in range(500 * n):
        yield M.rand_chain_case(rng)
    for c in M.NESTED_FIXED:
        yield dict(c)
    for _ in range(150 * n):
        yield M.rand_nested_case(rng)
    for _ in range(150 * n):
        yield M.rand_find_case(rng)
    for _ in range(150 * n):
        yield M.rand_agg_case(rng)


# ----------------------------------------------------------------------------- model requests

def _merge_req(case, a, b, impl_out):
    return {"op": "c13_merge", "ml": case["ml"], "ms": case["ms"], "a": a, "b": b, "impl": impl_out}


def _bad_obs(obs):
    return (not isinstance(obs, dict)) or "harness_exception" in obs


def _transportable(out):
    """an outcome the driver can parse (a result containing an unmodelled type is reported in judge)"""
    return out is not None and '"t": "other"' not in M.json.dumps(out)


def model_requests(case, obs):
    if _bad_obs(obs):
        return []
    k = case["kind"]
    if k == "nested":
        return []
    if k == "merge":
        out = obs["out"] if _transportable(obs["out"]) else {"exc": "UnmodelledResult"}
        return [_merge_req(case, case["a"], case["b"], out)]
    if k == "merge3":
        reqs = [{"op": "c13_merge3", "ml": case["ml"], "ms": case["ms"], "a": case["a"], "b": case["b"], "c": case["c"]}]
        steps = [("ab", case["a"], case["b"]), ("bc", case["b"], case["c"])]
        if obs["left"] is not None:
            steps.append(("left", obs["ab"]["ok"], case["c"]))
        if obs["right"] is not None:
            steps.append(("right", case["a"], obs["bc"]["ok"]))
        for name, a, b in steps:
            out = obs[name] if _transportable(obs[name]) else {"exc": "UnmodelledResult"}
            reqs.append(_merge_req(case, a, b, out))
        return reqs
    if k == "chain":
        return [{"op": "c13_chain", "ml": case["ml"], "ms": case["ms"], "sid": case["sid"], "d0": case["d0"],
                 "v0": case["v0"], "sources": case["sources"], "htable": obs["htable"],
                 "impl": {"result": obs["result"], "log": obs["log"]}}]
    if k == "find":
        return [{"op": "c13_find", "key": case["key"], "value": case["value"], "sources": case["sources"],
                 "impl": {"result": obs["result"], "log": obs["log"]}}]
    if k == "agg":
        return [{"op": "c13_agg", "versions": case[n], "htable": obs[n]["htable"]}
                for n in ("versions", "versions2") if n in case]
    return []


# ----------------------------------------------------------------------------- judge

MERGE_CLAUSES = ["typeerror_iff", "keys", "values", "lookup", "empty_left", "empty_right", "outcome"]


def _first_false(checks, names):
    for n in names:
        if checks.get(n) is False:
            return n
    return None


def _sep_free(vs):
    return all("|" not in v for v in vs)


def judge(case, obs, resps):
    kind = case["kind"]
    scope = case.get("_meta", {}).get("scope", "-")
    label = f"{kind}/{scope}"
    if _bad_obs(obs):
        return Judgement(case, True, False, {"infrastructure": obs}, kind="infra", nontrivial=False)
    for r in resps:
        if "ok" not in r:
            return Judgement(case, True, False, {"infrastructure": {"driver": r}}, kind="infra", nontrivial=False)
    R = [r["ok"] for r in resps]
    spec_ok, clause, agree, detail = True, None, True, None

    def fail(c, d):
        nonlocal spec_ok, clause, detail
        if spec_ok:
            spec_ok, clause, detail = False, c, d

    def disagree(d):
        nonlocal agree, detail
        if agree and spec_ok:
            detail = d
        agree = False

    def one_merge(name, resp, impl_out, a, b):
        if not resp.get("wf", True):
            disagree({"generator": "ill-formed dict (duplicate keys)", "step": name})
        cm = _first_false(resp["checks_model"], MERGE_CLAUSES)
        if cm:
            disagree({"model_fails_own_checker": cm, "step": name})
        ci = _first_false(resp["checks_impl"], MERGE_CLAUSES)
        if ci:
            fail(ci, {"failed_checker": ci, "step": name, "a": a, "b": b, "impl": impl_out,
                      "model": M.canon_outcome(resp["model"])})
        if M.canon_outcome(resp["model"]) != M.canon_outcome(impl_out):
            disagree({"step": name, "model": M.canon_outcome(resp["model"]), "impl": impl_out})

    nontrivial = True
    if kind == "nested":
        # a composite source IS a data source: nested directly or hidden behind a plain wrapper it must lead to the same
        # result and to the same trees handed to every source (differential on the implementation only: the Lean chain
        # model has no nested sources)
        if obs["direct"] != obs["opaque"]:
            fail("chain", {"nested_composite_not_one_source": True, "direct": obs["direct"], "opaque": obs["opaque"]})
        return Judgement(case, spec_ok, True, detail, kind=label + f"/o{int(case['ml'])}{int(case['ms'])}i{int(case['iml'])}{int(case['ims'])}",
                         nontrivial=(case["ml"], case["ms"]) != (case["iml"], case["ims"]), failed_clause=clause)
    if kind == "merge":
        if obs["mutated"]:
            fail("non_mutation", {"mutated": obs["mutated"], "a": case["a"], "b": case["b"]})
        one_merge("merge", R[0], obs["out"], case["a"], case["b"])
        ka = {M._k(k) for k, _ in case["a"]["v"]}
        nontrivial = any(M._k(k) in ka for k, _ in case["b"]["v"])
        label += "/" + ("exc" if "exc" in obs["out"] else "ok") + f"/ml{int(case['ml'])}ms{int(case['ms'])}"
    elif kind == "merge3":
        if obs["mutated"]:
            fail("non_mutation", {"mutated": obs["mutated"]})
        m3 = R[0]
        if not m3.get("wf", True):
            disagree({"generator": "ill-formed dict (duplicate keys)"})
        i = 1
        one_merge("ab", R[i], obs["ab"], case["a"], case["b"]); i += 1
        one_merge("bc", R[i], obs["bc"], case["b"], case["c"]); i += 1
        if obs["left"] is not None:
            one_merge("left", R[i], obs["left"], obs["ab"]["ok"], case["c"]); i += 1
        if obs["right"] is not None:
            one_merge("right", R[i], obs["right"], case["a"], obs["bc"]["ok"]); i += 1
        error_free = all(obs[n] is not None and "ok" in obs[n] for n in ("ab", "bc", "left", "right"))
        # merge_assoc_outcome: result, or exception class, of merge(merge(a,b),c) and merge(a,merge(b,c)) are the same
        # (an exception of the inner call is the exception of the whole bracketing)
        lo = obs["left"] if obs["left"] is not None else obs["ab"]
        ro = obs["right"] if obs["right"] is not None else obs["bc"]
        if M.canon_outcome(lo) != M.canon_outcome(ro):
            fail("assoc", {"left": lo, "right": ro, "a": case["a"], "b": case["b"], "c": case["c"]})
        if M.canon_outcome(m3["left"]) != M.canon_outcome(m3["right"]):
            disagree({"model_not_associative": {"left": m3["left"], "right": m3["right"]}})
        for n in ("left", "right"):
            if obs[n] is not None and M.canon_outcome(m3[n]) != M.canon_outcome(obs[n]):
                disagree({"step": n + " (model from a,b,c)", "model": M.canon_outcome(m3[n]), "impl": obs[n]})
        label += "/" + ("errorfree" if error_free else "exc")
        if scope.startswith("W-") and "exc" in lo and "exc" in ro:
            msg = obs.get("msg", {})
            label += "/" + ("same-message" if msg.get("left") == msg.get("right") else "different-message")
    elif kind == "chain":
        r = R[0]
        if obs["mutated"]:
            fail("non_mutation", {"mutated": obs["mutated"]})
        if r["checks_model"]["chain"] is False:
            disagree({"model_fails_own_checker": "chain"})
        mres, mlog = M.canon_outcome(r["model"]["result"]), r["model"]["log"]
        ires = M.canon_outcome(obs["result"])
        ilog = obs["log"]
        if r["checks_impl"]["chain"] is False:
            fail("chain", {"failed_checker": "chain", "impl_result": ires, "impl_log": ilog, "model_result": mres,
                           "model_log": mlog})
        cm = [{"sid": e["sid"], "pd": M.canon(e["pd"]), "pv": e["pv"], "out": M.canon_outcome(e["out"])} for e in mlog]
        ci = [{"sid": e["sid"], "pd": M.canon(e["pd"]), "pv": e["pv"], "out": M.canon_outcome(e.get("out"))} for e in ilog]
        if mres != ires or cm != ci:
            disagree({"model_result": mres, "impl_result": ires, "model_log": cm, "impl_log": ci})
        alt = case.get("alt")
        if alt is not None and "alt_result" in obs:
            src = case["sources"][alt["index"]]["get"]
            vs1 = [e["out"]["ok"][1] for e in ilog if "ok" in e.get("out", {})]
            vs2 = obs["alt_versions"]
            if ("ok" in obs["result"] and "ok" in obs["alt_result"] and alt["version"] != src["version"]
                    and _sep_free(vs1) and _sep_free(vs2) and len(vs1) == len(vs2) == len(case["sources"])):
                if obs["result"]["ok"][1] == obs["alt_result"]["ok"][1]:
                    fail("version_changes", {"constituent": alt["index"], "old": src["version"], "new": alt["version"],
                                             "composite_version": obs["result"]["ok"][1]})
        nontrivial = len(case["sources"]) > 0
        label += "/n%d/" % len(case["sources"]) + ("exc" if "exc" in obs["result"] else "ok")
    elif kind == "find":
        r = R[0]
        if r["checks_model"]["find"] is False:
            disagree({"model_fails_own_checker": "find"})
        if r["checks_impl"]["find"] is False:
            fail("find_first", {"failed_checker": "find", "impl_result": obs["result"], "impl_log": obs["log"],
                                "model": r["model"]})
        if r["model"]["result"] != obs["result"] or r["model"]["calls"] != len(obs["log"]):
            disagree({"model": r["model"], "impl_result": obs["result"], "impl_calls": len(obs["log"])})
        nontrivial = len(case["sources"]) > 0
        label += "/n%d" % len(case["sources"])
    elif kind == "agg":
        names = [n for n in ("versions", "versions2") if n in case]
        for n, r in zip(names, R):
            o = obs[n]["out"]
            if o != {"ok": r["model"]}:
                # aggregate_version(vs) must be version_for_str("|".join(vs)): that equation is the spec
                fail("aggregate", {"versions": case[n], "impl": o, "expected": r["model"], "joined": r["joined"]})
        if len(names) == 2 and spec_ok:
            v1, v2 = case["versions"], case["versions2"]
            if v1 != v2 and len(v1) == len(v2) and _sep_free(v1) and _sep_free(v2):
                if obs["versions"]["out"] == obs["versions2"]["out"]:
                    fail("version_changes", {"versions": v1, "versions2": v2, "aggregate": obs["versions"]["out"]})
        nontrivial = len(case["versions"]) > 0
    return Judgement(case, spec_ok, agree, detail, kind=label, nontrivial=nontrivial, failed_clause=clause)


# ----------------------------------------------------------------------------- search support

def shrink(case):
    return M.shrink_case(case)


def neighbours(case, rng):
    return M.neighbours_case(case, rng)


def signature(case, j):
    s = {"clause": j.failed_clause, "kind": case["kind"]}
    if "ml" in case:
        s["ml"], s["ms"] = case["ml"], case["ms"]
    if "sources" in case:
        s["sources"] = len(case["sources"])
    return s
