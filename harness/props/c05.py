"""C05 — client-address restrictions fail closed, leak nothing, deny before any change."""
import copy
import json
import os
import re

import cidr_common as K
from core import Infra, Judgement, LEAN_DIR

ID = "C05"
MODULE = "props.c05"
THEOREM_MODULES = ["Vinegar.Theorems.C05"]
THEOREMS = [
    "Vinegar.C05.byteMask_keeps_top_bits",
    "Vinegar.C05.inSubnet_bits",
    "Vinegar.C05.parse_wellformed",
    "Vinegar.C05.contains_iff",
    "Vinegar.C05.contains_eq_ref",
    "Vinegar.C05.malformed_never_widens",
    "Vinegar.C05.malformed_append",
    "Vinegar.C05.wrong_type_never_widens",
    "Vinegar.C05.combine_entries",
    "Vinegar.C05.permission_none_iff",
    "Vinegar.C05.deny_before_effects",
    "Vinegar.C05.deny_before_effects_sqlite",
    "Vinegar.C05.unauthorised_independent_of_world",
    "Vinegar.C05.unauthorised_sqlite_store_untouched",
    "Vinegar.C05.unauthorised_sqlite_body_irrelevant",
]
TRUSTED_BASE = [
    "Lean 4 kernel; axioms of every theorem audited ⊆ {propext, Classical.choice, Quot.sound}",
    "translator section translate_cidr.py (netmask regex, bounds, comparison operators, default masks, mask "
    "arithmetic literals, IPv4-mapped prefix, action tuples) — pinned by decide-lemmas in Theorems/C05.lean",
    "socket.inet_pton of glibc: abstract in the model (PtonLaw: 4 / 16 result bytes); the harness hands the real results "
    "to the model and cross-checks the decision against an independent oracle built on the ipaddress module",
    "the correspondence harness: recording data source, sandbox tree, audit hook for file opens, template-engine proxy, "
    "SQLite dump before/after, compiled driver",
]
ASSUMPTIONS = [
    "a wrongly typed entry may end in an internal error (TypeError → 500 / TFTP internal error) as long as access is not "
    "widened, nothing is served and the store is untouched (DESIGN.md §7); an empty client_address_list is 'not configured'",
    "when a set contains both a wrongly typed entry and an entry that admits the client, served vs. internal error depends "
    "on the set's iteration order; the property does not constrain it (the client is authorised) and the comparison "
    "accepts either",
    "effect 'store operation' is observed as a change of the dumped SQLite content; every generated update would change it",
    "symlinks, other request methods than GET/HEAD (file) and POST (update), and malformed request bodies are outside this check",
]
RULE = ("three families: (1) _ip_address_in_subnet on one random 4-byte base × every prefix length 0..32 × every single-bit "
        "difference (exhaustive) plus random 16-byte pairs; (2) contains_ip_address on clients (v4, v6, IPv4-mapped in five "
        "notations, scoped, malformed) × collections (list/tuple/set/frozenset/single str) of networks aimed at the client "
        "with prefix lengths from the byte-boundary grid, one bit flipped just inside or just outside the prefix, decoys, "
        "malformed texts that a lenient parser would read as /0 or as the client, wrongly typed members; (3) the same "
        "material through the three real handlers × key/list/both/none × lookup mode × find/get_data results and failures "
        "× both action options × template on/off × file present/missing/directory/untranslatable; a third of them after one or "
        "two earlier requests on the same handler object (same client while the stored data admitted it, another client, "
        "nothing found). non-trivial = restriction "
        "configured (handlers) or ≥ 1 entry (contains); distinct by SHA-1 of the case")
BUDGET_S = {"quick": 60, "thorough": 1200}
ENV = "c05"


def env_of(case):
    return ENV


def worker_setup(env):
    import cidr_adapter
    cidr_adapter.setup()


def run_impl(case, env):
    import cidr_adapter
    return cidr_adapter.run(case)


# --------------------------------------------------------------------------- generator
def _subnet_cases(rng, tier, mult):
    base = bytes(rng.randrange(256) for _ in range(4))
    for bits in range(33):
        for flip in [None] + list(range(32)):
            v = int.from_bytes(base, "big")
            if flip is not None:
                v ^= 1 << (31 - flip)
            yield {"kind": "subnet", "ip": base.hex(), "net": v.to_bytes(4, "big").hex(), "bits": bits,
                   "_meta": {"scope": "exhaustive4"}}
    n = (300 if tier == "quick" else 20000) * mult
    for _ in range(n):
        ln = rng.choice([4, 16, 16, 16, 1, 2])
        ip = bytes(rng.randrange(256) for _ in range(ln))
        v = int.from_bytes(ip, "big")
        bits = rng.randrange(8 * ln + 1)
        r = rng.random()
        if r < 0.6:
            q = rng.choice([max(bits - 1, 0), min(bits, 8 * ln - 1), rng.randrange(8 * ln)])
            v ^= 1 << (8 * ln - 1 - q)
        elif r < 0.8:
            host = 8 * ln - bits
            v = ((v >> host) << host) | (rng.randrange(1 << host) if host else 0)
        yield {"kind": "subnet", "ip": ip.hex(), "net": v.to_bytes(ln, "big").hex(), "bits": bits,
               "_meta": {"scope": "random%d" % ln}}
    if tier != "quick":
        base = bytes(rng.randrange(256) for _ in range(16))
        for bits in range(129):
            for flip in [None] + list(range(128)):
                v = int.from_bytes(base, "big")
                if flip is not None:
                    v ^= 1 << (127 - flip)
                yield {"kind": "subnet", "ip": base.hex(), "net": v.to_bytes(16, "big").hex(), "bits": bits,
                       "_meta": {"scope": "exhaustive16"}}


def _collection(rng, client, kinds):
    coll = rng.choice(kinds)
    if coll == "str":
        reads = K.client_readings(client)
        if reads and rng.random() < 0.7:
            fam, b = rng.choice(reads)
            return coll, [K.S(K.network_for(rng, fam, b))]
        return coll, [K.S(rng.choice(K.V4_POOL + ["0.0.0.0/0", "::/0", "", "/"]))]
    entries = K.rand_entries(rng, client)
    if coll in ("set", "frozenset"):
        entries = K.no_bool_int_clash(K.hashable_only(entries))
    return coll, entries


def _lookalike_cases():
    """IPv6 clients that differ from the IPv4-mapped form of an allowed IPv4 address in ONE place of the 96-bit
    prefix (one byte of the 80 zero bits set, one of the two ff bytes changed), and the usual embeddings that are not
    the mapped form (compatible, translated, 6to4): none of them is the IPv4 address (deterministic, every seed)"""
    import socket as _s
    for v4 in ("192.168.0.7", "10.12.34.56", "0.0.0.1", "255.255.255.255"):
        b4 = _s.inet_pton(_s.AF_INET, v4)
        prefixes = [bytes(10) + b"\xff\xff"]
        for i in range(10):
            for val in (1, 0x80):
                pre = bytearray(bytes(10) + b"\xff\xff")
                pre[i] = val
                prefixes.append(bytes(pre))
        for tail in (b"\xff\xfe", b"\xfe\xff", b"\x00\xff", b"\xff\x00", b"\x00\x00"):
            prefixes.append(bytes(10) + tail)
        prefixes += [bytes(8) + b"\xff\xff\x00\x00", bytes.fromhex("0064ff9b") + bytes(8),
                     bytes.fromhex("20010db8") + bytes(6) + b"\xff\xff", bytes.fromhex("fe80") + bytes(8) + b"\xff\xff"]
        clients = [K.v6_text(pre + b4, style=st) for pre in prefixes for st in (0, 1)]
        clients.append(_s.inet_ntop(_s.AF_INET6, bytes.fromhex("2002") + b4 + bytes(10)))
        for entries in ([K.S(v4)], [K.S(v4 + "/32")], [K.S(".".join(v4.split(".")[:3]) + ".0/24")],
                        [K.S("::ffff:" + v4)], [K.S("::ffff:" + v4 + "/128")], [K.S("::ffff:0.0.0.0/96")]):
            for client in clients:
                yield {"kind": "contains", "coll": "list", "entries": entries, "client": client, "allow_mask": True,
                       "_meta": {"client": "lookalike"}}


def _history_cases():
    """the decision depends on the collection and the client only - not on what the process decided before: an entry
    with a prefix length evaluated earlier must not turn the plain address into that subnet (nor the other way round)"""
    for addr, n, inside, outside in (("10.1.0.1", 16, "10.1.200.9", "10.2.0.1"), ("192.168.0.7", 24, "192.168.0.99", "192.168.1.7"),
                                     ("fd00:1::1", 64, "fd00:1::beef", "fd00:2::1"), ("10.1.0.1", 0, "8.8.8.8", "8.8.4.4"),
                                     ("::ffff:10.1.0.1", 112, "10.1.200.9", "10.2.0.1")):
        masked, plain = K.S("%s/%d" % (addr, n)), K.S(addr)
        for client in (inside, outside, addr):
            for first, then in ((masked, plain), (plain, masked)):
                for prior_client in (client, addr):
                    yield {"kind": "contains", "coll": "list", "entries": [then], "client": client, "allow_mask": True,
                           "prior": [{"entries": [first], "client": prior_client}], "_meta": {"client": "history"}}


def _contains_cases(rng, tier, mult):
    yield from _lookalike_cases()
    yield from _history_cases()
    n = (1100 if tier == "quick" else 30000) * mult
    for _ in range(n):
        client, cls = K.rand_client(rng)
        coll, entries = _collection(rng, client, ["list", "list", "list", "list", "set", "set", "tuple", "frozenset", "str"])
        yield {"kind": "contains", "coll": coll, "entries": entries, "client": client,
               "allow_mask": rng.random() < 0.9, "_meta": {"client": cls}}


def _data_with(rng, key, client):
    """(encoded data dict, description) with something — or nothing — under `key`"""
    parts = key.split(":")
    r = rng.random()
    if r < 0.10:
        value, what = "missing", "missing"
    elif r < 0.30:
        reads = K.client_readings(client)
        if reads and rng.random() < 0.8:
            fam, b = rng.choice(reads)
            value = K.S(K.network_for(rng, fam, b))
        else:
            value = K.S(rng.choice([K.malformed_entry(rng, client), "", "0.0.0.0/0", rng.choice(K.V4_POOL)]))
        what = "str"
    elif r < 0.80:
        kind = rng.choice(["list", "list", "list", "set", "tuple"])
        entries = K.rand_entries(rng, client)
        if kind == "set":
            entries = K.no_bool_int_clash(K.hashable_only(entries))
        value, what = {"l": entries, "k": kind}, kind
    elif r < 0.92:
        value, what = rng.choice([{"i": 5}, {"i": 0}, None, {"b": True}, {"b": False}, {"l": [], "k": "list"},
                                  {"d": []}, {"i": 32}, {"d": [["0.0.0.0/0", K.S("x")], ["::/0", None]]}]), "wrong-type"
    else:
        value, what = "scalar-path", "scalar-path"
    if value == "scalar-path":
        # the key path runs through a value that is no container
        if len(parts) == 1:
            value, what = K.S(K.network_for(rng, 4, bytes(4), member=True)), "str"
        else:
            cut = rng.randrange(1, len(parts))
            cur = rng.choice([K.S("0.0.0.0/0"), {"i": 5}, None, {"l": [K.S("0.0.0.0/0")], "k": "set"}])
            for p in reversed(parts[:cut]):
                cur = {"l": [cur], "k": "list"} if p.isdigit() else {"d": [[p, cur]]}
            return _noise(rng, cur), what
    cur = value
    for i, p in enumerate(reversed(parts)):
        if cur == "missing":
            cur = {"d": [["unrelated", K.S("0.0.0.0/0")]]} if not p.isdigit() else {"l": [], "k": "list"}
            continue
        cur = {"l": [cur], "k": rng.choice(["list", "tuple"])} if p.isdigit() else {"d": [[p, cur]]}
    return _noise(rng, cur), what


def _noise(rng, d):
    if isinstance(d, dict) and "d" in d:
        extra = [["mac", K.S("02:00:00:00:00:01")], ["secret", K.S("hunter2")], ["everyone", K.S("0.0.0.0/0")]]
        d = {"d": d["d"] + [e for e in extra if rng.random() < 0.4 and e[0] not in [k for k, _ in d["d"]]]}
    return d


def _handler_cases(rng, tier, mult):
    n = (1200 if tier == "quick" else 30000) * mult
    for i in range(n):
        handler = ["http", "tftp", "sqlite"][i % 3]
        client, cls = K.rand_client(rng)
        r = rng.random()
        use_key = r < 0.70
        use_list = r >= 0.70 or rng.random() < 0.35
        if rng.random() < 0.06:
            use_key = use_list = False
        key = rng.choice(K.KEY_PATHS) if use_key else None
        cfg = {"key": key, "list": None}
        if use_list:
            coll, entries = _collection(rng, client, ["list", "list", "set", "tuple", "str"])
            entries = K.no_bool_int_clash(K.hashable_only(entries))
            cfg["list"] = {"coll": coll, "entries": entries}
        world = {}
        if handler == "sqlite":
            cfg["action"] = rng.choice(["set_value", "set_value", "delete_data", "delete_value",
                                        "set_text_value_from_request_body", "set_json_value_from_request_body"])
            world["find"] = "found"
            world["file"] = "present"
        else:
            cfg["lookup"] = rng.choice(["find", "find", "find", "system_id"]) if key else rng.choice(["off", "find", "system_id"])
            cfg["ds_action"] = rng.choice(["error", "ignore", "warn"])
            cfg["no_result"] = rng.choice(["continue", "not_found"])
            cfg["template"] = rng.random() < 0.3
            cfg["mode"] = rng.choice(["root_dir", "root_dir", "file"])
            world["find"] = rng.choice(["found"] * 6 + ["not_found"] * 2 + ["raises"] * 2)
            world["file"] = rng.choice(["present"] * 6 + ["missing"] * 2 + ["dir"] + (["no_path"] if cfg["mode"] == "root_dir" else []))
        what = "-"
        if rng.random() < 0.12:
            world["data"] = "raises"
        elif key:
            world["data"], what = _data_with(rng, key, client)
        else:
            world["data"] = _noise(rng, {"d": [["net", {"d": [["ip", K.S("0.0.0.0/0")]]}]]})
        case = {"kind": "handler", "handler": handler, "cfg": cfg, "world": world, "client": client,
                "_meta": {"client": cls, "stored": what}}
        if handler == "http":
            case["method"] = "HEAD" if rng.random() < 0.15 else "GET"
        elif handler == "tftp":
            case["tftp_no_slash"] = rng.random() < 0.5
        else:
            case["method"] = "POST"
            if cfg["action"] == "set_text_value_from_request_body":
                case["body"] = "new-text"
            elif cfg["action"] == "set_json_value_from_request_body":
                case["body"] = '{"v": "new"}'
            if "body" in case and rng.random() < 0.4:
                # a body (or a Content-Length) that cannot be decoded: 400 for a client that may update, and
                # exactly what any other body gives (403 ...) for one that may not
                bad = rng.choice(["utf8", "length"] + (["json", "empty"] if "json" in cfg["action"] else ["utf8"]))
                if bad == "utf8":
                    case["body_hex"] = "fffe2261"
                elif bad == "length":
                    case["content_length"] = rng.choice(["abc", "", "1e3"])
                elif bad == "json":
                    case["body"] = '{"v": '
                else:
                    case["body"] = ""
                case["body_ok"] = False
                case["_meta"]["body"] = "bad-" + bad
        # earlier requests on the same handler object: (a) the same client while the stored data admitted it,
        # (b) another client with the same data, (c) the same client while nothing was found
        if rng.random() < 0.35:
            before = []
            reads = K.client_readings(client)
            for _ in range(rng.choice([1, 1, 2])):
                f = rng.random()
                if f < 0.6 and key and reads:
                    fam, b = rng.choice(reads)
                    cur = K.S(K.network_for(rng, fam, b, member=True))
                    for p in reversed(key.split(":")):
                        cur = {"l": [cur], "k": "list"} if p.isdigit() else {"d": [[p, cur]]}
                    before.append({"client": client, "world": {"find": "found", "file": "present", "data": cur}})
                elif f < 0.85:
                    before.append({"client": K.rand_client(rng)[0], "world": dict(world)})
                else:
                    before.append({"client": client, "world": dict(world, find="not_found")
                                   if handler != "sqlite" else dict(world)})
            case["before"] = before
            case["_meta"]["before"] = len(before)
        yield case


def gen(rng, tier, mult=1):
    streams = [_subnet_cases(rng, tier, mult), _contains_cases(rng, tier, mult), _handler_cases(rng, tier, mult)]
    # interleave so that an exhausted time budget still covers all three families
    alive = list(streams)
    while alive:
        for s in list(alive):
            for _ in range(50):
                try:
                    yield next(s)
                except StopIteration:
                    alive.remove(s)
                    break


# --------------------------------------------------------------------------- model requests
def _strip(case):
    return {k: v for k, v in case.items() if not k.startswith("_")}


def _world_file(st):
    return "missing" if st == "dir" else st


def _impl_effects(case, obs):
    store_ops = 0
    if "db_before" in obs and "db_after" in obs:
        store_ops = 0 if obs["db_before"] == obs["db_after"] else 1
    calls = obs.get("calls", [])
    return {
        "outcome": obs.get("outcome"),
        "find_called": any(c[0] == "find_system" for c in calls),
        "get_data_called": any(c[0] == "get_data" for c in calls),
        # after earlier requests the template engine may serve the template from its cache without opening the file
        "file_touched": bool(obs.get("opens")) or bool(obs.get("leaked_body")) or (
            bool(case.get("before")) and bool(obs.get("renders"))),
        "rendered": bool(obs.get("renders")),
        "store_ops": store_ops,
    }


def model_requests(case, obs):
    k = case["kind"]
    if k == "subnet":
        r = {"op": "cidr.subnet", "ip": case["ip"], "net": case["net"], "bits": case["bits"]}
        if isinstance(obs.get("impl"), bool):
            r["impl"] = obs["impl"]
        return [r]
    if k == "contains":
        cands = K.model_cands(case["coll"], case["entries"])
        texts = [case["client"]] + [c for c in cands if isinstance(c, str)]
        r = {"op": "cidr.contains", "pton": K.pton_table(texts), "allow_mask": case.get("allow_mask", True),
             "cands": cands, "client": case["client"]}
        if obs.get("impl") in ("allowed", "denied", "raised"):
            r["impl"] = obs["impl"]
        return [r]
    cfgc, w = case["cfg"], case["world"]
    lst = cfgc.get("list")
    cands = K.model_cands(lst["coll"], lst["entries"]) if lst else []
    texts = [case["client"]] + [c for c in cands if isinstance(c, str)]
    if w["data"] != "raises":
        K.strings_in(w["data"], texts)
    sp = K.spec_inputs(case)
    texts += sp["entries"]
    r = {"op": "cidr.handle", "handler": "sqlite" if case["handler"] == "sqlite" else "file",
         "pton": K.pton_table(texts), "client": case["client"],
         "cfg": {"lookup": cfgc.get("lookup", "off"), "key": cfgc.get("key") or "", "list": cands,
                 "ds_action": cfgc.get("ds_action", "error"), "no_result": cfgc.get("no_result", "not_found"),
                 "template": bool(cfgc.get("template"))},
         "world": {"find": w["find"], "data": w["data"], "file": _world_file(w["file"])}}
    if case["handler"] == "sqlite":
        r["body_ok"] = bool(case.get("body_ok", True))
    if "outcome" in obs:
        e = _impl_effects(case, obs)
        o = e["outcome"] if e["outcome"] in ("served", "not_found", "forbidden", "ds_error", "internal_error", "bad_request") else "internal_error"
        r["spec"] = sp
        r["obs"] = {"outcome": o, "file_touched": e["file_touched"], "rendered": e["rendered"],
                    "store_ops": e["store_ops"], "ds_failed": bool(obs.get("ds_failed"))}
    return [r]


# --------------------------------------------------------------------------- judge
_PINNED = {"CIDR_NETMASK_REGEXP": "[0-9]+", "CIDR_NETMASK_BOUND_OP_V4": "Gt", "CIDR_NETMASK_MAX_V4": 32,
           "CIDR_NETMASK_BOUND_OP_V6": "Gt", "CIDR_NETMASK_MAX_V6": 128, "CIDR_NETMASK_DEFAULT_V4": 32,
           "CIDR_NETMASK_DEFAULT_V6": 128, "CIDR_NETMASK_SEPARATOR": "/", "CIDR_NETMASK_MAXSPLIT": 1,
           "CIDR_SUBNET_MASK_BASE": 256, "CIDR_SUBNET_MASK_ONE": 1, "CIDR_SUBNET_BYTE_BITS": 8,
           "CIDR_MAPPED_PREFIX": [0] * 10 + [255, 255], "CIDR_MAPPED_V4_TAIL": 4}
_pinned_cache = []


def consts_pinned():
    """are the literals the translator read from the code the ones the oracle is written for?  If the code's
    literals changed, the model follows the code and the ipaddress oracle no longer has to agree with it."""
    if not _pinned_cache:
        try:
            with open(os.path.join(LEAN_DIR, "Vinegar", "Generated", "meta.json")) as f:
                vals = json.load(f).get("values", {})
            _pinned_cache.append(all(vals.get(k) == v for k, v in _PINNED.items()))
        except Exception:
            _pinned_cache.append(False)
    return _pinned_cache[0]


def _infra(case, why, kind="infra"):
    return Judgement(case, True, False, {"infrastructure": why}, kind=kind, nontrivial=False)


def _unordered(case):
    """does the checked collection pass through a Python set (iteration order unspecified)"""
    if case["kind"] == "contains":
        return case["coll"] in ("set", "frozenset")
    cfgc, w = case["cfg"], case["world"]
    if K.list_collection(cfgc):
        return True
    key = cfgc.get("key")
    if key and w["data"] != "raises":
        st, v = K._walk(K.dec(w["data"]), key)
        return st == "found" and isinstance(v, (set, frozenset, dict))
    return False


def judge(case, obs, resps):
    meta = case.get("_meta", {})
    k = case["kind"]
    if "harness_exception" in obs:
        return _infra(case, obs["harness_exception"] + " " + obs.get("traceback", "")[-300:])
    if "config_error" in obs:
        return _infra(case, "generated configuration rejected by the constructor: " + obs["config_error"])
    resp = resps[0]
    if "err" in resp:
        return _infra(case, "driver: " + resp["err"])
    m = resp["ok"]

    if k == "subnet":
        kind = "subnet/%s" % meta.get("scope", "-")
        ip, net, bits = bytes.fromhex(case["ip"]), bytes.fromhex(case["net"]), case["bits"]
        sh = 8 * len(ip) - bits
        oracle = (int.from_bytes(ip, "big") >> sh) == (int.from_bytes(net, "big") >> sh)
        if m["ref"] != oracle or (consts_pinned() and m["model"] != oracle):
            raise Infra(f"C05 oracle disagreement (subnet): lean ref {m['ref']} model {m['model']} python {oracle} on {case}")
        impl = obs.get("impl")
        if impl == "absent":
            return Judgement(case, True, True, None, kind=kind + "/absent", nontrivial=False)
        spec_ok = m.get("sound_impl", impl == "raised")
        agree = impl == m["model"]
        detail = None if (spec_ok and agree) else {"impl": impl, "exc": obs.get("exc"), "model": m["model"], "ref": m["ref"]}
        return Judgement(case, spec_ok, agree, detail, kind=kind, nontrivial=True,
                         failed_clause=None if spec_ok else "subnet-widens")

    if k == "contains":
        kind = "contains/%s/%s/%s" % (case["coll"], meta.get("client", "-"), m["model"])
        strs = [c for c in K.model_cands(case["coll"], case["entries"]) if isinstance(c, str)]
        oracle = K.oracle_contains(strs, case["client"], case.get("allow_mask", True))
        if consts_pinned() and (m["ref"] != oracle or m["model_strings_only"] != oracle):
            raise Infra(f"C05 oracle disagreement (contains): lean ref {m['ref']} model {m['model_strings_only']} "
                        f"ipaddress {oracle} on {case}")
        impl = obs.get("impl")
        spec_ok = bool(m.get("sound_impl", True))
        agree = impl == m["model"]
        if not agree and _unordered(case) and m["bad_exists"] and m["ref"] and {impl, m["model"]} <= {"allowed", "raised"}:
            agree = True            # set order decides between the admitting and the wrongly typed member
        if not m["sound_model"]:
            return Judgement(case, spec_ok, False, {"model_fails_own_checker": "containsSound"}, kind=kind)
        detail = None if (spec_ok and agree) else {"impl": impl, "exc": obs.get("exc"), "model": m["model"],
                                                   "ref": m["ref"], "order": obs.get("order")}
        return Judgement(case, spec_ok, agree, detail, kind=kind, nontrivial=len(case["entries"]) > 0,
                         failed_clause=None if spec_ok else "contains-widens")

    # handler
    e = _impl_effects(case, obs)
    auth = "auth" if m["authorised"] else "unauth"
    kind = "handler/%s/%s/%s" % (case["handler"], m["outcome"], auth if m["restricted"] else "open")
    sp = K.spec_inputs(case)
    if consts_pinned() and sp["restricted"] and "authorised_spec" in m:
        oracle = K.oracle_contains(sp["entries"], case["client"])
        if oracle != m["authorised_spec"]:
            raise Infra(f"C05 oracle disagreement (handler): lean {m['authorised_spec']} ipaddress {oracle} on {case}")
    if not m["ok_model"] or not m["uniform_model"]:
        return Judgement(case, True, False, {"model_fails_own_checker": "effectsOK", "model": m}, kind=kind)
    spec_ok = bool(m.get("ok_impl", True)) and bool(m.get("uniform_impl", True))
    clause = None
    if not spec_ok:
        clause = "effects" if not m.get("ok_impl", True) else "uniform-denial"
    me = m["effects"]
    proj_m = {"outcome": m["outcome"], "find_called": me["find_called"], "get_data_called": me["get_data_called"],
              "file_touched": me["file_touched"], "rendered": me["rendered"], "store_ops": me["store_ops"]}
    agree = proj_m == e and bool(m.get("entries_agree", False))
    if (not agree and m.get("entries_agree") and _unordered(case) and m["has_bad"] and m["authorised"]
            and m["expected"]["kind"] == "cands"
            and e["find_called"] == me["find_called"] and e["get_data_called"] == me["get_data_called"]):
        # authorised client, set containing a wrongly typed member: iteration order decides served vs. error
        agree = True
    if agree and e["outcome"] == "served" and obs.get("body_expected") is False:
        agree = False
    detail = None
    if not (spec_ok and agree):
        detail = {"impl": e, "model": proj_m, "exc": obs.get("exc"), "status": obs.get("status"),
                  "tftp_error": obs.get("tftp_error"), "opens": obs.get("opens"), "calls": obs.get("calls"),
                  "authorised": m.get("authorised_spec"), "entries": sp["entries"], "has_bad": sp["has_bad"],
                  "entries_agree": m.get("entries_agree"), "expected_model": m["expected"],
                  "body_expected": obs.get("body_expected")}
    return Judgement(case, spec_ok, agree, detail, kind=kind, nontrivial=bool(m["restricted"]), failed_clause=clause)


# --------------------------------------------------------------------------- shrink / neighbours / signature
def _without(lst, i):
    return lst[:i] + lst[i + 1:]


def _key_value_slot(case):
    """(container, index) of the encoded value stored under the key, if it is a sequence"""
    cfgc, w = case["cfg"], case["world"]
    key = cfgc.get("key")
    if not key or w["data"] == "raises":
        return None
    cur = w["data"]
    for p in key.split(":"):
        if isinstance(cur, dict) and "d" in cur:
            nxt = [v for kk, v in cur["d"] if kk == p]
            if not nxt:
                return None
            cur = nxt[0]
        elif isinstance(cur, dict) and "l" in cur and p.isdigit() and int(p) < len(cur["l"]):
            cur = cur["l"][int(p)]
        else:
            return None
    return cur if isinstance(cur, dict) and "l" in cur else None


def shrink(case):
    c0 = _strip(case)
    if c0["kind"] == "contains":
        if c0["coll"] != "str":
            for i in range(len(c0["entries"])):
                c = copy.deepcopy(c0)
                c["entries"] = _without(c["entries"], i)
                yield c
            if c0["coll"] != "list" and all(isinstance(e, dict) and "s" in e for e in c0["entries"]):
                c = copy.deepcopy(c0)
                c["coll"] = "list"
                yield c
        return
    if c0["kind"] != "handler":
        return
    if c0.get("before"):
        c = copy.deepcopy(c0)
        del c["before"]
        yield c
        for i in range(len(c0["before"])):
            if len(c0["before"]) > 1:
                c = copy.deepcopy(c0)
                c["before"] = _without(c["before"], i)
                yield c
    lst = c0["cfg"].get("list")
    if lst and lst["coll"] != "str":
        for i in range(len(lst["entries"])):
            c = copy.deepcopy(c0)
            c["cfg"]["list"]["entries"] = _without(lst["entries"], i)
            if not c["cfg"]["list"]["entries"]:
                c["cfg"]["list"] = None
            yield c
    if lst and c0["cfg"].get("key"):
        c = copy.deepcopy(c0)
        c["cfg"]["list"] = None
        yield c
    slot = _key_value_slot(c0)
    if slot is not None:
        for i in range(len(slot["l"])):
            c = copy.deepcopy(c0)
            s = _key_value_slot(c)
            s["l"] = _without(s["l"], i)
            yield c
    if c0["cfg"].get("template"):
        c = copy.deepcopy(c0)
        c["cfg"]["template"] = False
        yield c
    if c0.get("method") == "HEAD":
        c = copy.deepcopy(c0)
        c["method"] = "GET"
        yield c
    if c0.get("tftp_no_slash"):
        c = copy.deepcopy(c0)
        c["tftp_no_slash"] = False
        yield c
    if c0["handler"] != "sqlite" and c0["cfg"].get("ds_action") != "error":
        c = copy.deepcopy(c0)
        c["cfg"]["ds_action"] = "error"
        yield c


_MASK = re.compile(r"/(\d{1,3})$")


def _vary_text(t, rng):
    out = []
    mm = _MASK.search(t)
    if mm:
        p = int(mm.group(1))
        for q in {max(p - 1, 0), p + 1, (p // 8) * 8, (p // 8) * 8 + 7}:
            out.append(t[:mm.start()] + "/%d" % q)
    return out


def _vary_value(v, rng, out):
    if isinstance(v, dict) and "s" in v:
        for t in _vary_text(v["s"], rng):
            out.append((v, t))
    elif isinstance(v, dict) and "l" in v:
        for x in v["l"]:
            _vary_value(x, rng, out)
    elif isinstance(v, dict) and "d" in v:
        for _, x in v["d"]:
            _vary_value(x, rng, out)


def neighbours(case, rng):
    c0 = _strip(case)
    if c0["kind"] == "subnet":
        n = len(c0["ip"]) // 2
        for b in range(8 * n + 1):
            c = dict(c0)
            c["bits"] = b
            yield c
        return
    # other clients against the same entries
    clients = []
    for fam, b in K.client_readings(c0["client"]):
        for q in range(0, 8 * len(b), max(1, len(b) // 4)):
            v = int.from_bytes(b, "big") ^ (1 << q)
            nb = v.to_bytes(len(b), "big")
            clients.append(K.v4_text(nb) if fam == 4 else K.v6_text(nb, rng))
    clients += [K.rand_client(rng)[0] for _ in range(10)]
    for cl in clients[:40]:
        c = copy.deepcopy(c0)
        c["client"] = cl
        yield c
    # prefix lengths ±1 / to the byte boundary, one entry at a time
    slots = []
    probe = copy.deepcopy(c0)
    roots = probe["entries"] if probe["kind"] == "contains" else (
        (probe["cfg"]["list"]["entries"] if probe["cfg"].get("list") else []) +
        ([probe["world"]["data"]] if probe["world"]["data"] != "raises" else []))
    for r in roots:
        _vary_value(r, rng, slots)
    for idx in range(len(slots)):
        c = copy.deepcopy(c0)
        roots2 = c["entries"] if c["kind"] == "contains" else (
            (c["cfg"]["list"]["entries"] if c["cfg"].get("list") else []) +
            ([c["world"]["data"]] if c["world"]["data"] != "raises" else []))
        s2 = []
        for r in roots2:
            _vary_value(r, rng, s2)
        node, text = s2[idx]
        node["s"] = text
        yield c


def signature(case, j):
    s = {"kind": case["kind"], "clause": j.failed_clause}
    if case["kind"] == "handler":
        s["handler"] = case["handler"]
        d = j.detail or {}
        s["impl_outcome"] = (d.get("impl") or {}).get("outcome")
    elif case["kind"] == "contains":
        s["coll"] = case["coll"]
        s["entries"] = len(case["entries"])
    return s
