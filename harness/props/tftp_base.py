"""
Common implementation of the TFTP property modules. A property module sets:
  ID, REQUIRED (names of Lean spec checkers that must accept the implementation's trace),
  PROJECT (projection of the trace that model and implementation must agree on),
  gen(rng, tier, mult)
and re-exports the functions below.
"""
import tftp_common as T
from core import Judgement

MODULE = None  # set by the property module


def env_of(case):
    return T.ENV


def worker_setup(env):
    import tftp_adapter
    tftp_adapter.setup()


def run_impl(case, env):
    import tftp_adapter
    obs = tftp_adapter.run_session(case)
    if case.get("twin_script") is not None and not case.get("more") and "harness_exception" not in obs:
        # the same request against the script from which the foreign datagrams were removed
        twin = {k: v for k, v in case.items() if k != "twin_script"}
        twin["script"] = case["twin_script"]
        o2 = tftp_adapter.run_session(twin)
        if "harness_exception" in o2:
            return o2
        obs["twin_transfers"] = o2.get("transfers", [])
    return obs


def parts_of(case, obs):
    """a session with several datagrams is judged datagram by datagram"""
    if not case.get("more") or "parts" not in obs:
        return [(case, obs)]
    base = {k: v for k, v in case.items() if k not in ("more",)}
    subs = [dict(base)] + [dict(base, datagram=m["datagram"], script=m.get("script", [])) for m in case["more"]]
    return list(zip(subs, obs["parts"]))


def model_requests(case, obs):
    reqs = []
    for c, o in parts_of(case, obs):
        if o.get("runaway"):
            o = {k: v for k, v in o.items() if k != "transfers"}   # an endless trace is not sent to the driver
        reqs.append(T.model_request(T.strip_meta(c), o))
    return reqs


def make_judge(required, project, need_request_port=True, extra=None, nontrivial_port=False):
    def judge(case, obs, resps):
        if obs.get("port_dead") and need_request_port:
            # the thread that serves the request port ended although nobody stopped the server: it does not keep
            # serving (C09), requests are no longer dispatched (C10), the server is neither running nor stopped (C20)
            return Judgement(case, False, True, {"request_port_thread_ended": True, "exc": obs.get("exc"),
                                                  "calls": obs.get("calls")},
                             kind="port-dead/" + case.get("_meta", {}).get("style", "-"), nontrivial=True,
                             failed_clause="request_port_thread_ended")
        if case.get("more") and "parts" in obs:
            js = [judge1(c, o, [r]) for (c, o), r in zip(parts_of(case, obs), resps)]
            bad = [j for j in js if not j.spec_ok] or [j for j in js if not j.agree]
            j = bad[0] if bad else js[0]
            j.case = case
            j.kind = "multi/" + j.kind
            j.nontrivial = any(x.nontrivial for x in js)
            return j
        return judge1(case, obs, resps)

    def judge1(case, obs, resps):
        v = T.SessionView(case, obs, resps[0])
        meta = case.get("_meta", {})
        kind = f"{v.kind}/{meta.get('style', '-')}/{meta.get('handler', '-')}"
        if obs.get("runaway"):
            # the transfer never ends (stopped by the simulation after far more receive opportunities than any
            # transfer may use): violates "always ends" (C02) and "every transfer ends its thread" (C20)
            return Judgement(case, False, False, {"runaway": True, "impl_trace_tail": (obs.get("transfers") or [[]])[0][-12:]},
                             kind=kind, nontrivial=True, failed_clause="transfer_never_ends")
        if v.infra:
            # harness trouble is reported as a mismatch with the reason, never as a spec failure
            return Judgement(case, True, False, {"infrastructure": v.infra}, kind="infra", nontrivial=False)
        ok_port, port_detail = v.request_port_agrees()
        spec_ok, clause = True, None
        agree, detail = True, None
        if need_request_port and not ok_port:
            agree, detail = False, {"request_port": port_detail}
        if need_request_port and not ok_port and v.kind in ("transfer", "error") and \
                not port_detail["impl_main_sends"] and not port_detail["impl_transfers"]:
            # a request that must be answered (by a transfer or an ERROR) got nothing at all: the request port has
            # stopped serving (or dropped the request)
            spec_ok, clause = False, "request_unanswered"
            detail = {"failed_checker": "request_unanswered", "request_port": port_detail}
        if need_request_port and "reqport" in required and v.m.get("reqport_impl") is False:
            spec_ok, clause = False, "reqport"
            detail = {"failed_checker": "reqport", "request_port": port_detail}
        if v.kind == "transfer" and v.impl_trace is not None:
            ci = v.checks_impl
            for r in required:
                if spec_ok and r in ci and not ci[r]:
                    spec_ok, clause = False, r
                    break
            if extra is not None and spec_ok:
                e = extra(v)
                if e:
                    spec_ok, clause = False, e
            tw = v.m.get("twin")
            if tw and "c09" in required:
                kind += "/twin" if tw["applicable"] else "/twin-not-applicable"
            if tw and tw["applicable"] and "c09" in required:
                if spec_ok and not tw["impl_view_equal"]:
                    # the client's view differs from the run without the foreign datagrams
                    spec_ok, clause = False, "foreign_interference"
                if not tw["model_view_equal"]:
                    agree = False
            pm, pi = project(v.model_trace), project(v.impl_trace)
            if pm != pi:
                agree = False
                d = T.first_diff(pm, pi) if isinstance(pm, list) else {"model": pm, "impl": pi}
                detail = {"projection_diff": d}
            if not spec_ok and clause != "reqport":
                detail = {"failed_checker": clause, "impl_trace_head": v.impl_trace[:40],
                          "model_trace_head": (v.model_trace or [])[:40], "neg": v.m.get("neg")}
            # model must satisfy its own checkers (theorem instance; a failure is a harness/model bug)
            for r in required:
                if r in v.checks_model and not v.checks_model[r]:
                    agree = False
                    detail = {"model_fails_own_checker": r}
        elif v.kind == "transfer":
            agree, detail = False, {"request_port": port_detail}
        nontrivial = (v.kind == "transfer" and len(v.impl_trace or []) > 3) or (
            nontrivial_port and v.kind is not None and len(case["datagram"]) >= 4)
        return Judgement(case, spec_ok, agree, detail, kind=kind, nontrivial=nontrivial, failed_clause=clause)
    return judge


def shrink(case):
    return T.shrink_session(case)


def neighbours(case, rng):
    return T.neighbours_session(case, rng)


def signature(case, j):
    """coarse description of a (minimised) failing case, matched against KNOWN_FINDINGS"""
    s = {"clause": j.failed_clause}
    dg = bytes.fromhex(case["datagram"])
    s["opcode"] = dg[:2].hex()
    hs = case.get("handlers") or [{}]
    s["handler"] = (hs[0].get("result") or {}).get("kind")
    return s
