"""C16 — address normalisation transforms are canonical, idempotent and total.

One case = one call of one real transform function with one option combination
("single"), or the same normalisation applied to two strings ("pair", canonicity).
The Lean driver (ops `addr`, `addr_pair`) returns the model's result, the value the input
denotes, and the verdict of every spec clause on BOTH the model's and the
implementation's observation.  `ipaddress` (stdlib) is a second, independent oracle for
well-formedness, denoted value and expected result; if it disagrees with the Lean model
that is a harness error (exit 2), never a violation.
"""
import ipaddress
import string

import core
from core import Judgement

ID = "C16"
MODULE = "props.c16"
THEOREM_MODULES = ["Vinegar.Theorems.C16"]
_T = "Vinegar.C16."
THEOREMS = [_T + n for n in [
    # IPv4
    "normalize_idem_v4", "normalize_canonical_v4", "malformed_unchanged_v4",
    "raise_flag_valueerror_only_v4", "net_broadcast_strip_spec_v4",
    # MAC
    "normalize_idem_mac", "normalize_canonical_mac", "malformed_unchanged_mac",
    "raise_flag_valueerror_only_mac", "mac_output_form",
    # IPv6 under InetLaw
    "normalize_idem_v6", "normalize_canonical_v6", "malformed_unchanged_v6",
    "raise_flag_valueerror_only_v6", "net_broadcast_strip_spec_v6",
    # generic
    "generic_mapped_to_v4", "normalize_idem_ip", "normalize_canonical_ip", "malformed_unchanged_ip",
    "raise_flag_valueerror_only_ip", "net_broadcast_strip_spec_ip",
    # the law is satisfiable; checkers reject the known-bad behaviour
    "inetLaw_satisfiable",
    # the port of glibc's inet_pton6/inet_ntop6 that the driver runs satisfies InetLaw (all 2^128 addresses,
    # all strings); the _v6/_ip theorems instantiated with it, without hypothesis
    "glibc_roundtrip", "glibc_inetLaw",
    "normalize_idem_v6_concrete", "normalize_canonical_v6_concrete", "net_broadcast_strip_spec_v6_concrete",
    "generic_mapped_to_v4_concrete", "normalize_idem_ip_concrete", "normalize_canonical_ip_concrete",
    "malformed_unchanged_ip_concrete", "net_broadcast_strip_spec_ip_concrete",
]]
TRUSTED_BASE = [
    "Lean 4 kernel; axioms of every listed theorem audited ⊆ {propext, Classical.choice, Quot.sound}",
    "harness/translate.py + translate_addr.py (regex literals, option tuples, range constants → Vinegar.Generated)",
    "hand-written recognisers of the two regular expressions (tied to the generated literals by decide-lemmas, "
    "validated against `re` by the correspondence)",
    "glibc inet_pton/inet_ntop (AF_INET6): trusted only to COMPUTE what the Lean port (Vinegar.Addr.Glibc) computes — "
    "every case compares the port with the real socket.inet_pton/ntop on all strings involved; that the port "
    "satisfies InetLaw (round trip for all 2^128 addresses, 16 bytes, ':' present and '/' absent in parsed text) "
    "is proved (glibc_roundtrip, glibc_inetLaw), no longer assumed",
    "CPython int()/str()/format of small integers, str.partition/split (modelled concretely, validated differentially)",
    "the compiled Lean driver and this correspondence harness; stdlib ipaddress as second oracle",
]
ASSUMPTIONS = [
    "inputs are Python str objects without lone surrogates (Lean `Char` = Unicode scalar values)",
    "int() refuses more than sys.int_info.default_max_str_digits (4300) digits with ValueError; the model "
    "treats such octets/masks as malformed like the code does",
    "the model describes the REPAIRED tree: D12 (IPv6 mask gated by ASCII digits) and D16 (ipv6_address_unwrap "
    "treats the ValueError of an embedded NUL like OSError)",
    "IPv4-mapped text with a mask (`::ffff:1.2.3.4/24`) is not unwrapped by the generic transform (a /24 of the "
    "128-bit address is not a /24 of the IPv4 address); it is normalised as IPv6",
    "strip_mask results are compared with ipaddress as parsed addresses (DESIGN §7), net/broadcast also as text",
]
RULE = ("strings = textual variants (leading zeros, case, every zero-compression position, embedded IPv4, both MAC "
        "delimiters, one/two-digit MAC bytes, mask forms incl. +64, ' 64', 6_4, non-ASCII digits, trailing newline, "
        "empty, out of range) of boundary and random addresses + random mutations of valid strings; each string is "
        "run through every function of its family with raise_error_if_malformed in {False, True} (MAC: every "
        "case/delimiter option incl. invalid ones); pairs = two variants of one address or of two addresses that "
        "differ in one bit / the mask. A case is non-trivial if its string is non-empty; distinct by SHA-1 of the case")
BUDGET_S = {"quick": 60, "thorough": 900}
ENV = "addr"

FNS = {"v4": ["normalize", "net", "bcast", "strip"], "v6": ["normalize", "net", "strip"],
       "ip": ["normalize", "net", "strip"], "mac": ["normalize"]}
MAC_CASES = ["upper", "lower"]
MAC_DELIMS = [":", "colon", "-", "dash", "minus"]
BAD_CASES = ["Upper", "", "UPPER", "title"]
BAD_DELIMS = ["_", "", "::", ".", "Colon", " "]
MAPPED = bytes(10) + b"\xff\xff"


# =========================================================================== implementation side
def env_of(case):
    return ENV


def worker_setup(env):
    pass


def _res(f, *a, **k):
    try:
        r = f(*a, **k)
    except ValueError:
        return "ValueError"
    except Exception as e:  # any other exception class is what the property forbids
        return "crash:" + type(e).__name__
    if not isinstance(r, str):
        return "crash:returned " + type(r).__name__
    return {"ok": r}


def _impl_fn(case):
    from vinegar.transform import ip_address, ipv4_address, ipv6_address, mac_address
    fam, fn = case["fam"], case["fn"]
    if fam == "mac":
        return lambda s: _res(mac_address.normalize, s, target_case=case["case"], delimiter=case["delim"],
                              raise_error_if_malformed=case["raise"])
    mod = {"v4": ipv4_address, "v6": ipv6_address, "ip": ip_address}[fam]
    f = {"normalize": "normalize", "net": "net_address", "bcast": "broadcast_address", "strip": "strip_mask"}[fn]
    g = getattr(mod, f)
    return lambda s: _res(g, s, case["raise"])


def _inet_tables(strings):
    """what the real glibc answers for every string involved (and the text before a slash)"""
    import socket
    seen, pton, ntop, bseen = set(), [], [], set()
    for s in strings:
        for x in (s, s.split("/", 1)[0]):
            if x in seen:
                continue
            seen.add(x)
            try:
                b = socket.inet_pton(socket.AF_INET6, x)
            except (OSError, ValueError):
                b = None
            pton.append([x, None if b is None else b.hex()])
            if b is not None and b not in bseen:
                bseen.add(b)
                ntop.append([b.hex(), socket.inet_ntop(socket.AF_INET6, b)])
    return pton, ntop


def run_impl(case, env):
    f = _impl_fn(case)
    obs = {}
    strings = [case["s"]]
    out = f(case["s"])
    obs["out"] = out
    if isinstance(out, dict):
        strings.append(out["ok"])
    if case["kind"] == "pair":
        out_t = f(case["t"])
        obs["out_t"] = out_t
        strings.append(case["t"])
        if isinstance(out_t, dict):
            strings.append(out_t["ok"])
    elif case["fn"] == "normalize" and isinstance(out, dict):
        again = f(out["ok"])
        obs["again"] = again
        if isinstance(again, dict):
            strings.append(again["ok"])
    if case["fam"] != "mac":
        # a transform is a function of its input: the other transforms of the module are applied to the same string and
        # the first call is repeated - the answer must not depend on what was computed before
        from vinegar.transform import ip_address, ipv4_address, ipv6_address
        mod = {"v4": ipv4_address, "v6": ipv6_address, "ip": ip_address}[case["fam"]]
        for other in ("net_address", "broadcast_address", "strip_mask", "normalize"):
            g = getattr(mod, other, None)
            if g is not None:
                _res(g, case["s"], False)
        obs["out_repeated"] = f(case["s"])
    if case["fam"] in ("v6", "ip"):
        obs["pton"], obs["ntop"] = _inet_tables(strings)
    return obs


# =========================================================================== driver requests
def _cp(s):
    return [ord(c) for c in s]


def _uncp(a):
    return "".join(chr(x) for x in a)


def _jres(r):
    if isinstance(r, dict):
        return {"ok": _cp(r["ok"])}
    if r == "ValueError":
        return "ValueError"
    return "crash"


def model_requests(case, obs):
    if not isinstance(obs, dict) or "harness_exception" in obs:
        return [{"op": "addr", "fam": "v4", "fn": "normalize", "s": [], "raise": False,
                 "impl_out": "crash", "impl_again": None}]
    req = {"fam": case["fam"], "fn": case["fn"], "s": _cp(case["s"]), "raise": case["raise"]}
    if case["fam"] == "mac":
        req["case"] = _cp(case["case"])
        req["delim"] = _cp(case["delim"])
    if "pton" in obs:
        req["pton"] = [[_cp(s), h] for s, h in obs["pton"]]
        req["ntop"] = [[h, _cp(s)] for h, s in obs["ntop"]]
    if case["kind"] == "pair":
        req.update(op="addr_pair", t=_cp(case["t"]), impl_s=_jres(obs["out"]), impl_t=_jres(obs["out_t"]))
    else:
        req.update(op="addr", impl_out=_jres(obs["out"]),
                   impl_again=_jres(obs["again"]) if "again" in obs else None)
    return [req]


# =========================================================================== second oracle
def _ascii_digits(p):
    return p != "" and p.isascii() and p.isdigit() and len(p) <= 4300


def o2_v4(s):
    """value denoted by an IPv4 string according to ipaddress (leading zeros stripped first, because the
    pinned tests demand that they are accepted): ('v4', a, b, c, d, mask) or None"""
    head, sep, m = s.partition("/")
    parts = head.split(".")
    if len(parts) != 4 or not all(_ascii_digits(p) for p in parts):
        return None
    try:
        a = ipaddress.IPv4Address(".".join(p.lstrip("0") or "0" for p in parts))
    except ValueError:
        return None
    mask = None
    if sep:
        if not _ascii_digits(m):
            return None
        try:
            mask = ipaddress.IPv4Network((int(a), int(m)), strict=False).prefixlen
        except ValueError:
            return None
    return ("v4",) + tuple(a.packed) + (mask,)


def o2_v6(s):
    head, sep, m = s.partition("/")
    if "%" in head:          # ipaddress knows scope ids, inet_pton does not
        return None
    try:
        a = ipaddress.IPv6Address(head)
    except ValueError:
        return None
    mask = None
    if sep:
        if not _ascii_digits(m):
            return None
        try:
            mask = ipaddress.IPv6Network((int(a), int(m)), strict=False).prefixlen
        except ValueError:
            return None
    return ("v6", a.packed.hex(), mask)


def o2_mac(s):
    for dl in ":-":
        parts = s.split(dl)
        if len(parts) == 6 and all(1 <= len(p) <= 2 and all(c in string.hexdigits for c in p) for p in parts):
            return ("mac",) + tuple(int(p, 16) for p in parts)
    return None


def o2_value(fam, fn, s):
    if fam == "v4":
        return o2_v4(s)
    if fam == "v6":
        return o2_v6(s)
    if fam == "mac":
        return o2_mac(s)
    v = o2_v4(s)
    if v is not None:
        return v
    v = o2_v6(s)
    if v is not None and fn == "normalize" and v[2] is None:
        b = bytes.fromhex(v[1])
        if b.startswith(MAPPED):
            return ("v4",) + tuple(b[12:]) + (None,)
    return v


def o2_expected(case, val):
    """(well-formed for this function, expected result as (value, text or None)) according to ipaddress"""
    fn = case["fn"]
    if val is None:
        return False, None
    if val[0] == "mac":
        up = case["case"] == "upper"
        dl = ":" if case["delim"] in (":", "colon") else "-"
        return True, (val, dl.join(("%02X" if up else "%02x") % b for b in val[1:]))
    mask = val[-1]
    if val[0] == "v4":
        a = ipaddress.IPv4Address(bytes(val[1:5]))
        mk = lambda x, m: ("v4",) + tuple(x.packed) + (m,)
    else:
        a = ipaddress.IPv6Address(bytes.fromhex(val[1]))
        mk = lambda x, m: ("v6", x.packed.hex(), m)
    if fn == "normalize":
        txt = None
        if val[0] == "v4":
            txt = str(a) + ("" if mask is None else f"/{mask}")
        return True, (mk(a, mask), txt)
    if fn == "strip":
        return True, (mk(a, None), None)
    if mask is None:
        return False, None
    net = (ipaddress.IPv6Network if val[0] == "v6" else ipaddress.IPv4Network)((int(a), mask), strict=False)
    if fn == "net":
        x = net.network_address
        # glibc prints ::ffff:a.b.c.d and ::a.b.c.d with a dotted tail, ipaddress does not: compare those as values
        dotted = val[0] == "v6" and (int(x) >> 32 == 0xffff or (int(x) >> 32 == 0 and int(x) > 0xffff))
        txt = None if dotted else f"{x}/{mask}"
        return True, (mk(x, mask), txt)
    return True, (mk(net.broadcast_address, None), str(net.broadcast_address))


def _parsed_tuple(j):
    return None if j is None else tuple(j)


# =========================================================================== judge
class OracleDisagreement(core.Infra):
    def __init__(self, msg):
        super().__init__(msg if len(msg) < 700 else msg[:340] + " ... " + msg[-340:])


def _first_false(d):
    for k in sorted(d):
        if not d[k]:
            return k
    return None


def judge(case, obs, resps):
    meta = case.get("_meta", {})
    r = resps[0]
    fam, fn = case["fam"], case["fn"]
    kind0 = f"{fam}.{fn}" + ("/pair" if case["kind"] == "pair" else "")
    if not isinstance(obs, dict) or "harness_exception" in obs:
        return Judgement(case, True, False, {"infrastructure": obs}, kind="infra", nontrivial=False)
    if "err" in r:
        return Judgement(case, True, False, {"infrastructure": "driver: " + r["err"]}, kind="infra", nontrivial=False)
    m = r["ok"]
    if m.get("inet_bad"):
        return Judgement(case, True, False, {"glibc_port_differs_from_socket_module": m["inet_bad"]},
                         kind=kind0 + "/inet-port", nontrivial=False)
    if "out_repeated" in obs and obs["out_repeated"] != obs["out"]:
        return Judgement(case, False, False, {"first": obs["out"], "after_the_other_transforms": obs["out_repeated"],
                                              "input": case["s"]}, kind=kind0 + "/history", nontrivial=True,
                         failed_clause="answer-depends-on-earlier-calls")
    if case["kind"] == "pair":
        return _judge_pair(case, obs, m, kind0, meta)
    # ---- second oracle against the Lean model (never against the implementation)
    val = o2_value(fam, fn, case["s"])
    opts_ok = fam != "mac" or (case["case"] in MAC_CASES and case["delim"] in MAC_DELIMS)
    if fn in ("normalize", "strip") or val is None:
        wf2 = val is not None
    else:
        wf2 = val[-1] is not None
    if _parsed_tuple(m["parsed"]) != val or (opts_ok and m["wf"] != wf2):
        raise OracleDisagreement(f"C16 oracles disagree on the value of {case['s']!r} ({fam}.{fn}): "
                                 f"lean={m['parsed']} ipaddress={val}")
    if opts_ok and wf2:
        _, (exp_val, exp_txt) = o2_expected(case, val)
        mo = m["out"]
        if not isinstance(mo, dict):
            raise OracleDisagreement(f"C16: model gives {mo} for well-formed {case['s']!r} ({fam}.{fn})")
        mtxt = _uncp(mo["ok"])
        got = o2_value("mac" if fam == "mac" else ("v4" if exp_val[0] == "v4" else "v6"), "strip", mtxt)
        if got != exp_val or (exp_txt is not None and exp_txt != mtxt):
            raise OracleDisagreement(f"C16 oracles disagree on {fam}.{fn}({case['s']!r}): lean={mtxt!r} "
                                     f"ipaddress={exp_val} {exp_txt!r}")
    # ---- verdicts
    ci, cm = m["checks_impl"], m["checks_model"]
    clause = _first_false(ci)
    spec_ok = clause is None
    impl_out, impl_again = _jres(obs["out"]), (_jres(obs["again"]) if "again" in obs else None)
    agree, detail = True, None
    if impl_out != m["out"] or (fn == "normalize" and impl_again != m["again"]):
        agree = False
        detail = {"impl": _show(obs["out"]), "model": _show_m(m["out"]),
                  "impl_again": _show(obs.get("again")), "model_again": _show_m(m["again"])}
    if _first_false(cm) is not None:
        agree = False
        detail = {"model_fails_own_checker": _first_false(cm)}
    if not spec_ok:
        detail = {"failed_checker": clause, "input": case["s"], "impl": _show(obs["out"]),
                  "impl_again": _show(obs.get("again")), "model": _show_m(m["out"]),
                  "denotes": m["parsed"], "well_formed": m["wf"]}
    kind = f"{kind0}/{'wf' if m['wf'] else 'malformed'}/{meta.get('style', '-')}"
    return Judgement(case, spec_ok, agree, detail, kind=kind, nontrivial=len(case["s"]) > 0, failed_clause=clause)


def _judge_pair(case, obs, m, kind0, meta):
    fam, fn = case["fam"], case["fn"]
    vs, vt = o2_value(fam, fn, case["s"]), o2_value(fam, fn, case["t"])
    if _parsed_tuple(m["parsed_s"]) != vs or _parsed_tuple(m["parsed_t"]) != vt:
        raise OracleDisagreement(f"C16 oracles disagree on the values of {case['s']!r} / {case['t']!r} ({fam}): "
                                 f"lean={m['parsed_s']},{m['parsed_t']} ipaddress={vs},{vt}")
    spec_ok = bool(m["canon_impl"])
    clause = None if spec_ok else "canonical"
    agree, detail = True, None
    if _jres(obs["out"]) != m["out_s"] or _jres(obs["out_t"]) != m["out_t"]:
        agree = False
        detail = {"impl": [_show(obs["out"]), _show(obs["out_t"])],
                  "model": [_show_m(m["out_s"]), _show_m(m["out_t"])]}
    if not m["canon_model"]:
        agree = False
        detail = {"model_fails_own_checker": "canonical"}
    if not spec_ok:
        detail = {"failed_checker": "canonical", "inputs": [case["s"], case["t"]],
                  "impl": [_show(obs["out"]), _show(obs["out_t"])], "denote": [m["parsed_s"], m["parsed_t"]]}
    k = "same" if (m["both_wf"] and m["same"]) else ("different" if m["both_wf"] else "malformed")
    kind = f"{kind0}/{k}/{meta.get('style', '-')}"
    return Judgement(case, spec_ok, agree, detail, kind=kind, nontrivial=bool(m["both_wf"]), failed_clause=clause)


def _show(r):
    if isinstance(r, dict):
        return r["ok"]
    return None if r is None else "<" + r + ">"


def _show_m(r):
    if isinstance(r, dict):
        return _uncp(r["ok"])
    return None if r is None else "<" + r + ">"


# =========================================================================== generator
V4_BOUNDARY = ["0.0.0.0", "255.255.255.255", "127.0.0.1", "10.0.0.0", "192.168.0.1", "1.2.3.4", "128.0.0.0",
               "0.0.0.1", "100.64.0.0", "169.254.255.255", "192.168.3.77", "172.31.255.254", "9.99.199.249",
               "255.0.255.0", "1.0.0.0"]
V4_MASKS = [None, None, 0, 1, 7, 8, 9, 15, 16, 17, 23, 24, 25, 30, 31, 32]
V6_BOUNDARY = ["::", "::1", "ffff:ffff:ffff:ffff:ffff:ffff:ffff:ffff", "2001:db8::1", "fe80::1", "::ffff:1.2.3.4",
               "::ffff:255.255.255.255", "::ffff:0.0.0.0", "::1.2.3.4", "::0.1.0.0", "::0.0.255.255", "64:ff9b::c000:221",
               "1:0:0:2:0:0:0:3", "1:0:0:0:2:0:0:3", "0:0:1:0:0:1:0:0", "::ffff:0:0", "0:0:0:0:0:ffff::",
               "1:2:3:4:5:6:7:8", "0:2:3:4:5:6:7:8", "1:2:3:4:5:6:7:0", "1::8", "1:0:3:4:5:6:7:8", "1:2:3:4:5:6:0:8",
               "0:0:0:0:0:fffe:102:304", "0:0:0:0:1:ffff:102:304", "::fffe:ffff:1.2.3.4", "8000::", "::8000:0",
               "a:b:c:d:e:f:0:0", "0:0:a:b:c:d:e:f", "abcd:ef01:2345:6789:abcd:ef01:2345:6789", "ff02::1:ff00:0",
               "0:0:0:1::", "2001:db8:0:0:1::1", "2001:db8::1:0:0:1", "0:1:0:1:0:1:0:1", "::ffff:102:304",
               # NOT IPv4-mapped although their text starts like a mapped address: ffff is the 4th or 5th group
               "::ffff:1:2:3", "::ffff:0:0:1", "::ffff:0:10.0.0.1", "0:0:0:ffff:a:b:c:d", "0:0:0:0:ffff:1:2:3",
               "::ffff:0:0:0", "::ffff:0:0.2.0.3"]
V6_MASKS = [None, None, 0, 1, 7, 8, 9, 31, 32, 63, 64, 65, 95, 96, 97, 119, 120, 127, 128]
MAC_BOUNDARY = ["00:00:00:00:00:00", "ff:ff:ff:ff:ff:ff", "01:23:45:67:89:ab", "0a:0b:0c:0d:0e:0f", "10:20:30:40:50:60",
                "a0:b0:c0:d0:e0:f0", "de:ad:be:ef:00:01", "09:0a:99:9a:a9:aa", "f0:0f:1f:f1:00:ff"]
BAD_MASKS = ["+{m}", " {m}", "{m} ", "{m}\n", "{m0}_{m1}", "{arab}", "{full}", "-{m}", "", "/", "{m}/{m}", "0x{m}",
             "{m}.0", "{over}", "{over2}", "-0", "+0", "٠", "{m}\x00", "{m}e0", "\t{m}", "{m}\r", "0_0", "1_2_8", "²",
             "{deva}", "{big}"]
MUT_ALPHABET = "0123456789abcdefABCDEFgGxX:.-/%+_ \n\t\r\x00٦٣０１ａＦ²é€\U0001d7d8;,[]"
ARAB = "٠١٢٣٤٥٦٧٨٩"
FULL = "０１２３４５６７８９"
DEVA = "०१२३४५६७८९"


def _digits_in(n, alphabet):
    return "".join(alphabet[int(c)] for c in str(n))


def bad_mask_text(rng, tmpl, width):
    m = rng.choice([0, 1, 8, 24, 32, 64, 128]) if rng.random() < .7 else rng.randrange(0, width + 1)
    m = min(m, width)
    sm = str(m)
    return tmpl.format(m=sm, m0=sm[0], m1=sm[1:] or "0", arab=_digits_in(m, ARAB), full=_digits_in(m, FULL),
                       deva=_digits_in(m, DEVA), over=str(width + 1), over2=str(rng.choice([255, 256, 1000, 10 ** 20])),
                       big="0" * rng.choice([4298, 4299, 4300, 4301]) + sm)


def pad_zeros(rng, txt, maxz=3):
    if rng.random() < .5:
        return txt
    return "0" * rng.randrange(1, maxz + 1) + txt


def v4_text(rng, octets, mask, style):
    if style == "canon":
        s = ".".join(str(o) for o in octets)
        return s if mask is None else f"{s}/{mask}"
    s = ".".join(pad_zeros(rng, str(o)) for o in octets)
    if mask is not None:
        s += "/" + pad_zeros(rng, str(mask), 4)
    return s


def rand_v4(rng):
    if rng.random() < .5:
        return [int(x) for x in rng.choice(V4_BOUNDARY).split(".")]
    return [rng.choice([0, 1, 9, 10, 99, 100, 127, 128, 199, 200, 249, 250, 254, 255, rng.randrange(256)])
            for _ in range(4)]


def rand_v6(rng):
    if rng.random() < .5:
        return ipaddress.IPv6Address(rng.choice(V6_BOUNDARY)).packed
    groups = []
    pz = rng.choice([0.0, 0.3, 0.6, 0.85])
    for _ in range(8):
        groups.append(0 if rng.random() < pz else rng.choice([1, 0xf, 0x10, 0xff, 0x100, 0xfff, 0x1000, 0xffff, 0xabcd,
                                                              rng.randrange(65536)]))
    if rng.random() < .25:
        groups[:6] = [0, 0, 0, 0, 0, rng.choice([0xffff, 0xffff, 0, 0xfffe])]
    return b"".join(g.to_bytes(2, "big") for g in groups)


def _case_mix(rng, s, how):
    if how == "lower":
        return s.lower()
    if how == "upper":
        return s.upper()
    return "".join(c.upper() if rng.random() < .5 else c.lower() for c in s)


def v6_text(rng, b, mask, style):
    """one of the many texts of the sixteen bytes `b`"""
    groups = [int.from_bytes(b[i:i + 2], "big") for i in range(0, 16, 2)]
    tail4 = style in ("embedded",) or (style == "random" and rng.random() < .25)
    n = 6 if tail4 else 8
    pad = rng.choice(["none", "full", "some"])

    def g(x):
        h = "%x" % x
        if pad == "full":
            return "%04x" % x
        if pad == "some":
            return "0" * rng.randrange(0, 5 - len(h)) + h
        return h
    hs = [g(x) for x in groups[:n]]
    runs = []
    i = 0
    while i < n:
        if groups[i] == 0:
            j = i
            while j < n and groups[j] == 0:
                j += 1
            for a in range(i, j):
                for e in range(a + 1, j + 1):
                    runs.append((a, e))
            i = j
        else:
            i += 1
    compress = None
    if style == "canon":
        pass
    elif runs and style != "full" and rng.random() < .75:
        compress = rng.choice(runs)
    if style == "canon":
        txt = ipaddress.IPv6Address(b).compressed
    else:
        if compress is None:
            txt = ":".join(hs)
        else:
            a, e = compress
            txt = ":".join(hs[:a]) + "::" + ":".join(hs[e:])
        if tail4:
            v4 = ".".join(str(x) for x in b[12:])
            txt = txt + v4 if txt.endswith("::") else txt + ":" + v4
        txt = _case_mix(rng, txt, rng.choice(["lower", "upper", "mixed"]))
    if mask is not None:
        txt += "/" + (str(mask) if style == "canon" else pad_zeros(rng, str(mask), 4))
    return txt


def mac_text(rng, bs, style):
    dl = rng.choice(":-")
    if style == "canon":
        return ":".join("%02X" % x for x in bs)
    parts = []
    for x in bs:
        h = "%02x" % x
        if x < 16 and rng.random() < .5:
            h = h[1]
        parts.append(h)
    return _case_mix(rng, dl.join(parts), rng.choice(["lower", "upper", "mixed"]))


def rand_mac(rng):
    if rng.random() < .4:
        return [int(x, 16) for x in rng.choice(MAC_BOUNDARY).split(":")]
    return [rng.choice([0, 1, 9, 0xa, 0xf, 0x10, 0x1f, 0x9a, 0xa0, 0xff, rng.randrange(256)]) for _ in range(6)]


def mutate(rng, s, n=None):
    n = n or rng.choice([1, 1, 1, 2, 3])
    for _ in range(n):
        k = rng.random()
        pos = rng.randrange(len(s) + 1)
        if k < .3 and s:
            pos = min(pos, len(s) - 1)
            s = s[:pos] + s[pos + 1:]
        elif k < .6:
            s = s[:pos] + rng.choice(MUT_ALPHABET) + s[pos:]
        elif k < .85 and s:
            pos = min(pos, len(s) - 1)
            s = s[:pos] + rng.choice(MUT_ALPHABET) + s[pos + 1:]
        elif s:
            a = rng.randrange(len(s))
            b = rng.randrange(a, len(s) + 1)
            s = s[:a] + s[a:b] * 2 + s[b:]
    return s


V4_MALFORMED = ["", "1.2.3", "1.2.3.4.5", "1..3.4", ".1.2.3", "1.2.3.", "1.2.3.4.", "256.1.1.1", "1.256.1.1", "1.1.1.256",
                "300.1.1.1", "999.999.999.999", "1.2.3.4/33", "1.2.3.4/", "1.2.3.4//", "1.2.3.4/1/2", "/24", "1.2.3.4 ",
                " 1.2.3.4", "1.2.3.4\n", "0x1.2.3.4", "1.2.3.a", "١.٢.٣.٤", "１.2.3.4", "1.2.3.4/٢٤", "1.2.3.4/+24",
                "1.2.3.4/ 24", "1.2.3.4/2_4", "1.2.3.4/24\n", "-1.2.3.4", "+1.2.3.4", "1_0.2.3.4", "1.2.3.4\x00",
                "1,2,3,4", "1.2.3.4/-0", "16909060", "1.2.772", "0", "...", "1.2.3.4/032", "1.2.3.4/0033",
                "0000256.1.1.1", "1.2.3.4/00", "1.2.3.²"]
V6_MALFORMED = ["", ":", ":::", "1::2::3", "12345::", "1:2:3:4:5:6:7", "1:2:3:4:5:6:7:8:9", "1:2:3:4:5:6:7:8::",
                "::1:2:3:4:5:6:7:8", ":1:2:3:4:5:6:7", "1:2:3:4:5:6:7:", "1::g", "::1%lo", "::1%1", "fe80::1%eth0/64",
                " ::1", "::1 ", "::1\n", "::1\x00", "::ffff:01.2.3.4", "::ffff:1.2.3", "::ffff:1.2.3.4.5", "::ffff:256.1.1.1",
                "::1.2.3.4:5", "1.2.3.4::", "1:2:3:4:5:6:7:1.2.3.4", "1:2:3:4:5:1.2.3.4", "::/129", "::/", "::/ ", "::1/1/2",
                "/64", "[::1]", "::1/0x40", "2001:db8::1/+64", "2001:db8::1/ 64", "2001:db8::1/6_4", "2001:db8::1/٦٤",
                "2001:db8::1/64\n", "2001:db8::1/-0", "::٦", "：:1", "::ffff:1.2.3.4/33x", "::ffff:1.2.3.٤", "1:2:3:4:5:6:7::8",
                "::ffff:1.2.3.4/24", "::ffff:1.2.3.4/128", "::ffff:102:304/96", "0::0::0", "::00000", "::0:00001", "1.2.3.4"]
MAC_MALFORMED = ["", "00:00:00:00:00", "00:00:00:00:00:00:00", "00:00:00-00:00:00", "00-00-00-00-00:00", "000:00:00:00:00:00",
                 "0:0:0:0:0:", ":0:0:0:0:0:0", "0::0:0:0:0", "00:00:00:00:00:0g", "0123.4567.89ab", "0123456789ab",
                 "00 00 00 00 00 00", "00:00:00:00:00:00 ", " 00:00:00:00:00:00", "00:00:00:00:00:00\n", "00:00:00:00:00:00\x00",
                 "00.00.00.00.00.00", "00_00_00_00_00_00", "٠٠:00:00:00:00:00", "ａ:0:0:0:0:0", "0x0:0:0:0:0:0", "+1:0:0:0:0:0",
                 "1:2:3:4:5:6:", "1:2:3:4:5:६", "a-b-c-d-e-f-", "--", ":::::", "-----", "1-2-3-4-5-6", "A:b:C:d:E:f"]


def _single(fam, fn, s, raise_, style, case=None, delim=None):
    c = {"kind": "single", "fam": fam, "fn": fn, "s": s, "raise": raise_, "_meta": {"style": style}}
    if fam == "mac":
        c["case"], c["delim"] = case, delim
    return c


def _pair(fam, s, t, raise_, style, case=None, delim=None):
    c = {"kind": "pair", "fam": fam, "fn": "normalize", "s": s, "t": t, "raise": raise_, "_meta": {"style": style}}
    if fam == "mac":
        c["case"], c["delim"] = case, delim
    return c


def all_calls(rng, fam, s, style, full_mac=False):
    """the string through every function of the family with every option combination"""
    if fam != "mac":
        for fn in FNS[fam]:
            for r in (False, True):
                yield _single(fam, fn, s, r, style)
        return
    combos = [(c, d) for c in MAC_CASES for d in MAC_DELIMS]
    if not full_mac:
        combos = rng.sample(combos, 3)
    for c, d in combos:
        for r in (False, True):
            yield _single(fam, "normalize", s, r, style, c, d)
    # one invalid option combination
    if rng.random() < .5:
        c, d = rng.choice(BAD_CASES), rng.choice(MAC_DELIMS + BAD_DELIMS)
    else:
        c, d = rng.choice(MAC_CASES + BAD_CASES), rng.choice(BAD_DELIMS)
    yield _single(fam, "normalize", s, rng.random() < .5, style + "+badopt", c, d)


def gen_strings(rng, fam, n):
    """(string, style) pairs of one family"""
    for i in range(n):
        k = i % 10
        if fam == "v4":
            o, m = rand_v4(rng), rng.choice(V4_MASKS)
            if k < 4:
                yield v4_text(rng, o, m, "canon" if k == 0 else "zeros"), "variant"
            elif k < 6:
                yield v4_text(rng, o, None, "zeros") + "/" + bad_mask_text(rng, rng.choice(BAD_MASKS), 32), "badmask"
            elif k < 8:
                yield mutate(rng, v4_text(rng, o, m, "zeros")), "mutant"
            elif k == 8:
                yield rng.choice(V4_MALFORMED), "malformed-list"
            else:
                big = "0" * rng.choice([4296, 4297, 4298, 4299, 4300]) + str(o[0])
                yield ".".join([big] + [str(x) for x in o[1:]]) + ("" if m is None else f"/{m}"), "int-limit"
        elif fam == "v6":
            b, m = rand_v6(rng), rng.choice(V6_MASKS)
            if k < 4:
                yield v6_text(rng, b, m, ["canon", "random", "full", "embedded"][k]), "variant"
            elif k < 6:
                yield v6_text(rng, b, None, "random") + "/" + bad_mask_text(rng, rng.choice(BAD_MASKS), 128), "badmask"
            elif k < 9:
                yield mutate(rng, v6_text(rng, b, m, "random")), "mutant"
            else:
                yield rng.choice(V6_MALFORMED), "malformed-list"
        elif fam == "mac":
            bs = rand_mac(rng)
            if k < 5:
                yield mac_text(rng, bs, "canon" if k == 0 else "random"), "variant"
            elif k < 9:
                yield mutate(rng, mac_text(rng, bs, "random")), "mutant"
            else:
                yield rng.choice(MAC_MALFORMED), "malformed-list"
        else:  # generic: both families, mapped addresses emphasised
            if k < 3:
                yield from gen_strings(rng, "v4", 1)
            elif k < 6:
                yield from gen_strings(rng, "v6", 1)
            else:
                o = rand_v4(rng)
                b = MAPPED + bytes(o)
                m = rng.choice([None, None, None, 24, 96, 120, 128])
                txt = v6_text(rng, b, m, rng.choice(["random", "embedded", "full", "canon"]))
                yield (txt if k < 9 else mutate(rng, txt)), "mapped"


def gen_pairs(rng, fam, n):
    for i in range(n):
        same = i % 2 == 0
        r = rng.random() < .3
        if fam == "v4":
            o, m = rand_v4(rng), rng.choice(V4_MASKS)
            o2, m2 = list(o), m
            if not same:
                if m is not None and rng.random() < .3:
                    m2 = rng.choice([x for x in V4_MASKS if x != m])
                else:
                    j = rng.randrange(4)
                    o2[j] ^= 1 << rng.randrange(8)
            yield _pair(fam, v4_text(rng, o, m, "zeros"), v4_text(rng, o2, m2, "zeros"), r, "same" if same else "near")
        elif fam in ("v6", "ip"):
            if fam == "ip" and rng.random() < .5:
                o = rand_v4(rng)
                b = MAPPED + bytes(o)
                b2 = b if same else MAPPED + bytes([o[0], o[1], o[2], o[3] ^ 1])
                s = v6_text(rng, b, None, rng.choice(["random", "embedded", "full"]))
                t = v4_text(rng, list(b2[12:]), None, "zeros") if rng.random() < .5 else \
                    v6_text(rng, b2, None, "random")
                yield _pair(fam, s, t, r, "mapped-" + ("same" if same else "near"))
                continue
            b, m = rand_v6(rng), rng.choice(V6_MASKS)
            b2, m2 = bytearray(b), m
            if not same:
                if m is not None and rng.random() < .3:
                    m2 = rng.choice([x for x in V6_MASKS if x != m])
                else:
                    b2[rng.randrange(16)] ^= 1 << rng.randrange(8)
            yield _pair(fam, v6_text(rng, b, m, "random"), v6_text(rng, bytes(b2), m2, "random"), r,
                        "same" if same else "near")
        else:
            bs = rand_mac(rng)
            bs2 = list(bs)
            if not same:
                bs2[rng.randrange(6)] ^= 1 << rng.randrange(8)
            yield _pair(fam, mac_text(rng, bs, "random"), mac_text(rng, bs2, "random"), r, "same" if same else "near",
                        rng.choice(MAC_CASES), rng.choice(MAC_DELIMS))


def gen(rng, tier, mult=1):
    scale = (1 if tier == "quick" else 20) * mult
    # fixed lists first: every listed malformed string and every boundary address through everything
    for fam, lst in [("v4", V4_MALFORMED + V4_BOUNDARY + [b + "/24" for b in V4_BOUNDARY[:6]]),
                     ("v6", V6_MALFORMED + V6_BOUNDARY + [b + "/64" for b in V6_BOUNDARY[:8]]),
                     ("ip", V4_MALFORMED + V6_MALFORMED + V6_BOUNDARY + V4_BOUNDARY[:4] + ["0.2.0.3", "0.12.0.13"]),
                     ("mac", MAC_MALFORMED + MAC_BOUNDARY)]:
        for s in lst:
            yield from all_calls(rng, fam, s, "listed", full_mac=(fam == "mac" and s in MAC_BOUNDARY))
    # every boundary prefix length, in several spellings, on fixed addresses (deterministic: every seed)
    v6m = [0, 1, 2, 7, 8, 9, 15, 16, 17, 31, 32, 33, 63, 64, 65, 95, 96, 97, 119, 120, 127, 128]
    for fam, bases, masks in (("v4", ["10.1.2.3", "0.0.0.0"], list(range(33))),
                              ("v6", ["2001:db8::1", "::"], v6m),
                              ("ip", ["::ffff:10.1.2.3", "2001:db8::1", "10.1.2.3"], [0, 1, 8, 24, 31, 32, 96, 120, 128])):
        for b in bases:
            for m in masks:
                for txt in ([str(m)] if m not in (0, 32, 128) else [str(m), "0" + str(m), "00" + str(m)]):
                    yield from all_calls(rng, fam, b + "/" + txt, "mask-grid")
    per = {"v4": 90, "v6": 140, "ip": 120, "mac": 90}
    for fam in ("v4", "v6", "ip", "mac"):
        for s, style in gen_strings(rng, fam, per[fam] * scale):
            yield from all_calls(rng, fam, s, style)
    for fam in ("v4", "v6", "ip", "mac"):
        yield from gen_pairs(rng, fam, 250 * scale)
    if tier != "quick":
        # exhaustive small scope: every mask text over a small alphabet up to length 3 on one address per family
        alpha = "0123+- _\n٣"
        texts = [""]
        for _ in range(3):
            texts = texts + [t + c for t in texts if len(t) == len(texts[-1]) for c in alpha]
        for t in sorted(set(texts)):
            for fam, base in (("v4", "10.1.2.3"), ("v6", "2001:db8::1"), ("ip", "::ffff:1.2.3.4")):
                yield from all_calls(rng, fam, base + "/" + t, "mask-scope")


# =========================================================================== shrinking / search
def _shrink_str(s):
    out = []
    n = len(s)
    # aggressive candidates first: minimal address part, minimal mask part, halves
    if "/" in s:
        head, tail = s.split("/", 1)
        for h in ("::", "0.0.0.0", "0:0:0:0:0:0"):
            if h != head and len(h) < len(head):
                out.append(h + "/" + tail)
        out.append(head)
        for k in range(1, len(tail)):
            out.append(head + "/" + tail[:k])
            out.append(head + "/" + tail[k:])
    else:
        for h in ("::", "0.0.0.0", "0:0:0:0:0:0"):
            if len(h) < n:
                out.append(h)
    if n > 4:
        out += [s[:n // 2], s[n // 2:], s[:n // 4], s[-(n // 4):]]
    for i in range(n):
        out.append(s[:i] + s[i + 1:])
    for i, c in enumerate(s):
        if c in "23456789abcdefABCDEF":
            out.append(s[:i] + "0" + s[i + 1:])
    seen, res = set(), []
    for x in out:
        if x not in seen and x != s:
            seen.add(x)
            res.append(x)
    return res


def _strip_meta(case):
    return {k: v for k, v in case.items() if not k.startswith("_")}


def shrink(case):
    base = _strip_meta(case)
    if base.get("raise"):
        yield dict(base, **{"raise": False})
    keys = ["s", "t"] if base["kind"] == "pair" else ["s"]
    for k in keys:
        for x in _shrink_str(base[k])[:60]:
            yield dict(base, **{k: x})


def neighbours(case, rng):
    base = _strip_meta(case)
    for fn in FNS[base["fam"]]:
        if base["kind"] == "single" and fn != base["fn"]:
            yield dict(base, fn=fn)
    yield dict(base, **{"raise": not base["raise"]})
    for _ in range(60):
        yield dict(base, s=mutate(rng, base["s"], 1))


def signature(case, j):
    """coarse root-cause description of a minimised failing case"""
    where = f"{case['fam']}.{case['fn']}"
    s = case["s"]
    d = j.detail if isinstance(j.detail, dict) else {}
    if case["fam"] in ("v6", "ip") and "/" in s and case["kind"] == "single":
        m = s.split("/", 1)[1]
        if not (m.isascii() and m.isdigit()):
            try:
                int(m)
                where = "ipv6-mask-accepted-by-bare-int"
            except ValueError:
                pass
    if case["fam"] == "ip" and case["fn"] == "normalize" and not case["raise"] and d.get("impl") == "<ValueError>":
        where = "ip-normalize-raises-valueerror-unrequested"
    return {"clause": j.failed_clause, "where": where}
