"""C18 — system matcher: grammar, precedence, quoting and evaluation equal the documentation.

Case = {"expr": <string>, "cst": <concrete syntax tree or None>, "systems": [[id, data]…], "evict": bool}

* tree stream: every operator shape up to a node bound, terms drawn from an alphabet that
  exercises every term kind, flag, quoting and escape form, printed by an independent Python
  printer in several variants (minimal / redundant / random parentheses, mandatory and optional
  whitespace drawn from all `str.isspace` classes, every legal quoting). The concrete syntax
  tree travels with the case: the Lean driver checks that it is `legal`, that Lean's `render`
  gives the same string (so the case is a member of the printer family of `eval_parse_print`)
  and evaluates the spec on the implementation's results against the TREE (not against the
  model's parse).
* keyword-before-paren stream: the one family of `legal` renderings that is behaviour of the code and
  not a promise of the documentation — a bare `and`/`or`/`not` directly before `)` is an id-glob term
  (`(and)`, `(x or not)`); run with their concrete syntax trees like the tree stream, so the
  `legal` predicate of `parse_sound` / `parse_iff_rendering` is tied to the real parser on it.
* mutation stream: token- and character-level mutations of such renderings and a hand-written
  list of the documented error classes; reference = the Lean parser (accepted → value of its
  tree, rejected → ValueError).
* every case is run as first use of `match()` (cache cleared), cached use (optionally after 300
  other expressions went through the 256-entry cache), first use of a `Matcher`, second `Matcher`.

Terms are evaluated by the harness with the real `re` / `fnmatch` (reference semantics of one
term = the documentation: `fnmatch`, string equality, `re.fullmatch`) and shipped to the Lean
model as a truth table; the model parses, the Lean `eval` combines.
"""
import atexit
import fnmatch
import json
import os
import re
import subprocess

import core

ID = "C18"
MODULE = "props.c18"
THEOREM_MODULES = ["Vinegar.Theorems.C18"]
THEOREMS = [
    "Vinegar.C18.parse_render",
    "Vinegar.C18.eval_parse_print",
    "Vinegar.C18.parse_printTop",
    "Vinegar.C18.matchObs_printTop",
    "Vinegar.C18.precedence_not_and_or",
    "Vinegar.C18.parse_total",
    "Vinegar.C18.matchObs_value_or_ValueError",
    "Vinegar.C18.reject_unknown_type",
    "Vinegar.C18.reject_keyword_as_operand",
    "Vinegar.C18.reject_keyword_glued",
    "Vinegar.C18.reject_missing_operand",
    "Vinegar.C18.reject_unterminated_quote",
    "Vinegar.C18.reject_unterminated_escape",
    "Vinegar.C18.reject_bad_escape",
    "Vinegar.C18.reject_empty_pattern",
    "Vinegar.C18.reject_empty_key",
    "Vinegar.C18.reject_unbalanced",
    "Vinegar.C18.reject_bad_regex",
    "Vinegar.C18.cache_irrelevant",
    "Vinegar.C18.cache_history",
    "Vinegar.C18.first_use_eq_cached_use",
    "Vinegar.C18.checkCase_model",
    "Vinegar.C18.parse_sound",
    "Vinegar.C18.parse_iff_rendering",
    "Vinegar.C18.reject_every_other_string",
    "Vinegar.C18.accepted_meaning",
    "Vinegar.C18.renderings_unambiguous",
    "Vinegar.C18.keyword_before_paren",
    "Vinegar.C18.generated_tables",
]
TRUSTED_BASE = [
    "Lean 4 kernel; axioms of every listed theorem audited each run (subset of propext, Classical.choice, Quot.sound)",
    "harness/translate_matcher.py (AST extraction of keyword/prefix/reserved-character tables, cache size; str.isspace table "
    "of the running interpreter)",
    "the correspondence harness: Python printer of concrete syntax trees (cross-checked against Lean's render/legal on every "
    "case), term reference evaluation with the real re/fnmatch, the compiled Lean driver",
    "Python's re, fnmatch.translate, str.isspace, functools.lru_cache are modelled (terms as an abstract valuation, the "
    "cache as an LRU memo), not verified",
]
ASSUMPTIONS = [
    "a term's truth value depends only on (kind, key, pattern, case flag, system) — the harness evaluates it with the "
    "documented reference (fnmatch / equality / re.fullmatch) and the model is parametric in that valuation",
    "system_data is a flat mapping (DESIGN §7); values None/non-str are converted as _data_expression does",
    "ignoring case = re.IGNORECASE; the generated universe keeps to characters whose lower() folding agrees with it",
    "strings are sequences of Unicode scalar values (no lone surrogates)",
]
RULE = ("tree stream: all operator shapes up to the node bound x printing variants with terms cycled through the alphabet; "
        "mutation stream: token/char mutations of renderings + hand-written error classes. Non-trivial = accepted with at "
        "least one operator or with both truth values over the universe, or rejected non-empty input; distinct by SHA-1 of "
        "the whole case")
BUDGET_S = {"quick": 60, "thorough": 900}
EXHAUSTIVE = {"quick": False, "thorough": False}

KEYWORDS = ("and", "not", "or")
RESERVED = "@()"
SPACES_MANDATORY = [" ", "  ", "\t", "\n", " \t ", "\u00a0", "\u2003", "\x1c", "\r\n", "\u3000", "\x0b", "\x85"]
DEEP_FRAMES = 800      # estimated parser frames above which a string counts as deeply nested


# ------------------------------------------------------------------------------- alphabet
def A(kind, pattern, key=None, cs=True):
    return {"key": key, "kind": kind, "pattern": pattern, "cs": cs}


ATOMS = [
    # shorthand-eligible (id glob, ignoring case)
    A("glob", "web*", cs=False), A("glob", "db?.example.com", cs=False), A("glob", "and", cs=False),
    A("glob", "not", cs=False), A("glob", "or", cs=False), A("glob", "WEB-1", cs=False), A("glob", "*", cs=False),
    A("glob", "android*", cs=False), A("glob", "nota*", cs=False), A("glob", "a b", cs=False), A("glob", "", cs=False),
    A("glob", "it's", cs=False), A("glob", "'*", cs=False), A("glob", "x@y", cs=False), A("glob", "[wd]*", cs=False),
    A("glob", "a\\b", cs=False), A("glob", "é*", cs=False), A("glob", "(x)", cs=False), A("glob", "o", cs=False),
    # id terms
    A("glob", "web*"), A("glob", "[!w]*"), A("glob", "WEB-?"), A("glob", "say \"hi\""),
    A("literal", "web-1"), A("literal", "WEB-1", cs=False), A("literal", "a.b"), A("literal", "a b", cs=False),
    A("literal", "it's"), A("literal", "a\\b"), A("literal", "", cs=False), A("literal", "(x)"), A("literal", "and"),
    A("re", "web-[0-9]+"), A("re", "WEB-.*", cs=False), A("re", "(web|db).*"), A("re", ".*\\.example\\.com", cs=False),
    A("re", "a.b"), A("re", "[a"), A("re", "(x"), A("re", "a{99999999999999999999}"), A("re", "*"), A("re", ""),
    A("re", "\\"), A("re", "a\\\\b"),
    # data terms
    A("glob", "web*", key="role"), A("glob", "W*", key="role", cs=False), A("glob", "v ?", key="my key"),
    A("glob", "*", key="missing"), A("glob", "", key="none"), A("glob", "5", key="n"),
    A("literal", "web", key="role"), A("literal", "WEB", key="role", cs=False), A("literal", "it's", key="k'q"),
    A("literal", "say \"hi\"", key="k\"q", cs=False), A("literal", "a\\b", key="back\\slash"),
    A("literal", "x@y", key="a@b"), A("literal", "(x)", key="(p)", cs=False), A("literal", "", key="missing"),
    A("literal", "5", key="n"), A("literal", "v w", key="my key"), A("literal", "True", key="flag", cs=False),
    A("re", "w.b", key="role"), A("re", "W.B|db", key="role", cs=False), A("re", "v\\sw", key="my key"),
    A("re", "[0-9]+", key="n"), A("re", "(x", key="role"), A("re", ".*'.*", key="k'q", cs=False),
    A("re", "", key="none"), A("re", "é+", key="uni", cs=False), A("glob", "É*", key="uni", cs=False),
    A("glob", "x", key="'"), A("literal", "y", key="\\"), A("glob", "and", key="and"),
    # whitespace that must be preserved inside quoted keys and patterns (runs of blanks, tab, newline, leading blank)
    A("literal", "a  b"), A("glob", "rack  7*", cs=False), A("literal", " lead"), A("glob", "line\nbreak*"),
    A("literal", "v\tw", key="my key"), A("glob", "x*", key="my  key"), A("re", "a  b"), A("literal", "tab\there", cs=False),
    # values that are present but falsy and no strings: matched as str(value), not as the empty string
    A("literal", "False", key="flag"), A("literal", "0", key="n"), A("re", "\\[\\]", key="role"), A("glob", "0.?", key="none"),
    A("literal", "{}", key="my key"),
    # character classes are wildcards too, also when they are the only ones in the pattern
    A("glob", "web-[12]", cs=False), A("glob", "db[!2].example.com"), A("glob", "[wW]eb", key="role"),
]

SYSTEMS = [
    ["web-1", {"role": "web", "n": 5, "flag": True}],
    ["WEB-1", {"role": "WEB", "my key": "v w", "none": None}],
    ["db1.example.com", {"role": "db", "k'q": "it's", "k\"q": "SAY \"HI\"", "uni": "éÉ"}],
    ["and", {"back\\slash": "a\\b", "a@b": "x@y", "(p)": "(X)", "and": "and"}],
    ["a b", {"'": "x", "\\": "y", "role": "wxb"}],
    ["", {}],
    [None, None],
    ["it's", {"role": "Web-1", "n": "12", "uni": "ÉCOLE"}],
    ["a\\b", {"role": "", "my key": "v\tw"}],
    ["École (x)", {"role": "not"}],
    ["a  b", {"my  key": "xy", "my key": "zz"}],
    ["rack  7", {"role": "web"}],
    ["rack 7", {"my key": "v w"}],
    [" lead", {}],
    ["lead", {}],
    ["line\nbreak-1", {}],
    ["line break-1", {}],
    ["tab\there", {}],
    ["tab here", {}],
    ["falsy-1", {"flag": False, "n": 0, "role": [], "none": 0.0, "my key": {}}],
]


# ------------------------------------------------------------------------------- reference for one term
def subject(atom, sysid, data):
    if atom["key"] is None:
        return "" if sysid is None else sysid
    v = (data or {}).get(atom["key"], None)
    if v is None:
        return ""
    return v if isinstance(v, str) else str(v)


def atom_ok(atom):
    """does the real `re` compile the term?"""
    if atom["kind"] != "re":
        return True
    try:
        re.compile(atom["pattern"], 0 if atom["cs"] else re.IGNORECASE)
        return True
    except Exception:
        return False


def atom_value(atom, sysid, data):
    s = subject(atom, sysid, data)
    p = atom["pattern"]
    if atom["kind"] == "literal":
        return s == p if atom["cs"] else s.lower() == p.lower()
    if atom["kind"] == "glob":
        return fnmatch.fnmatchcase(s, p) if atom["cs"] else fnmatch.fnmatchcase(s.lower(), p.lower())
    try:
        return re.fullmatch(p, s, 0 if atom["cs"] else re.IGNORECASE) is not None
    except Exception:
        return False


# ------------------------------------------------------------------------------- printer (concrete syntax trees)
def unquoted_ok(s):
    return s != "" and s[0] not in "'\"" and not any(c.isspace() or c in RESERVED for c in s)


def render_str(q, s):
    if q == "none":
        return s
    qc = "'" if q == "single" else '"'
    return qc + "".join("\\" + c if c in (qc, "\\") else c for c in s) + qc


def atom_cst(rng, atom, prefer):
    """prefer: 'none' (unquoted where legal), 'single', 'double', 'random'"""
    sh_eligible = atom["key"] is None and atom["kind"] == "glob" and not atom["cs"]
    shorthand = sh_eligible and (prefer != "random" or rng.random() < 0.6)
    slash = (not atom["cs"]) or rng.random() < 0.3

    def pick(s, allow_unquoted):
        opts = ["single", "double"] + (["none"] if allow_unquoted else [])
        if prefer == "random":
            return rng.choice(opts)
        if prefer == "none":
            return "none" if allow_unquoted else rng.choice(["single", "double"])
        return prefer
    patq = pick(atom["pattern"], unquoted_ok(atom["pattern"]) and not (shorthand and atom["pattern"] in KEYWORDS))
    keyq = "none" if atom["key"] is None else pick(atom["key"], unquoted_ok(atom["key"]))
    return {"t": "atom", "key": atom["key"], "kind": atom["kind"], "pattern": atom["pattern"], "cs": atom["cs"],
            "shorthand": shorthand, "slash": slash, "keyq": keyq, "patq": patq}


def render_atom(c):
    out = ""
    if not c["shorthand"]:
        opts = ("/" + ("" if c["cs"] else "i")) if c["slash"] else ""
        if c["key"] is not None:
            out = "@data_" + c["kind"] + opts + ":" + render_str(c["keyq"], c["key"]) + "@"
        else:
            out = "@id_" + c["kind"] + opts + "@"
    return out + render_str(c["patq"], c["pattern"])


def tokens(c):
    """the rendering as a list of tokens (terms, keywords, parentheses, whitespace runs)"""
    t = c["t"]
    if t == "atom":
        return [render_atom(c)]
    if t == "not":
        return ["not", c["ws"]] + tokens(c["c"])
    if t == "paren":
        return ["(", c["ws1"]] + tokens(c["c"]) + [c["ws2"], ")"]
    return tokens(c["l"]) + [c["ws1"], t, c["ws2"]] + tokens(c["r"])


def render(c):
    return "".join(tokens(c))


class Printer:
    def __init__(self, rng, parens, spacing, quoting):
        self.rng, self.parens, self.spacing, self.quoting = rng, parens, spacing, quoting

    def sp(self):
        if self.spacing == "plain":
            return " "
        return self.rng.choice(SPACES_MANDATORY)

    def opt(self):
        if self.spacing == "plain":
            return " "
        if self.spacing == "tight":
            return ""
        return self.rng.choice(["", "", " ", "\t", "\n ", "\u2009"])

    def wrap(self, x):
        c, _, _, _ = x
        return ({"t": "paren", "ws1": self.opt(), "c": c, "ws2": self.opt()}, 3, True, True)

    def operand(self, x, need):
        if self.parens == "redundant" or x[1] < need or (self.parens == "random" and self.rng.random() < 0.3):
            x = self.wrap(x)
            if self.parens == "random" and self.rng.random() < 0.2:
                x = self.wrap(x)
        return x

    def build(self, tree, atoms):
        """-> (cst, level, starts_paren, ends_paren)"""
        op = tree[0]
        if op == "atom":
            return (atom_cst(self.rng, atoms[tree[1]], self.quoting), 3, False, False)
        if op == "not":
            x = self.operand(self.build(tree[1], atoms), 3)
            ws = self.opt() if x[2] else self.sp()
            return ({"t": "not", "ws": ws, "c": x[0]}, 3, False, x[3])
        lvl = 2 if op == "and" else 1
        l = self.operand(self.build(tree[1], atoms), lvl)
        r = self.operand(self.build(tree[2], atoms), lvl + 1)
        ws1 = self.opt() if l[3] else self.sp()
        ws2 = self.opt() if r[2] else self.sp()
        return ({"t": op, "l": l[0], "ws1": ws1, "ws2": ws2, "r": r[0]}, lvl, l[2], r[3])

    def top(self, tree, atoms):
        x = self.build(tree, atoms)
        if self.parens == "redundant":
            x = self.wrap(x)
        lead = "" if self.spacing in ("plain", "tight") else self.opt()
        trail = "" if self.spacing in ("plain", "tight") else self.opt()
        return {"lead": lead, "c": x[0], "trail": trail}


VARIANTS = [("minimal", "plain", "none"), ("redundant", "tight", "double"), ("minimal", "varied", "single"),
            ("random", "varied", "random"), ("minimal", "tight", "random"), ("redundant", "varied", "none")]


def shapes(k, memo={}):
    """all operator trees with exactly k operator nodes; leaves are placeholders"""
    if k in memo:
        return memo[k]
    if k == 0:
        out = [["atom", None]]
    else:
        out = [["not", s] for s in shapes(k - 1)]
        for op in ("and", "or"):
            for i in range(k):
                for a in shapes(i):
                    for b in shapes(k - 1 - i):
                        out.append([op, a, b])
    memo[k] = out
    return out


def fill(tree, next_atom):
    if tree[0] == "atom":
        return ["atom", next_atom()]
    return [tree[0]] + [fill(t, next_atom) for t in tree[1:]]


def tree_atoms(tree, acc=None):
    acc = [] if acc is None else acc
    if tree[0] == "atom":
        acc.append(tree[1])
    else:
        for t in tree[1:]:
            tree_atoms(t, acc)
    return acc


def random_tree(rng, k):
    if k == 0:
        return ["atom", None]
    op = rng.choice(["not", "and", "or", "and", "or"])
    if op == "not":
        return ["not", random_tree(rng, k - 1)]
    i = rng.randrange(k)
    return [op, random_tree(rng, i), random_tree(rng, k - 1 - i)]


def bare_keyword_tops():
    """the one family of legal renderings that is behaviour of the code rather than a promise of the
    documentation (Spec/Matcher.lean, `bareKeyword`): an unquoted prefix-less `and` / `or` / `not`
    directly before the `)` of the enclosing group is an id-glob term"""
    def atom(p):
        return {"t": "atom", "key": None, "kind": "glob", "pattern": p, "cs": False, "shorthand": True,
                "slash": True, "keyq": "none", "patq": "none"}

    def paren(ws1, c):
        return {"t": "paren", "ws1": ws1, "c": c, "ws2": ""}

    def binop(op, l, ws1, ws2, r):
        return {"t": op, "l": l, "ws1": ws1, "ws2": ws2, "r": r}
    x = atom("web*")
    out = []
    for kw in KEYWORDS:
        k = atom(kw)
        for ws1 in ("", " ", "\t\n"):
            out.append(paren(ws1, k))
            out.append(paren(ws1, {"t": "not", "ws": " ", "c": k}))
            out.append(paren(ws1, binop("and", x, " ", "\u2003", k)))
            out.append(paren(ws1, binop("or", x, "\t", " ", k)))
            out.append(paren(ws1, binop("or", x, " ", " ", binop("and", x, " ", " ",
                                                              {"t": "not", "ws": " ", "c": k}))))
        out.append({"t": "not", "ws": "", "c": paren("", k)})
        out.append(binop("and", paren("", binop("or", x, " ", " ", k)), "", " ", x))
        out.append(binop("or", paren("", k), " ", "", paren(" ", paren("", k))))
    return [{"lead": lead, "c": c, "trail": trail} for c in out for lead, trail in (("", ""), (" ", "\n"))]


def mk_case(top, systems, kind, evict=False, expr=None):
    e = expr if expr is not None else top["lead"] + render(top["c"]) + top["trail"]
    return {"expr": e, "cst": top if expr is None else None, "systems": systems, "evict": evict, "_kind": kind}


# ------------------------------------------------------------------------------- mutations
HAND_WRITTEN = [
    # keyword misuse
    "and", "or", "not", "a and", "a or", "and a", "or a", "a and and b", "a or or b", "a and or b", "a not b",
    "not and a", "a andb", "aand b", "a and b or", "a AND b", "a Or b", "NOT a", "nota", "not a", "a andnot b",
    "a and notb", "(a)and(b)", "(a)and b", "a and(b)", "\"a\"and b", "a and\"b\"", "'a'or'b'", "not(a)", "not\ta",
    "(and)", "(or)", "(not)", "(not )", "( and )", "a or not", "not not a", "notnot a", "a\x1cand\x1cb", "a\u00a0or\u2003b",
    # parentheses
    "(", ")", "()", "(a", "a)", "((a)", "(a))", "(a) b", "a (b)", "( a )", "(a)(b)", ")a(", "a and (b or c", "(a or b) and c)",
    # unknown @ type / malformed prefixes
    "@", "@@", "@foo@a", "@id@a", "@id_glob", "@id_glob@", "@id_glob/", "@id_glob/i", "@id_glob/i@", "@id_glob/x@a",
    "@id_glob//@a", "@id_glob/ii@a", "@id_glob/@a", "@id_glob/i@a", "@ID_GLOB@a", "@id_glob @a", "@id_glob@ a",
    "@id-glob/i@a", "@data_glob@a", "@data_glob:k", "@data_glob:k@", "@data_glob:@v", "@data_glob:k@v", "@data_glob/:k@v",
    "@data_glob/i:k@v", "@data_glob/i@k@v", "@data_glob:k:v", "@data_glob:k@v@w", "@data_glob: k@v", "@data_glob:k @v",
    "@data_re:k@(", "@data_re:k@'('", "@id_re@[a", "@id_re@a{99999999999999999999}", "@data_re:k@a{99999999999999999999}",
    "@id_re/i@'a{99999999999999999999}'", "@id_literal/i:@a", "@data_literal:k@", "@data_literal:k@''", "a@b", "a@",
    # quotes and escapes
    "'", "\"", "''", "\"\"", "'a", "\"a", "a'", "a\"b", "'a'b", "'a' b", "'a\\'", "'a\\", "'a\\\\'", "'a\\\\", "'a\\b'",
    "'a\\\"b'", "\"a\\'b\"", "\"a\\\"b\"", "'a\"b'", "'\\''", "\"\\\\\"", "@data_glob:''@x", "@data_glob:\"\"@x",
    "@data_glob:'k@x", "@data_glob:'k\\'@x", "@data_glob:'\\''@x", "@data_glob:'k'x@v", "@data_glob:'k'@'v", "@data_glob:k'@v",
    "@data_glob:'a b'@'c d'", "@id_glob@'a b' and @id_glob@\"c\"", "a\\ b", "a\\", "\\",
    # whitespace / emptiness
    "", " ", "\t\n", " a ", "a  b", "a\nand\nb", "\u3000a\u3000",
]

MUT_CHARS = list("()@'\"\\ /:i*") + ["a", "n", "d", "o", "r", "t", "\t", " ", "and", "or", "not", " and ", " or ",
                                      "not ", "@id_re@", "@data_glob:", "/i", "\\\\", "\\'"]


def mutate(rng, toks):
    toks = list(toks)
    m = rng.randrange(12)
    i = rng.randrange(len(toks))
    if m == 0:
        del toks[i]
    elif m == 1:
        toks.insert(i, toks[i])
    elif m == 2 and len(toks) > 1:
        j = min(i + 1, len(toks) - 1)
        toks[i], toks[j] = toks[j], toks[i]
    elif m == 3:
        toks.insert(i, rng.choice(["and", "or", "not", "(", ")", " and ", " or ", "not "]))
    elif m == 4:
        ws = [k for k, t in enumerate(toks) if t != "" and t.isspace()]
        if ws:
            toks[rng.choice(ws)] = ""
    elif m == 5:
        s = "".join(toks)
        return s[:rng.randrange(len(s) + 1)]
    elif m == 6:
        s = "".join(toks)
        k = rng.randrange(len(s) + 1)
        return s[:k] + rng.choice(MUT_CHARS) + s[k:]
    elif m == 7:
        s = "".join(toks)
        if s:
            k = rng.randrange(len(s))
            return s[:k] + s[k + 1:]
    elif m == 8:
        s = "".join(toks)
        if s:
            k = rng.randrange(len(s))
            return s[:k] + rng.choice(MUT_CHARS) + s[k + 1:]
    elif m == 9:
        kw = [k for k, t in enumerate(toks) if t in KEYWORDS]
        if kw:
            k = rng.choice(kw)
            toks[k] = rng.choice([toks[k].upper(), toks[k] + "x", "x" + toks[k], toks[k][:-1], toks[k].capitalize()])
    elif m == 10:
        at = [k for k, t in enumerate(toks) if t.startswith("@")]
        if at:
            k = rng.choice(at)
            toks[k] = rng.choice([toks[k].replace("_", "-", 1), "@" + toks[k], toks[k].replace("@", "@x", 1),
                                  toks[k].replace("/i", "/I"), toks[k].replace("/", "//"), toks[k].upper(),
                                  toks[k].replace(":", "", 1), toks[k][:-1], toks[k].replace("glob", "globs")])
    else:
        toks.insert(i, rng.choice(["'", '"', "\\", "@"]))
    return "".join(toks)


# ------------------------------------------------------------------------------- generator
def gen(rng, tier, mult=1):
    good = [i for i, a in enumerate(ATOMS) if atom_ok(a)]
    overflow = [i for i, a in enumerate(ATOMS) if "{9999" in a["pattern"]]
    # the huge-repetition term (D13) is kept out of the cycling: it is in the term stream, in three trees below, in
    # the hand-written list and in the corpus — every failing case costs a shrink run
    bad = [i for i, a in enumerate(ATOMS) if not atom_ok(a) and i not in overflow]
    counter = [rng.randrange(len(good)), 0]

    def next_atom():
        # terms are cycled through the alphabet; roughly every 40th draw is a term `re` refuses to compile
        counter[1] += 1
        if bad and counter[1] % 40 == 0:
            return bad[(counter[1] // 40) % len(bad)]
        counter[0] = (counter[0] + 1) % len(good)
        return good[counter[0]]

    def systems_for(_):
        return SYSTEMS

    def tree_case(tree, variant, kind, evict=False):
        idxs = sorted(set(tree_atoms(tree)))
        amap = {a: i for i, a in enumerate(idxs)}

        def remap(t):
            return ["atom", amap[t[1]]] if t[0] == "atom" else [t[0]] + [remap(x) for x in t[1:]]
        atoms = [ATOMS[a] for a in idxs]
        top = Printer(rng, *variant).top(remap(tree), atoms)
        return mk_case(top, systems_for(tree), kind, evict), top

    quick = tier == "quick"
    max_k = 3 if quick else 4
    renderings = []
    # 0a. bare keyword terms directly before a closing parenthesis (legal by `legal`, accepted by the code)
    for top in bare_keyword_tops():
        yield mk_case(top, SYSTEMS, "keyword-before-paren")
    # 0. every term of the alphabet alone, in every quoting
    for i in range(len(ATOMS)):
        for q in ("none", "single", "double", "random"):
            c, top = tree_case(["atom", i], ("minimal", "plain", q), "term")
            yield c
            renderings.append(top)
    for i in overflow:
        for k, shape in enumerate((["not", ["atom", None]], ["and", ["atom", None], ["atom", None]],
                                   ["or", ["not", ["atom", None]], ["atom", None]])):
            it = iter([i, good[k], good[k + 1]])
            c, top = tree_case(fill(shape, lambda: next(it)), VARIANTS[k], "overflow-term-in-tree")
            yield c
    # 1. all operator shapes
    reps = 2 * mult if quick else 3 * mult
    for k in range(1, max_k + 1):
        for shape in shapes(k):
            for variant in VARIANTS:
                for _ in range(reps):
                    c, top = tree_case(fill(shape, next_atom), variant, f"shape{k}:{variant[0]}/{variant[1]}")
                    yield c
                    if len(renderings) < 4000:
                        renderings.append(top)
    # 2. larger random trees
    for i in range((400 if quick else 5000) * mult):
        k = rng.randrange(4, 10)
        c, top = tree_case(fill(random_tree(rng, k), next_atom), rng.choice(VARIANTS), "random-tree",
                           evict=(i % 50 == 0))
        yield c
        renderings.append(top)
    # 3. hand-written error classes and near misses
    for s in HAND_WRITTEN:
        yield mk_case(None, SYSTEMS, "hand-written", expr=s)
    # 4. token/character mutations of legal renderings
    for i in range((2000 if quick else 30000) * mult):
        top = rng.choice(renderings)
        toks = [top["lead"]] + tokens(top["c"]) + [top["trail"]]
        s = mutate(rng, [t for t in toks])
        if rng.random() < 0.25:
            s = mutate(rng, [s])
        yield mk_case(None, SYSTEMS, "mutation", expr=s, evict=(i % 400 == 0))
    # 5. deep but harmless nesting (the parser uses ~5 Python frames per parenthesis level)
    yield mk_case(None, SYSTEMS[:3], "nesting", expr="(" * 120 + "web*" + ")" * 120)
    yield mk_case(None, SYSTEMS[:3], "nesting", expr="not " * 301 + "web*")
    yield mk_case(None, SYSTEMS[:3], "nesting", expr=" and ".join(["web*"] * 400) + " or " + " or ".join(["db*"] * 400))
    if not quick:
        yield mk_case(None, SYSTEMS[:3], "nesting", expr="(" * 400 + "web*" + ")" * 400)
        yield mk_case(None, SYSTEMS[:3], "nesting", expr="not(" * 300 + "web*" + ")" * 300)


# ------------------------------------------------------------------------------- implementation side
def env_of(case):
    return "plain"


def worker_setup(env):
    return None


def _call(f):
    try:
        r = f()
    except Exception as e:              # noqa: BLE001 - the class is the observation
        return "ValueError" if isinstance(e, ValueError) else type(e).__name__
    if r is True or r is False:
        return r
    return "non-bool:" + type(r).__name__


def run_impl(case, env):
    from vinegar.utils import system_matcher as sm
    expr = case["expr"]
    systems = case["systems"]

    def match_all():
        return [_call(lambda: sm.match(expr, system_id=i, system_data=d)) for i, d in systems]

    def matcher_all():
        try:
            m = sm.matcher(expr)
        except Exception as e:          # noqa: BLE001
            n = "ValueError" if isinstance(e, ValueError) else type(e).__name__
            return [n for _ in systems]
        return [_call(lambda: m.matches(system_id=i, system_data=d)) for i, d in systems]

    def _caches():
        # every functools cache of the matcher module (robust against renaming / re-layering)
        return [f for f in vars(sm).values() if callable(f) and hasattr(f, "cache_clear") and hasattr(f, "cache_info")]

    def clear_caches():
        for f in _caches():
            f.cache_clear()

    clear_caches()
    first = match_all()
    if case.get("evict"):
        for k in range(300):
            _call(lambda: sm.match(f"filler-{k}-*", system_id="x"))
    cached = match_all()
    clear_caches()
    mfirst = matcher_all()
    mcached = matcher_all()
    hits = sum(f.cache_info().hits for f in _caches())
    return {"first": first, "cached": cached, "mfirst": mfirst, "mcached": mcached,
            "cache_hits_second_matcher": hits}


# ------------------------------------------------------------------------------- model side
def cps(s):
    return [ord(c) for c in s]


def uncps(l):
    return "".join(chr(c) for c in l)


def cst_to_wire(c):
    t = c["t"]
    if t == "atom":
        return {"t": "atom", "key": None if c["key"] is None else cps(c["key"]), "kind": c["kind"],
                "pattern": cps(c["pattern"]), "cs": c["cs"], "shorthand": c["shorthand"], "slash": c["slash"],
                "keyq": c["keyq"], "patq": c["patq"]}
    if t == "not":
        return {"t": "not", "ws": cps(c["ws"]), "c": cst_to_wire(c["c"])}
    if t == "paren":
        return {"t": "paren", "ws1": cps(c["ws1"]), "c": cst_to_wire(c["c"]), "ws2": cps(c["ws2"])}
    return {"t": t, "l": cst_to_wire(c["l"]), "ws1": cps(c["ws1"]), "ws2": cps(c["ws2"]), "r": cst_to_wire(c["r"])}


def top_to_wire(top):
    if top is None:
        return None
    return {"lead": cps(top["lead"]), "c": cst_to_wire(top["c"]), "trail": cps(top["trail"])}


_drv = None


def _driver():
    global _drv
    if _drv is None or _drv.poll() is not None:
        if not os.path.exists(core.DRIVER):
            raise core.Infra("driver executable missing")
        _drv = subprocess.Popen([core.DRIVER], stdin=subprocess.PIPE, stdout=subprocess.PIPE, text=True, bufsize=1)
        atexit.register(_close_driver)
    return _drv


def _close_driver():
    global _drv
    if _drv is not None:
        try:
            _drv.stdin.close()
            _drv.wait(timeout=5)
        except Exception:
            _drv.kill()
        _drv = None


def _ask(req):
    d = _driver()
    d.stdin.write(json.dumps(req, separators=(",", ":")) + "\n")
    d.stdin.flush()
    line = d.stdout.readline()
    if not line:
        raise core.Infra("driver closed the pipe")
    return json.loads(line)


def valid_text(s):
    return all(not (0xD800 <= ord(c) <= 0xDFFF) for c in s)


def model_requests(case, obs):
    if not isinstance(obs, dict) or "first" not in obs or not valid_text(case["expr"]):
        return []
    wire_top = top_to_wire(case.get("cst"))
    r = _ask({"op": "matcher.parse", "expr": cps(case["expr"]), "cst": wire_top})
    if "ok" not in r:
        raise core.Infra(f"matcher.parse failed: {r}")
    table = []
    for a in r["ok"]["atoms"]:
        atom = {"key": None if a["key"] is None else uncps(a["key"]), "kind": a["kind"],
                "pattern": uncps(a["pattern"]), "cs": a["cs"]}
        ok = atom_ok(atom)
        vals = [bool(ok and atom_value(atom, i, d)) for i, d in case["systems"]]
        table.append({"key": a["key"], "kind": a["kind"], "pattern": a["pattern"], "cs": a["cs"], "ok": ok, "vals": vals})
    systems = []
    for i, d in case["systems"]:
        d = d or {}
        systems.append({"id": cps("" if i is None else i),
                        "data": [[cps(k), cps(subject({"key": k}, None, d))] for k in d]})
    return [{"op": "matcher.check", "expr": cps(case["expr"]), "cst": wire_top, "systems": systems, "atoms": table,
             "impl": {k: obs[k] for k in ("first", "cached", "mfirst", "mcached")}}]


def n_operators(expr):
    return len(re.findall(r"(?<![^\s()])(?:and|or|not)(?![^\s()])", expr))


def est_frames(expr):
    depth = best = 0
    for ch in expr:
        if ch == "(":
            depth += 1
            best = max(best, depth)
        elif ch == ")":
            depth = max(0, depth - 1)
    return 5 * best + len(re.findall(r"(?<![^\s()])not(?![^\s(])", expr))


def judge(case, obs, responses):
    J = core.Judgement
    if not responses:
        return J(case, True, False, {"infrastructure": obs}, kind="infrastructure", nontrivial=False)
    r = responses[0]
    if "ok" not in r:
        return J(case, True, False, {"infrastructure": r}, kind="infrastructure", nontrivial=False)
    r = r["ok"]
    impl = {k: obs[k] for k in ("first", "cached", "mfirst", "mcached")}
    flat = [o for k in impl for o in impl[k]]
    others = sorted({o for o in flat if isinstance(o, str) and o != "ValueError"})
    cst = r.get("cst")
    sem_ok = r["spec_impl"]["semantics"] and (cst is None or cst["impl_tree"])
    cache_ok = r["spec_impl"]["cache"]
    spec_ok = bool(sem_ok and cache_ok)
    clause = None
    if not spec_ok:
        if others:
            clause = "other_exception"
        elif not sem_ok:
            impl_rejects = any(o == "ValueError" for o in impl["first"])
            if r["accepted"] and impl_rejects:
                clause = "valid_expression_rejected"
            elif not r["accepted"]:
                clause = "invalid_expression_accepted"
            else:
                clause = "wrong_value"
        else:
            clause = "first_use_differs_from_cached_use"
    model_internal = {
        "missing_atoms": r["missing"], "literal_ok": r["literal_ok"], "styles_ok": r["styles_ok"],
        "spec_model": r["spec_model"], "cst": cst}
    internal_ok = (not r["missing"] and r["literal_ok"] and r["styles_ok"] and r["spec_model"]["semantics"]
                   and r["spec_model"]["cache"]
                   and (cst is None or (cst["legal"] and cst["render"] and cst["parse_abstract"] and cst["model_tree"])))
    agree = bool(internal_ok and r["model"] == impl)
    detail = None
    if not (spec_ok and agree):
        detail = {"expr": case["expr"], "impl": impl, "model": r["model"], "model_accepted": r["accepted"],
                  "model_error": r["error"], "model_internal": model_internal}
    outcome = "accepted" if r["accepted"] else "rejected:" + str(r["error"])
    if r["accepted"]:
        vals = set(o for o in r["model"]["first"])
        nontrivial = n_operators(case["expr"]) >= 1 or len(vals) > 1
    else:
        nontrivial = case["expr"].strip() != ""
    return J(case, spec_ok, agree, detail, kind=f"{case.get('_kind', 'replay')}:{outcome}", nontrivial=nontrivial,
             failed_clause=clause)


def signature(case, j):
    exc = None
    if isinstance(j.detail, dict) and "impl" in j.detail:
        for k in ("first", "cached", "mfirst", "mcached"):
            for o in j.detail["impl"][k]:
                if isinstance(o, str) and o != "ValueError" and exc is None:
                    exc = o
    return {"clause": j.failed_clause, "exception": exc, "deep_nesting": est_frames(case["expr"]) >= DEEP_FRAMES}


# ------------------------------------------------------------------------------- shrinking / neighbourhood
def _sub_csts(c):
    t = c["t"]
    if t == "atom":
        return []
    if t in ("not", "paren"):
        return [c["c"]]
    return [c["l"], c["r"]]


def _replace_child(c, i, new):
    c = dict(c)
    t = c["t"]
    if t in ("not", "paren"):
        c["c"] = new
    else:
        c["l" if i == 0 else "r"] = new
    return c


def shrink(case):
    out = []
    expr = case["expr"]
    base = {k: v for k, v in case.items() if not k.startswith("_")}
    top = case.get("cst")
    if top is not None:
        # a sub-expression alone; plain whitespace
        for sub in _sub_csts(top["c"]):
            out.append(dict(base, expr=render(sub), cst={"lead": "", "c": sub, "trail": ""}))
        for i, sub in enumerate(_sub_csts(top["c"])):
            for subsub in _sub_csts(sub):
                if top["c"]["t"] in ("and", "or") or (top["c"]["t"] == "paren"):
                    cand = _replace_child(top["c"], i, subsub)
                    out.append(dict(base, expr=render(cand), cst=None))
        if top["lead"] or top["trail"]:
            out.append(dict(base, expr=render(top["c"]), cst={"lead": "", "c": top["c"], "trail": ""}))
    # single tokens (terms) of the expression
    toks = [t for t in re.split(r"[\s()]+", expr) if t and t not in KEYWORDS]
    if len(toks) > 1:
        for t in sorted(set(toks), key=len, reverse=True)[:8]:
            out.append(dict(base, expr=t, cst=None))
    # balanced outer parentheses
    m = re.match(r"^(\(+)", expr)
    if m and expr.endswith(")"):
        n = min(len(m.group(1)), len(expr) - len(expr.rstrip(")")))
        for k in sorted({n // 2, n // 4, n // 8, 8, 1}, reverse=True):
            if 0 < k <= n:
                out.append(dict(base, expr=expr[k:len(expr) - k], cst=None))
    m = re.match(r"^((?:not\s)+)", expr)
    if m:
        n = len(m.group(1)) // 4
        for k in sorted({n // 2, n // 4, 8, 1}, reverse=True):
            if 0 < k <= n:
                out.append(dict(base, expr=expr[4 * k:], cst=None))
    # chunks of characters (a single short term is not cut further: every round costs a batch of worker processes)
    n = len(expr)
    size = n // 2 if (len(toks) > 1 or n > 40) else 0
    while size >= 1 and len(out) < 56:
        for start in range(0, n, size):
            out.append(dict(base, expr=expr[:start] + expr[start + size:], cst=None))
            if len(out) >= 56:
                break
        size //= 2
    if len(case["systems"]) > 1:
        out.insert(0, dict(base, systems=case["systems"][:1]))
        for s in case["systems"][1:3]:
            out.insert(1, dict(base, systems=[s]))
    if case.get("evict"):
        out.insert(0, dict(base, evict=False))
    seen, uniq = set(), []
    for c in out:
        k = json.dumps(c, sort_keys=True)
        if k not in seen and c != base:
            seen.add(k)
            uniq.append(c)
    return uniq


def neighbours(case, rng):
    base = {k: v for k, v in case.items() if not k.startswith("_")}
    out = []
    for _ in range(100):
        s = mutate(rng, [case["expr"]]) if case["expr"] else rng.choice(HAND_WRITTEN)
        out.append(dict(base, expr=s, cst=None, _kind="neighbour"))
    return out
