"""C02 — TFTP transfers are lock-step, retransmit boundedly on timeout only, always end."""
import tftp_common as T
from props import tftp_base as B
from props.tftp_base import env_of, worker_setup, run_impl, model_requests, shrink, neighbours, signature  # noqa

ID = "C02"
MODULE = "props.c02"
THEOREM_MODULES = ["Vinegar.Theorems.C02"]
THEOREMS = [
    "Vinegar.C02.c02Check_processRequest",
    "Vinegar.C02.c02Check_runTransfer",
    "Vinegar.C02.send_count_le",
    "Vinegar.C02.duration_bound",
]
TRUSTED_BASE = T.TRUSTED_BASE
ASSUMPTIONS = T.ASSUMPTIONS
RULE = ("sessions = RRQ datagram + handler result + event script (styles clean/faulty/edge/abort/silent/random aimed at the "
        "negotiated block size, interval and retry budget); a case is non-trivial if a transfer started and its trace has "
        "more than 3 events; distinct by SHA-1 of the whole case")
BUDGET_S = {"quick": 60, "thorough": 900}

judge = B.make_judge(required=["c02"], project=T.proj_flow)


def gen(rng, tier, mult=1):
    n = (2000 if tier == "quick" else 30000) * mult
    for i in range(n):
        style = ["edge", "faulty", "silent", "abort", "random", "clean"][i % 6]
        yield T.gen_transfer_case(rng, script_style=style, simple_cfg=(i % 3 == 0),
                                  bs_choices=[8, 9, 16] if i % 2 else None)
