"""C14 — Text-file source: line semantics, reverse lookup, complete reload on change."""
import textfile_common as T
from core import Judgement

ID = "C14"
MODULE = "props.c14"
THEOREM_MODULES = ["Vinegar.Theorems.C14"]
THEOREMS = [
    "Vinegar.C14.parse_spec",
    "Vinegar.C14.parse_error_spec",
    "Vinegar.C14.first_line_wins",
    "Vinegar.C14.find_spec",
    "Vinegar.C14.reload_refines",
    "Vinegar.C14.reload_checker_accepts",
    "Vinegar.C14.version_changes_with_data",
]
TRUSTED_BASE = T.TRUSTED_BASE
ASSUMPTIONS = T.ASSUMPTIONS
RULE = ("a case = line format (4 regex families with named, numbered and optional groups; ignore expression or none) × "
        "configuration (mismatch/duplicate actions, find_first_match, cache_enabled, 1-6 variables with colon keys, "
        "transformation chains over string.{to_lower,to_upper,to_str,add_prefix,add_suffix,split}, transform_none_value, "
        "use_none_value, occasionally invalid sources and conflicting keys) × initial file (missing | undecodable | content "
        "with LF/CRLF/CR/mixed endings, comment, blank, mismatching and duplicate lines) × history of rewrites (mutation of the "
        "previous lines or fresh), deletions, re-creations, undecodable rewrites, interleaved with get_data/find_system queries "
        "aimed at the transformed IDs/values (styles random/clean/strict), plus every history up to a length over a 6-letter "
        "alphabet (3 quick / 5 thorough) for 6 configurations; plus direct cases value × transformation chain comparing the "
        "modelled str methods with vinegar.transform.get_transformation_chain; non-trivial = at least one edit step and at least one call that "
        "returned data or a system; distinct by SHA-1 of the whole case")
BUDGET_S = {"quick": 60, "thorough": 1200}
EXHAUSTIVE = {"quick": False, "thorough": False}
CLAUSES = ("find", "versions", "reload")     # most specific first; "reload" is the whole property


def env_of(case):
    return T.ENV


def worker_setup(env):
    import logging
    logging.disable(logging.CRITICAL)


def run_impl(case, env):
    if case.get("kind") == "chain":
        return T.run_chain(case)
    return T.run_history(case)


def model_requests(case, obs):
    if case.get("kind") == "chain":
        return [{"op": "textfile.chain", "chain": case["chain"], "value": case["value"]}]
    if "contents" not in obs:
        return [{"op": "textfile.chain", "chain": [], "value": None}]
    return [T.model_request(case, obs)]


def judge_chain(case, obs, r):
    if "harness_exception" in obs or "err" in r:
        return Judgement(case, True, False, {"infrastructure": obs.get("harness_exception") or r.get("err")}, kind="infra",
                         nontrivial=False)
    agree = r["ok"] == obs
    return Judgement(case, True, agree, None if agree else {"chain": case["chain"], "impl": obs, "model": r["ok"]},
                     kind="chain/" + ("raised" if "raised" in obs else "ok"), nontrivial=bool(case["chain"]))


def judge(case, obs, resps):
    r = resps[0]
    if case.get("kind") == "chain":
        return judge_chain(case, obs, r)
    meta = case.get("_meta") or {}
    cfg = case["cfg"]
    if "harness_exception" in obs or "obs" not in obs or "err" in r:
        why = obs.get("harness_exception") or obs.get("ctor_raised") or r.get("err")
        return Judgement(case, True, False, {"infrastructure": why}, kind="infra", nontrivial=False)
    if obs.get("ver_collisions"):
        return Judgement(case, True, False, {"infrastructure": {"version_for_str not injective on": obs["ver_collisions"]}},
                         kind="infra", nontrivial=False)
    m = r["ok"]
    ci, cm = m["checks_impl"], m["checks_model"]
    clause = None
    for c in CLAUSES:
        if not ci[c]:
            clause = c
            break
    spec_ok = clause is None
    agree = (m["model_obs"] == obs["obs"]) and all(cm[c] for c in CLAUSES) and m["model_obs"] == m["spec_obs"]
    detail = None
    if not spec_ok or not agree:
        calls = [s for s in case["steps"] if s[0] in ("get", "find")]
        bad = [i for i, ok in enumerate(ci["verdicts"]) if not ok]
        i = bad[0] if bad else next((k for k, (a, b) in enumerate(zip(m["model_obs"], obs["obs"])) if a != b), None)
        detail = {"failed_checker": clause, "first_bad_call": i,
                  "call": calls[i] if i is not None and i < len(calls) else None,
                  "impl": obs["obs"][i] if i is not None and i < len(obs["obs"]) else None,
                  "spec": m["spec_obs"][i] if i is not None and i < len(m["spec_obs"]) else None,
                  "model": m["model_obs"][i] if i is not None and i < len(m["model_obs"]) else None,
                  "model_fails_own_checker": [c for c in CLAUSES if not cm[c]]}
    raised = sorted({o[1] for o in obs["obs"] if o[0] == "raised"})
    kind = "%s/%s/%s" % (meta.get("style", "-"), "cache" if cfg["cache"] else "nocache", "+".join(raised) or "ok")
    edits = any(s[0] in ("write", "delete") for s in case["steps"])
    useful = any((o[0] == "data" and o[1]) or (o[0] == "found" and o[1] is not None) for o in obs["obs"])
    return Judgement(case, spec_ok, agree, detail, kind=kind, nontrivial=edits and useful, failed_clause=clause)


def gen(rng, tier, mult=1):
    quick = tier == "quick"
    for c in T.enum_cases(3 if quick else 5, rng):
        yield c
    for c in T.both_match_cases():
        yield c
    n = (2400 if quick else 40000) * mult
    for i in range(n):
        yield T.gen_history_case(rng, style=["random", "clean", "strict", "random"][i % 4])
    for i in range((500 if quick else 20000) * mult):
        yield T.gen_chain_case(rng)


def shrink(case):
    if case.get("kind") == "chain":
        ch = case["chain"]
        return [dict(case, chain=ch[:i] + ch[i + 1:]) for i in range(len(ch))] + \
               [dict(case, value=case["value"][:i] + case["value"][i + 1:]) for i in range(len(case["value"] or ""))]
    return T.shrink_case(case)


def neighbours(case, rng):
    if case.get("kind") == "chain":
        return [T.gen_chain_case(rng) for _ in range(50)]
    return T.neighbours_case(case, rng)


def signature(case, j):
    if case.get("kind") == "chain":
        return {"clause": j.failed_clause, "kind": "chain"}
    d = j.detail or {}
    return {"clause": j.failed_clause, "cache": case["cfg"]["cache"], "steps": len(case["steps"]),
            "call": (d.get("call") or [None])[0]}
