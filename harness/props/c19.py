"""C19 — shared components are linearizable under every thread interleaving."""
import json

from core import Judgement

ID = "C19"
MODULE = "props.c19"
THEOREM_MODULES = ["Vinegar.Theorems.C19"]
THEOREMS = [
    "Vinegar.C19.mutex_inv",
    "Vinegar.C19.log_sequential",
    "Vinegar.C19.linearizable_run",
    "Vinegar.C19.linearizable_run_probe",
    "Vinegar.C19.linearizableP_sound",
    "Vinegar.C19.linearizableP_linearizable",
    "Vinegar.C19.linearizable_lru",
    "Vinegar.C19.linearizable_store",
    "Vinegar.C19.linearizable_textfile",
    "Vinegar.C19.linearizable_yaml",
    "Vinegar.C19.no_deadlock",
    "Vinegar.C19.lru_size_le",
]
TRUSTED_BASE = [
    "Lean 4.33.0 kernel; axioms of every listed theorem ⊆ {propext, Classical.choice, Quot.sound} (audited each run)",
    "harness/sched.py (deterministic scheduler: real threads serialised at traced source lines, cooperative locks) and "
    "harness/conc_adapter.py; the compiled Lean driver",
    "the theorems are about a lock-granularity model (acquire / load / store / release); that the code's critical sections "
    "are where the model says is established only by the enumerated schedules (exploration supporting the tie, not standing "
    "in for the theorem)",
    "the decision `is this observed run linearizable and does the probe made afterwards match` is taken in Lean for all four "
    "components (`Conc.linearizableP` at `lruStep` / `storeStep` / `tfStep` / `yamlStep`, driver ops conc.lru / conc.store / "
    "conc.textfile / conc.yaml); the step functions are the Lean models of the components' sequential behaviour that C15 "
    "(DataStore), C14 (TextFileSource) and C11/C12 (YamlTargetSource) verify against the code — their correspondence is "
    "trusted here and re-checked on every case by the cross-check below",
    "not modelled, delivered by the adapter with the real libraries (as for C14 / C12): classification of the text file's "
    "lines by `re`; rendering (vinegar's template engine), `yaml.safe_load` and the target matcher for the YAML tree; "
    "SQLite itself (the store model is a pure map)",
    "version strings: hashes of `vinegar.utils.version` are mapped to the model's symbolic versions through tables computed "
    "with the real functions over the values of the scenario (text file: lines; yaml: the versions conc.yaml_versions lists "
    "for the trees of the scenario); a hash outside the table is a result the model cannot return; stat stamps of the text "
    "file are the fixed stamps the scenario writes",
    "cross-check, not reference: the outcomes of the real code run sequentially on a fresh instance in every order "
    "(`conc_adapter.sequential_outcomes`) must agree with the Lean verdict for store / text file / yaml; a disagreement is "
    "reported as a broken correspondence (`agree = False`), not as a violation",
    "YamlTargetSource.get_data is not one critical section (lock-wrapped LRU, per-call compiler, last-writer-wins cache "
    "update): `linearizable_yaml` is about an idealisation; for this component only the decision procedure is in Lean and "
    "the claim about the real interleavings rests on the enumerated schedules",
]
ASSUMPTIONS = [
    "pre-emption only at source-line granularity of the traced vinegar files (bytecode-level races inside one line and C-level "
    "sqlite/GIL behaviour are outside the exploration)",
    "file changes are atomic replacements with fixed modification stamps",
    "version_for_str / aggregate_version are injective on the values of a scenario (a collision would be reported as a "
    "non-linearizable result); equal version of the preceding data means equal preceding data (the scenarios pass {} / '')",
]
RULE = ("scenario = component (synchronized LRU cache, DataStore, TextFileSource, YamlTargetSource) × 2-3 thread programs of 1-3 "
        "calls (+ a file-rewrite pseudo-thread for the file-backed sources) × schedule (start order × 0..2 pre-emptions at "
        "enumerated global step numbers); after the threads are joined a fixed probe of calls is made on the component; every run "
        "(per-thread calls with the results the real threads got + the probe) is judged by `Conc.linearizableP` in Lean on the "
        "Lean model of the component; non-trivial = the schedule actually switched threads before completion "
        "(switches > number of threads); distinct by SHA-1 of the case")
BUDGET_S = {"quick": 90, "thorough": 1800}


def env_of(case):
    return "plain"


def worker_setup(env):
    pass


def run_impl(case, env):
    import conc_adapter
    return conc_adapter.run_case(case)


def _runs(obs):
    return obs["sweep"] if "sweep" in obs else [obs]


LEAN_COMPS = ("lru", "store", "textfile", "yaml")     # linearization search runs in Lean on the Lean model
CROSS_CHECKED = ("store", "textfile", "yaml")         # … and is cross-checked against the real code run sequentially


def model_requests(case, obs):
    if case["comp"] in LEAN_COMPS and "harness_exception" not in obs:
        import conc_adapter
        return [conc_adapter.lean_request(case, o, obs.get("world")) for o in _runs(obs) if not o.get("deadlock")]
    return []


def judge(case, obs, resps):
    kind = case["comp"]
    if "harness_exception" in obs or any("err" in r for r in resps):
        return Judgement(case, True, False, {"infrastructure": obs.get("harness_exception") or resps}, kind="infra",
                         nontrivial=False)
    if "sweep" in obs:
        ri = 0
        for o in obs["sweep"]:
            sub = dict(case); sub.pop("sweep", None); sub["preempt"] = o["preempt"]
            rs = []
            if kind in LEAN_COMPS and not o.get("deadlock"):
                rs = [resps[ri]]; ri += 1
            j = judge(sub, o, rs)
            if not (j.spec_ok and j.agree):
                j.case = dict(case)
                j.detail = dict(j.detail or {}, failing_preemption=o["preempt"])
                return j
        return Judgement(case, True, True, None, kind + "/sweep", obs.get("runs", 0) > 0, None)
    nontrivial = obs.get("switches", 0) > len(case["threads"])
    if obs.get("deadlock"):
        return Judgement(case, False, False, {"deadlock": True, "trace": obs.get("trace")}, kind, nontrivial, "deadlock")
    bad_err = [e for e in obs.get("errors", [])]
    if bad_err:
        return Judgement(case, False, False, {"errors": bad_err}, kind, nontrivial, "call_failed")
    detail = {"results": obs.get("results"), "probe": obs.get("probe"), "trace": obs.get("trace")}
    if kind in LEAN_COMPS:
        # the verdict: `Conc.linearizableP step` evaluated by the driver on what the real threads returned
        lean = resps[0]["ok"]
        ok = bool(lean["linearizable"])
        detail["lean"] = lean
        if kind in CROSS_CHECKED:
            seq = bool(obs.get("in_sequential_outcomes"))
            detail["n_sequential_outcomes"] = obs.get("n_sequential_outcomes")
            if seq != ok:
                # the two references (Lean model / real code run sequentially) disagree about the sequential
                # behaviour: a broken correspondence (C14 / C15 territory), not a verdict about the threads
                detail["references_disagree"] = {"lean_model_accepts": ok, "real_sequential_code_accepts": seq}
                if seq and not ok and not nontrivial:
                    # this very run WAS sequential (no thread was switched away from before it had finished) and its
                    # results are not what the component's specification gives for any order of the calls: a call
                    # (or the probe afterwards) did not return correct, current data
                    return Judgement(case, False, True, detail, kind, True, "sequential_result_incorrect")
                return Judgement(case, True, False, detail, kind, nontrivial, None)
    else:
        raise ValueError("unknown component " + kind)
    return Judgement(case, ok, ok, None if ok else detail, kind, nontrivial, None if ok else "not_linearizable")


# ------------------------------------------------------------------ scenarios
T_STATES = ["aa:aa;10.0.0.1;alpha\nbb:bb;10.0.0.2;beta\n",
            "aa:aa;10.0.0.9;alpha\ncc:cc;10.0.0.1;gamma\n",
            "dd:dd;10.0.0.1;beta\n"]
# a file whose second line does not match (with mismatch_action "error" every call on it raises), then a good one
T_BAD_STATES = ["aa:aa;10.0.0.1;alpha\nthis line does not match\n", "aa:aa;10.0.0.1;alpha\nbb:bb;10.0.0.2;beta\n"]
# state 0 is the initial tree; every later state differs from it in exactly ONE file: a call that
# overlaps a change of several files may legitimately see some of them old and some new (there is
# no snapshot across files), the property is about a file being seen in one state per call
Y_STATES = [
    {"top.yaml": "'*':\n  - common\n'alpha':\n  - a\n",
     "common.yaml": "k: 1\nwho: {{ id }}\ninclude:\n  - shared\nm: 1\n",
     "a.yaml": "include:\n  - shared\nz: 1\n", "shared.yaml": "x: 1\n"},
    {"shared.yaml": "y: 2\n"},
    {"a.yaml": "include:\n  - shared\nq: 5\n"},
    {"top.yaml": "'*':\n  - a\n"},
]


def core_scenarios():
    """fixed scenarios that every run explores (the random ones vary with the seed)"""
    out = []
    out.append({"comp": "lru", "cfg": {"size": 2, "mark_on_update": True},
                "threads": [[["set", 1, 10], ["get", 1]], [["set", 2, 20], ["set", 3, 30]], [["len"], ["get", 1]]]})
    out.append({"comp": "lru", "cfg": {"size": 1, "mark_on_update": True},
                "threads": [[["set", 1, 10], ["getd", 1]], [["set", 2, 20]], [["getd", 1], ["getd", 2]]]})
    out.append({"comp": "store", "cfg": {"initial": [["a", "k", 1]]},
                "threads": [[["set", "a", "k", 2], ["get", "a", "k"]], [["del_all", "a"], ["data", "a"]]]})
    # a read of several rows overlapping a write of the same rows (execute ... fetchall is one critical section)
    out.append({"comp": "store", "cfg": {"initial": [["a", "j", 1], ["a", "k", 2], ["a", "m", 3], ["b", "k", 2]]},
                "threads": [[["data", "a"]], [["del_all", "a"]], [["find", "k", 2]]]})
    # more rows than one fetch batch (16): a row fetched early and a row fetched late are written in between
    out.append({"comp": "store", "cfg": {"initial": [["a", "k%02d" % i, 0] for i in range(20)]},
                "threads": [[["data", "a"]], [["set", "a", "k00", 1], ["set", "a", "k19", 1]]]})
    # a read that FAILS inside the store (the system id cannot be handed to SQLite: a lone surrogate) between other
    # calls: the failure is that call's own result, the store goes on serving the others (no lock is left behind)
    out.append({"comp": "store", "cfg": {"initial": [["a", "k", 1]]},
                "threads": [[["data", "\ud800"], ["get", "a", "k"]], [["set", "a", "k", 2], ["list"]]]})
    out.append({"comp": "store", "cfg": {"initial": [["a", "k", 1]]},
                "threads": [[["get", "\ud800", "k"]], [["find", "k", 1]], [["data", "a"]]]})
    # no cache: every call re-reads the file, and concurrent calls still see one consistent snapshot each
    out.append({"comp": "textfile", "cfg": {"states": T_STATES, "conf": {"cache_enabled": False}},
                "threads": [[["get", "alpha"]], [["get", "beta"]]]})
    out.append({"comp": "textfile", "cfg": {"states": T_STATES, "conf": {"cache_enabled": False, "find_first_match": True}},
                "threads": [[["find", "net:ip", "10.0.0.1"]], [["write", 1]], [["get", "gamma"]]]})
    # a reload that FAILS (mismatching line, action "error"): the failure is the result of every call on that file
    # state - also of the call that waited for the lock meanwhile and of the calls afterwards - until the file changes
    out.append({"comp": "textfile", "cfg": {"states": T_BAD_STATES, "conf": {"mismatch_action": "error"}},
                "threads": [[["get", "alpha"], ["get", "alpha"]], [["find", "net:ip", "10.0.0.1"]]]})
    out.append({"comp": "textfile", "cfg": {"states": T_BAD_STATES, "conf": {"mismatch_action": "error"}},
                "threads": [[["get", "alpha"]], [["write", 1]], [["get", "beta"], ["get", "alpha"]]]})
    # two writers of the same NEW key (and of an existing one): each call succeeds, the value is one of the two
    out.append({"comp": "store", "cfg": {"initial": [["b", "k", 0]]},
                "threads": [[["set", "a", "n", 1]], [["set", "a", "n", 2]], [["get", "a", "n"]]]})
    out.append({"comp": "store", "cfg": {"initial": [["a", "k", 1]]},
                "threads": [[["set", "a", "k", 2], ["set", "c", "k", 5]], [["set", "c", "k", 6], ["del", "a", "k"]]]})
    # readers overlapping a rewrite: a reader, the writer, another reader (reload) - in every order
    out.append({"comp": "textfile", "cfg": {"states": T_STATES, "conf": {}},
                "threads": [[["get", "alpha"]], [["write", 1]], [["get", "alpha"]]]})
    out.append({"comp": "textfile", "cfg": {"states": T_STATES, "conf": {"find_first_match": True}},
                "threads": [[["find", "net:ip", "10.0.0.1"]], [["write", 1]], [["get", "gamma"]]]})
    # two systems compiled concurrently by one source; a reader overlapping a rewrite of a twice-included file
    out.append({"comp": "yaml", "cfg": {"states": Y_STATES, "cache_size": 4},
                "threads": [[["get", "alpha"]], [["get", "beta"]]]})
    out.append({"comp": "yaml", "cfg": {"states": Y_STATES, "cache_size": 4},
                "threads": [[["get", "alpha"]], [["write", 1]], [["get", "beta"]]]})
    # a warm per-system cache and a file that the system reaches twice (common and a both include shared), rewritten
    # while the second call is under way: every file is seen in ONE state per call
    out.append({"comp": "yaml", "cfg": {"states": Y_STATES, "cache_size": 4},
                "threads": [[["get", "alpha"], ["get", "alpha"]], [["write", 1]]]})
    # a cache too small for both systems: the second call of one thread finds its entry, or finds it evicted
    out.append({"comp": "yaml", "cfg": {"states": Y_STATES, "cache_size": 1},
                "threads": [[["get", "alpha"], ["get", "alpha"]], [["get", "beta"]]]})
    return out


def scenarios(rng, tier):
    out = core_scenarios()
    lru_ops = lambda: [rng.choice([["get", rng.randrange(3)], ["getd", rng.randrange(3)], ["set", rng.randrange(3), rng.randrange(5)],
                                   ["del", rng.randrange(3)], ["contains", rng.randrange(3)], ["len"], ["clear"],
                                   ["set", rng.randrange(3), rng.randrange(5)]]) for _ in range(rng.randrange(1, 4))]
    for _ in range(4 if tier == "quick" else 40):
        out.append({"comp": "lru", "cfg": {"size": rng.choice([1, 2, 3]), "mark_on_update": rng.random() < 0.7},
                    "threads": [lru_ops() for _ in range(rng.choice([2, 2, 3]))]})
    store_op = lambda: rng.choice([["set", rng.choice("ab"), rng.choice(["k", "j"]), rng.choice([1, "x", None, [1, 2]])],
                                   ["get", rng.choice("ab"), rng.choice(["k", "j"])], ["del", rng.choice("ab"), "k"],
                                   ["del_all", rng.choice("ab")], ["data", rng.choice("ab")], ["find", "k", 1], ["list"]])
    for _ in range(3 if tier == "quick" else 30):
        out.append({"comp": "store", "cfg": {"initial": [["a", "k", 1]]},
                    "threads": [[store_op() for _ in range(rng.randrange(1, 3))] for _ in range(rng.choice([2, 3]))]})
    tf_op = lambda: rng.choice([["get", rng.choice(["alpha", "beta", "gamma"])], ["find", "net:ip", "10.0.0.1"],
                                ["find", "net:mac", "aa:aa"]])
    for _ in range(2 if tier == "quick" else 30):
        ths = [[tf_op() for _ in range(rng.randrange(1, 3))] for _ in range(rng.choice([1, 2]))]
        ths.insert(rng.randrange(len(ths) + 1), [["write", rng.choice([1, 2])]])
        out.append({"comp": "textfile", "cfg": {"states": T_STATES, "conf": {"find_first_match": rng.random() < 0.5,
                                                                              "cache_enabled": rng.random() < 0.6}},
                    "threads": ths})
    for _ in range(1 if tier == "quick" else 30):
        ths = [[["get", rng.choice(["alpha", "beta"])] for _ in range(rng.randrange(1, 3))] for _ in range(rng.choice([1, 2]))]
        ths.insert(rng.randrange(len(ths) + 1), [["write", rng.choice([1, 2, 3])]])
        out.append({"comp": "yaml", "cfg": {"states": Y_STATES, "cache_size": rng.choice([1, 4])}, "threads": ths})
    return out


def gen(rng, tier, mult=1):
    import itertools
    per = (8 if tier == "quick" else 150) * mult
    for sc in scenarios(rng, tier):
        n = len(sc["threads"])
        # baseline orders without pre-emption
        for order in itertools.permutations(range(n)):
            yield dict(sc, order=list(order), preempt=[], _meta={"style": "order"})
        if tier == "thorough" or sc["comp"] in ("lru", "textfile", "yaml") or sc in core_scenarios():
            m = 4 if sc["comp"] == "yaml" else 3
            # a single pre-emption at every traced line, to every thread, for every start order (after the
            # pre-empting thread has finished the scheduler continues round-robin, so the order decides who
            # runs between the pre-emption and the resumption)
            orders = list(itertools.permutations(range(n))) if (n <= 3 and (tier == "thorough" or sc["comp"] != "yaml"
                                                                           or sc in core_scenarios())) else [tuple(range(n))]
            for order in orders:
                for k in range(m):
                    yield dict(sc, order=list(order), sweep=[k, m], _meta={"style": "sweep"})
        for _ in range(per):
            k = rng.choice([1, 2, 2])
            pre = sorted([[rng.random(), rng.randrange(n)] for _ in range(k)])
            order = list(range(n))
            rng.shuffle(order)
            yield dict(sc, order=order, preempt_frac=pre, _meta={"style": "preempt%d" % k})


def shrink(case):
    if case.get("sweep"):
        return
    if "preempt_frac" in case:
        pf = case["preempt_frac"]
        for i in range(len(pf)):
            d = dict(case); d["preempt_frac"] = pf[:i] + pf[i + 1:]; yield d
        return
    pre = case.get("preempt", [])
    for i in range(len(pre)):
        d = dict(case); d["preempt"] = pre[:i] + pre[i + 1:]; yield d
    th = case["threads"]
    for i in range(len(th)):
        if len(th[i]) > 1:
            d = dict(case); d["threads"] = th[:i] + [th[i][:-1]] + th[i + 1:]; yield d
            d = dict(case); d["threads"] = th[:i] + [th[i][1:]] + th[i + 1:]; yield d
    if len(th) > 2:
        for i in range(len(th)):
            d = dict(case); d["threads"] = th[:i] + th[i + 1:]
            d["order"] = list(range(len(d["threads"])))
            d["preempt"] = [[s, min(t, len(d["threads"]) - 1)] for s, t in pre]
            yield d


def neighbours(case, rng):
    yield from shrink(case)
    n = len(case["threads"])
    for _ in range(60):
        d = dict(case)
        d.pop("preempt", None); d.pop("sweep", None)
        d["preempt_frac"] = sorted([[rng.random(), rng.randrange(n)] for _ in range(rng.choice([1, 2]))])
        yield d


def signature(case, j):
    return {"clause": j.failed_clause, "comp": case["comp"]}
