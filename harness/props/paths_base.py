"""Common implementation of the C06 / C04 property modules (see harness/paths_common.py)."""
import paths_common as P


def env_of(case):
    return P.ENV


def worker_setup(env):
    import paths_adapter
    paths_adapter.setup()


def run_impl(case, env):
    import paths_adapter
    return paths_adapter.run_case(P.strip_meta(case))


def model_requests(case, obs):
    return [P.model_request(P.strip_meta(case), obs)]


def shrink(case):
    return P.shrink_request(case)


def neighbours(case, rng):
    return P.neighbours_request(case, rng)


def signature(case, j):
    return P.signature(case, j)
