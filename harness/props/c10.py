"""C10 — first matching handler wins and sees the true request metadata (TFTP half here)."""
import tftp_common as T
from core import Judgement
from props import tftp_base as B
from props.tftp_base import env_of, worker_setup, run_impl, shrink, neighbours  # noqa

ID = "C10"
MODULE = "props.c10"
THEOREM_MODULES = ["Vinegar.Theorems.C10"]
THEOREMS = [
    "Vinegar.C10.dispatch_first",
    "Vinegar.C10.dispatch_calls",
    "Vinegar.C10.none_not_found",
    "Vinegar.C10.some_transfer",
    "Vinegar.C10.serverAddr_spec",
]
TRUSTED_BASE = T.TRUSTED_BASE
ASSUMPTIONS = T.ASSUMPTIONS + [
    "'contexts are never mixed between concurrent requests' holds in the model by construction (no shared state); for the "
    "code it is differential evidence only"]
RULE = ("handler lists of length 0..4 with arbitrary accept tables × request names × modes; with IPV6_PKTINFO (destination "
        "address of the datagram given) and without; bound addresses '::', '::1', '::ffff:127.0.0.1' and ports; the handler "
        "records every prepare_context/can_handle/handle call with all arguments; non-trivial = at least two handlers; "
        "distinct by SHA-1 of the case")
BUDGET_S = {"quick": 60, "thorough": 600}

_base = B.make_judge(required=[], project=lambda tr: [], need_request_port=True)


def expected_server_addr(case):
    """the C10 statement: (address the datagram was sent to, port it arrived on, flowinfo, scope)"""
    sn = case.get("sockname", ["::", 69, 0, 0])
    if case.get("pktinfo", True) and case.get("dst"):
        return [case["dst"]] + list(sn[1:])
    return list(sn)


def model_requests(case, obs):
    reqs = B.model_requests(case, obs)
    r = {"op": "tftp.serveraddr", "sockname": case.get("sockname", ["::", 69, 0, 0])}
    if case.get("pktinfo", True) and case.get("dst"):
        r["dst"] = case["dst"]
    return reqs + [r]


def judge(case, obs, resps):
    model_addr = resps[-1].get("ok")
    parts = B.parts_of(case, obs)
    js = [judge1(c, o, r, model_addr) for (c, o), r in zip(parts, resps[:-1])]
    bad = [j for j in js if not j.spec_ok] or [j for j in js if not j.agree]
    j = bad[0] if bad else js[0]
    j.case = case
    j.nontrivial = len(case["handlers"]) >= 2
    return j


def judge1(case, obs, resp, model_addr):
    j = _base(case, obs, [resp])
    if j.kind == "infra" or not j.agree:
        return j
    calls = obs.get("calls", [])
    req = resp.get("ok", {}).get("request", {})
    if req.get("kind") == "transfer":
        fname = req["filename"]
        # every call carries the undecoded file name, the handler's own context, and the true addresses
        for c in calls:
            if c[2] != fname:
                return Judgement(case, False, j.agree, {"call": c, "expected_filename": fname}, j.kind, True, "filename")
            if c[0] in ("can_handle", "handle"):
                ctx = c[-1]
                if ctx != ["ctx", c[1], fname]:
                    return Judgement(case, False, j.agree, {"call": c}, j.kind, True, "context")
            if c[0] == "handle":
                import sim_net
                if c[3] != list(sim_net.CLIENT_ADDR):
                    return Judgement(case, False, j.agree, {"call": c}, j.kind, True, "client_address")
                exp = expected_server_addr(case)
                if model_addr != exp:
                    return Judgement(case, True, False, {"model_server_address": model_addr, "statement": exp},
                                     j.kind, True, None)
                if c[4] != exp:
                    return Judgement(case, False, j.agree, {"call": c, "expected_server_address": exp}, j.kind, True,
                                     "server_address")
    return j


def signature(case, j):
    return {"clause": j.failed_clause, "pktinfo": bool(case.get("pktinfo", True) and case.get("dst"))}


SMALL = {"kind": "stream", "content": "6869", "caps": [], "size_known": True, "fault_after_bytes": None,
         "stream_kind": "bytesio"}
ERR = {"kind": "tftp_error", "code": 2}


def gen(rng, tier, mult=1):
    n = (1500 if tier == "quick" else 20000) * mult
    names = ["f", "g", "boot/x", "", "F"]
    for i in range(n):
        k = rng.choice([0, 1, 2, 2, 3, 4])
        hs = []
        for _ in range(k):
            acc = rng.choice([None, [], ["f"], ["g"], ["f", "g"], ["boot/x"], [""], ["F"]])
            hs.append({"accept": acc, "result": dict(rng.choice([SMALL, SMALL, ERR]))})
        fname = rng.choice(names)
        case = {"cfg": {"default_timeout_ticks": 2048, "max_timeout": 30, "max_retries": 1, "max_block_size": 65464,
                        "wrap": 0},
                "datagram": T.rrq_packet(fname, rng.choice(["octet", "netascii"]), []).hex(),
                "handlers": hs, "script": [["pkt", 0, 0, 0, T.ack(1)]],
                "pktinfo": rng.random() < 0.7,
                "sockname": rng.choice([["::", 69, 0, 0], ["::", 49179, 0, 0], ["::1", 6969, 0, 0],
                                        ["::ffff:127.0.0.1", 69, 0, 0], ["fe80::1", 69, 0, 3]]),
                "_meta": {"style": "dispatch", "handler": "stream"}}
        if rng.random() < 0.8:
            case["dst"] = rng.choice(["::1", "::ffff:192.0.2.1", "2001:db8::5", "fe80::1"])
        yield case
    for i in range(60 if tier == "quick" else 1500):
        yield T.gen_multi_case(rng)


import http_common  # noqa: E402
http_common.plug_http(globals(), ID)
