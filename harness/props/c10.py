"""C10 — first matching handler wins and sees the true request metadata (TFTP half here)."""
import tftp_common as T
from core import Judgement
from props import tftp_base as B
from props.tftp_base import shrink as _shrink_session, neighbours as _neighbours_session  # noqa

SCHED_ENV = "lifesched"


def env_of(case):
    return SCHED_ENV if case.get("kind") == "dispatch_sched" else B.env_of(case)


def worker_setup(env):
    if env == SCHED_ENV:
        return None         # no network simulation in this worker: the deterministic scheduler runs the real receive loop
    return B.worker_setup(env)


def run_impl(case, env):
    if case.get("kind") == "dispatch_sched":
        import life_sched_adapter
        return life_sched_adapter.run_case({k: v for k, v in case.items() if not k.startswith("_")})
    return B.run_impl(case, env)


def shrink(case):
    if case.get("kind") == "dispatch_sched":
        names = case["datagrams"]
        base = {k: v for k, v in case.items() if k != "sweep"}
        for i in range(len(names)):
            if len(names) > 2:
                yield dict(base, datagrams=names[:i] + names[i + 1:])
        return
    yield from _shrink_session(case)


def neighbours(case, rng):
    if case.get("kind") == "dispatch_sched":
        return
    yield from _neighbours_session(case, rng)

ID = "C10"
MODULE = "props.c10"
THEOREM_MODULES = ["Vinegar.Theorems.C10"]
THEOREMS = [
    "Vinegar.C10.dispatch_first",
    "Vinegar.C10.dispatch_calls",
    "Vinegar.C10.none_not_found",
    "Vinegar.C10.some_transfer",
    "Vinegar.C10.serverAddr_spec",
]
TRUSTED_BASE = T.TRUSTED_BASE
ASSUMPTIONS = T.ASSUMPTIONS + [
    "'contexts are never mixed between concurrent requests' holds in the model by construction (no shared state); for the "
    "code it is differential evidence: concurrent transfers in the simulation, and the REAL receive loop of TftpServer under "
    "the deterministic scheduler with read requests that arrive back to back (every single pre-emption, random schedules)"]
RULE = ("handler lists of length 0..4 with arbitrary accept tables × request names × modes; with IPV6_PKTINFO (destination "
        "address of the datagram given) and without; bound addresses '::', '::1', '::ffff:127.0.0.1' and ports; the handler "
        "records every prepare_context/can_handle/handle call with all arguments; non-trivial = at least two handlers; "
        "distinct by SHA-1 of the case; dispatch under the deterministic scheduler: 2-4 read requests from distinct "
        "client ports delivered back to back to the real receive loop, each must be offered and handled exactly once with its "
        "own file name, context and client address")
BUDGET_S = {"quick": 60, "thorough": 600}

_base = B.make_judge(required=[], project=lambda tr: [], need_request_port=True)


def expected_server_addr(case):
    """the C10 statement: (address the datagram was sent to, port it arrived on, flowinfo, scope)"""
    sn = case.get("sockname", ["::", 69, 0, 0])
    if case.get("pktinfo", True) and case.get("dst"):
        return [case["dst"]] + list(sn[1:])
    return list(sn)


def _judge_dispatch(case, obs):
    """several read requests that arrived back to back, the REAL receive loop under the deterministic scheduler: every
    request is offered to the handler once and handled once, with its own file name, its own context and the address of
    its own client - under every schedule explored"""
    outs = obs["sweep"] if "sweep" in obs else [obs]
    names = case["datagrams"]
    want_can = sorted(["can_handle", n, ["ctx", n]] for n in names)
    want_handle = sorted(["handle", n, ["ctx", n], ["::1", 41000 + i]] for i, n in enumerate(names))
    for o in outs:
        sub = {"kind": "dispatch_sched", "threads": case["threads"], "datagrams": names, "preempt": o.get("preempt"),
               "order": case.get("order")}
        if o.get("timed_out"):
            return Judgement(sub, True, False, {"infrastructure": "scheduler run timed out"}, "infra", False)
        clause = None
        if o.get("deadlock") or o.get("livelock"):
            clause = "never_ends"
        elif o.get("errors") or any(r != "ok" for rs in o["results"] for r in rs):
            clause = "raised"
        elif o.get("undelivered"):
            clause = None       # the server was stopped before it read every request: nothing to say about the rest
        if clause is None and not o.get("undelivered"):
            got_can = sorted(h for h in o["handled"] if h[0] == "can_handle")
            got_handle = sorted(h for h in o["handled"] if h[0] == "handle")
            if got_can != want_can or got_handle != want_handle:
                clause = "requests_mixed"
        if clause:
            return Judgement(sub, False, False, {"handled": o.get("handled"), "expected": want_handle,
                                                 "errors": o.get("errors")}, "dispatch_sched", True, clause)
    return Judgement(case, True, True, None, "dispatch_sched/" + ("sweep" if "sweep" in obs else "single"),
                     len(names) >= 2)


def model_requests(case, obs):
    if case.get("kind") == "dispatch_sched":
        return []
    reqs = B.model_requests(case, obs)
    r = {"op": "tftp.serveraddr", "sockname": case.get("sockname", ["::", 69, 0, 0])}
    if case.get("pktinfo", True) and case.get("dst"):
        r["dst"] = case["dst"]
    return reqs + [r]


def judge(case, obs, resps):
    if case.get("kind") == "dispatch_sched":
        if "harness_exception" in obs:
            return Judgement(case, True, False, {"infrastructure": obs}, "infra", False)
        return _judge_dispatch(case, obs)
    model_addr = resps[-1].get("ok")
    parts = B.parts_of(case, obs)
    js = [judge1(c, o, r, model_addr) for (c, o), r in zip(parts, resps[:-1])]
    if len(parts) > 1 and all(j.spec_ok for j in js):
        # several requests in flight: every request that the model hands to a handler is handled exactly once, with its
        # own file name - whatever the order in which the calls were logged (contexts and metadata never mixed)
        want = sorted(r.get("ok", {}).get("request", {}).get("filename", "") for r in resps[:-1]
                      if r.get("ok", {}).get("request", {}).get("kind") == "transfer")
        got = sorted(c[2] for c in obs.get("calls", []) if c[0] == "handle")
        if want != got:
            js.append(Judgement(case, False, False, {"handled_file_names": got, "requested_and_accepted": want},
                                "multi", True, "requests_mixed"))
    bad = [j for j in js if not j.spec_ok] or [j for j in js if not j.agree]
    j = bad[0] if bad else js[0]
    j.case = case
    j.nontrivial = len(case["handlers"]) >= 2
    return j


def judge1(case, obs, resp, model_addr):
    j = _base(case, obs, [resp])
    if j.kind == "infra" or not j.agree:
        return j
    calls = obs.get("calls", [])
    req = resp.get("ok", {}).get("request", {})
    if req.get("kind") == "transfer":
        fname = req["filename"]
        # every call carries the undecoded file name, the handler's own context, and the true addresses
        for c in calls:
            if c[2] != fname:
                return Judgement(case, False, j.agree, {"call": c, "expected_filename": fname}, j.kind, True, "filename")
            if c[0] in ("can_handle", "handle"):
                ctx = c[-1]
                if ctx != ["ctx", c[1], fname]:
                    return Judgement(case, False, j.agree, {"call": c}, j.kind, True, "context")
            if c[0] == "handle":
                import sim_net
                if c[3] != list(sim_net.CLIENT_ADDR):
                    return Judgement(case, False, j.agree, {"call": c}, j.kind, True, "client_address")
                exp = expected_server_addr(case)
                if model_addr != exp:
                    return Judgement(case, True, False, {"model_server_address": model_addr, "statement": exp},
                                     j.kind, True, None)
                if c[4] != exp:
                    return Judgement(case, False, j.agree, {"call": c, "expected_server_address": exp}, j.kind, True,
                                     "server_address")
    return j


def signature(case, j):
    return {"clause": j.failed_clause, "pktinfo": bool(case.get("pktinfo", True) and case.get("dst"))}


SMALL = {"kind": "stream", "content": "6869", "caps": [], "size_known": True, "fault_after_bytes": None,
         "stream_kind": "bytesio"}
ERR = {"kind": "tftp_error", "code": 2}


def gen_dispatch_sched(rng, tier):
    chunks = 4
    progs = [["start", "pause", "pause", "pause", "pause", "stop"]]
    for names in (["f0", "f1"], ["f0", "f1", "f2"], ["a", "a"]):
        for k in range(chunks):
            yield {"kind": "dispatch_sched", "threads": progs, "datagrams": names, "order": [0], "sweep": [k, chunks],
                   "servers": 1 + len(names), "max_steps": 20000, "_meta": {"style": "dispatch-sched"}}
    for i in range(30 if tier == "quick" else 600):
        names = ["f%d" % j for j in range(rng.choice([2, 3, 4]))]
        yield {"kind": "dispatch_sched", "threads": progs, "datagrams": names, "order": [0],
               "preempt_frac": sorted([rng.random(), rng.randrange(1 + 1 + len(names))] for _ in range(rng.choice([1, 2, 3]))),
               "max_steps": 20000, "_meta": {"style": "dispatch-sched"}}


def gen_sizes():
    """requests at the size limits of the request port (RFC 2347: at most 512 octets): long file names, many options"""
    cfg = {"default_timeout_ticks": 2048, "max_timeout": 30, "max_retries": 1, "max_block_size": 65464, "wrap": 0}
    for total in (100, 509, 510, 511, 512):
        for mode, opts in (("octet", []), ("netascii", []), ("octet", [["blksize", "8"]]),
                           ("octet", [["tsize", "0"], ["timeout", "2"]])):
            fixed = len(T.rrq_packet("", mode, opts))
            name = ("n" * 600)[:total - fixed]
            dg = T.rrq_packet(name, mode, opts)
            assert len(dg) == total
            for hs in ([{"accept": [name], "result": dict(SMALL)}],
                       [{"accept": ["other"], "result": dict(ERR)}, {"accept": None, "result": dict(SMALL)}]):
                yield {"cfg": cfg, "datagram": dg.hex(), "handlers": hs, "script": [["pkt", 0, 0, 0, T.ack(1)]],
                       "pktinfo": True, "sockname": ["::", 69, 0, 0], "dst": "::1",
                       "_meta": {"style": "dispatch-size-%d" % total, "handler": "stream"}}


def gen(rng, tier, mult=1):
    yield from gen_dispatch_sched(rng, tier)
    yield from gen_sizes()
    n = (1500 if tier == "quick" else 20000) * mult
    names = ["f", "g", "boot/x", "", "F"]
    for i in range(n):
        k = rng.choice([0, 1, 2, 2, 3, 4])
        hs = []
        for _ in range(k):
            acc = rng.choice([None, [], ["f"], ["g"], ["f", "g"], ["boot/x"], [""], ["F"]])
            hs.append({"accept": acc, "result": dict(rng.choice([SMALL, SMALL, ERR]))})
        fname = rng.choice(names)
        case = {"cfg": {"default_timeout_ticks": 2048, "max_timeout": 30, "max_retries": 1, "max_block_size": 65464,
                        "wrap": 0},
                "datagram": T.rrq_packet(fname, rng.choice(["octet", "netascii"]), []).hex(),
                "handlers": hs, "script": [["pkt", 0, 0, 0, T.ack(1)]],
                "pktinfo": rng.random() < 0.7,
                "sockname": rng.choice([["::", 69, 0, 0], ["::", 49179, 0, 0], ["::1", 6969, 0, 0],
                                        ["::ffff:127.0.0.1", 69, 0, 0], ["fe80::1", 69, 0, 3]]),
                "_meta": {"style": "dispatch", "handler": "stream"}}
        if rng.random() < 0.8:
            case["dst"] = rng.choice(["::1", "::ffff:192.0.2.1", "2001:db8::5", "fe80::1"])
        yield case
    for i in range(60 if tier == "quick" else 1500):
        yield T.gen_multi_case(rng)


import http_common  # noqa: E402
http_common.plug_http(globals(), ID)
