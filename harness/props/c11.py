"""C11 — YAML target source compiles the documented targeting/include/merge semantics."""
import yaml_common as Y
from core import Judgement

ID = "C11"
MODULE = "props.c11"
THEOREM_MODULES = ["Vinegar.Theorems.C11"]
THEOREMS = [
    "Vinegar.C11.compile_eq_doc",
    "Vinegar.C11.doc_complete",
    "Vinegar.C11.c11Check_compile",
    "Vinegar.C11.cycle_raises",
    "Vinegar.C11.cycle_never_ok",
    "Vinegar.C11.missing_raises",
    "Vinegar.C11.nonmapping_raises",
    "Vinegar.C11.bad_include_raises",
    "Vinegar.C11.empty_name_raises",
    "Vinegar.C11.above_root_raises",
    "Vinegar.C11.never_partial",
    "Vinegar.C11.preceding_not_merged",
    "Vinegar.C11.merge_key_order",
    "Vinegar.C11.expand_fuel_adequate",
    "Vinegar.C11.expand_no_recursion_error",
    "Vinegar.C11.compile_fuel_adequate",
    "Vinegar.C11.compile_no_recursion_error",
    "Vinegar.C11.expand_fuel_adequate_clean",
    "Vinegar.C11.compile_fuel_adequate_clean",
    "Vinegar.C11.linear_bound_fails",
    "Vinegar.C11.aliasTree_result",
    "Vinegar.C11.globMatch_star",
    "Vinegar.C11.globMatch_plain",
    "Vinegar.C11.globMatch_prefix_star",
]
TRUSTED_BASE = Y.TRUSTED_BASE
ASSUMPTIONS = Y.ASSUMPTIONS
RULE = ("case = configuration (merge flags, allow_empty_top, template engine on/off) + top-file spec + tree of file "
        "specs (styles dag/free/deep/diamond/alias: nested, relative, diamond and cyclic includes, init files, several "
        "names of one file through empty segments (a..b, a., leading dots) incl. self-inclusion without a cycle, include block "
        "at start/middle/end, conflicting keys, Jinja conditionals on id and preceding data, a malformed stream) + system "
        "id + preceding data; non-trivial if at least one data file was reached (result data non-empty or an error below "
        "the top file); distinct by SHA-1 of the whole case")
BUDGET_S = {"quick": 55, "thorough": 900}


def env_of(case):
    return "yaml"


def worker_setup(env):
    pass


def run_impl(case, env):
    import yaml_adapter
    return yaml_adapter.run_c11(Y.strip_meta(case))


def _cps(t):
    return [ord(c) for c in t]


def _eval_requests(case, obs):
    """the top file's target expressions, to be evaluated by the Lean matcher model on this system"""
    pd = case.get("pdata") or {}
    data = [[_cps(k), _cps("" if v is None else v if isinstance(v, str) else str(v))]
            for k, v in pd.items() if isinstance(k, str)]
    out = []
    for expr, m in obs.get("top_matches", []):
        if m in ("yes", "no") and all(not (0xD800 <= ord(c) <= 0xDFFF) for c in expr):
            out.append({"op": "matcher.eval", "expr": _cps(expr), "id": _cps(case["id"]), "data": data})
    return out


def model_requests(case, obs):
    if "view" not in obs:
        return []
    return [Y.c11_request(case, obs)] + _eval_requests(case, obs)


def judge(case, obs, resps):
    style = case.get("_meta", {}).get("style", "-")
    if "view" not in obs or not resps or "ok" not in resps[0]:
        why = obs.get("unsupported") or obs.get("harness_exception") or (resps[0].get("err") if resps else "no response")
        return Judgement(case, True, False, {"infrastructure": why, "obs": obs}, kind="infra", nontrivial=False)
    r = resps[0]["ok"]
    impl, model = obs["impl"], r["model"]
    if model[0] == "err" and model[1] == "UNSUPPORTED":
        return Judgement(case, True, False, {"infrastructure": "case outside the model domain", "model": model},
                         kind="infra", nontrivial=False)
    spec_ok = bool(r["spec_impl"])
    clause = None if spec_ok else ("data-differs-from-documentation" if impl[0] == "ok" and r["doc"][0] == "data"
                                   else "error-expected" if impl[0] == "ok" else "data-expected")
    if impl[0] == "ok":
        agree = model[0] == "ok" and model[1] == impl[1]
    else:
        agree = model[0] == "err" and model[1] == impl[1]
    detail = None
    if not r["spec_model"]:
        agree, detail = False, {"model_fails_own_checker": True, "model": model, "doc": r["doc"]}
    elif not agree or not spec_ok:
        detail = {"impl": impl, "model": model, "doc": r["doc"]}
    # the verdicts of the real matcher on the top file's expressions (shipped to the model as facts) against the value
    # the Lean matcher model gives them (literal and bracket-free glob terms on ASCII text; `null` elsewhere)
    pairs = [(e, m) for e, m in obs.get("top_matches", []) if m in ("yes", "no") and
             all(not (0xD800 <= ord(c) <= 0xDFFF) for c in e)]
    for (expr, m), resp in zip(pairs, resps[1:]):
        ev = resp.get("ok")
        if ev is None:
            continue
        if ev["value"] is not None and ev["value"] != (m == "yes") and spec_ok:
            spec_ok, clause = False, "target-expression-value"
            detail = {"expression": expr, "id": case["id"], "preceding_data": case.get("pdata"),
                      "matcher_says": m, "documented_value": ev["value"]}
        elif ev["value"] is None and ev["error"] is not None and agree:
            agree = False
            detail = detail or {"expression": expr, "lean_parser_rejects": ev["error"], "matcher_says": m}
    kind = f"{style}/" + ("ok" if impl[0] == "ok" else "err:" + (model[2] if model[0] == "err" else impl[1]))
    nontrivial = (impl[0] == "ok" and len(impl[1]) > 0) or (impl[0] == "err" and not str(impl[2]).startswith("top"))
    return Judgement(case, spec_ok, agree, detail, kind=kind, nontrivial=nontrivial, failed_clause=clause)


def gen(rng, tier, mult=1):
    n = (1500 if tier == "quick" else 30000) * mult
    styles = ["dag", "free", "dag", "deep", "diamond", "free", "alias"]
    for i in range(n):
        yield Y.gen_c11_case(rng, style=styles[i % len(styles)])


def shrink(case):
    return Y.shrink_c11(case)


def neighbours(case, rng):
    base = Y.strip_meta(case)
    for c in Y.shrink_c11(base):
        yield c
    import copy
    for _ in range(40):
        c = copy.deepcopy(base)
        c["id"] = rng.choice(Y.IDS)
        c["pdata"] = copy.deepcopy(rng.choice(Y.PDATAS))
        c["cfg"]["merge_lists"] = rng.random() < 0.5
        c["cfg"]["merge_sets"] = rng.random() < 0.5
        yield c


def signature(case, j):
    return {"clause": j.failed_clause, "files": len(case.get("files", {})), "template": case["cfg"].get("template")}
