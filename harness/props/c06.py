"""C06 — request-path matching and system lookup are exact and equal for HTTP and TFTP."""
import paths_common as P
import paths_gen as G
from props.paths_base import env_of, worker_setup, run_impl, model_requests, shrink, neighbours, signature  # noqa

ID = "C06"
MODULE = "props.c06"
THEOREM_MODULES = ["Vinegar.Theorems.C06", "Vinegar.Lemmas.PathsConstsTftp"]
THEOREMS = [
    "Vinegar.C06.matches_iff",
    "Vinegar.C06.lookup_value_spec",
    "Vinegar.C06.lookup_call_spec",
    "Vinegar.C06.template_context_spec",
    "Vinegar.C06.tftp_parity",
    "Vinegar.C06.tftp_parity_cfg",
    "Vinegar.C06.c06Check_model",
    "Vinegar.Paths.accepts_iff",
    "Vinegar.Paths.tftp_keep_prefixes_val",
    "Vinegar.Paths.sysIdKey_val",
]
TRUSTED_BASE = P.TRUSTED_BASE
ASSUMPTIONS = P.ASSUMPTIONS
RULE = ("cases = request_path shape (root, nested, placeholder first/middle/last, in-segment prefix/suffix, custom and "
        "degenerate placeholders, invalid configurations) x file/directory mode x request string (valid with random "
        "percent-encoding, segment-level mutations, random token strings over a segment alphabet with encoded chars, "
        "empty segments, queries, %2f, %252f, %00, overlong and truncated UTF-8, non-ASCII) x lookup_key / transform / "
        "no-result / data-source-error settings x HTTP | TFTP (TFTP cases also run the HTTP twin for parity); plus "
        "validation batches of the unquote / UTF-8 / split models; thorough adds all requests of <= 4 tokens over 8 "
        "tokens x 10 configurations. A case is non-trivial if the request was accepted; distinct by SHA-1 of the case")
BUDGET_S = {"quick": 60, "thorough": 1500}
EXHAUSTIVE = {"quick": False, "thorough": True}

judge = P.make_judge(ID, "c06", ["accept", "lookup", "template"], use_parity=True, project=P.project_c06)


def gen(rng, tier, mult=1):
    yield from G.gen_c06(rng, tier, mult)
