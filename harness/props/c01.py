"""C01 — TFTP octet transfers deliver the handler's bytes exactly, even under packet loss."""
import tftp_common as T
from props import tftp_base as B
from props.tftp_base import env_of, worker_setup, run_impl, model_requests, shrink, neighbours, signature  # noqa

ID = "C01"
MODULE = "props.c01"
THEOREM_MODULES = ["Vinegar.Theorems.C01", "Vinegar.Theorems.C02"]
THEOREMS = [
    "Vinegar.C01.blocks_flatten",
    "Vinegar.C01.blocks_framing",
    "Vinegar.C01.reader_independent_of_read_splitting",
    "Vinegar.C01.c01Check_runTransfer",
    "Vinegar.C01.complete_unless_aborted",
    "Vinegar.C01.serverErrorsJustified_iff",
    "Vinegar.C01.serverErrorsJustified_runTransfer",
    "Vinegar.C01.c02Step_ended",
    "Vinegar.C01.overflowEndsWithError_iff",
    "Vinegar.C01.overflowEndsWithError_runTransfer",
    "Vinegar.C01.idealPackets_numbers",
    "Vinegar.C01.idealPackets_wraps",
    "Vinegar.C01.idealPackets_stops",
    "Vinegar.C01.overflow_error_not_reuse",
    "Vinegar.C02.c02Check_runTransfer",
]
TRUSTED_BASE = T.TRUSTED_BASE
ASSUMPTIONS = T.ASSUMPTIONS
RULE = ("octet-mode sessions: contents of lengths {0, <bs, k*bs, k*bs±1, random} × block sizes {8,9,16,511,512,513,1468} × "
        "wrap {0,1,None} × short-read patterns {full, 1-byte, random, mixed} × scripts with lost/duplicate/stale/future/"
        "foreign/late packets within and beyond the retry budget; thorough adds transfers of more than 65535 blocks; "
        "non-trivial = a transfer started with > 3 trace events; distinct by SHA-1 of the case")
BUDGET_S = {"quick": 60, "thorough": 1200}

# "within the retry budget" is measured by the C02 automaton: a trace it rejects (re-sends at the wrong time) says nothing
# about premature give-ups, so the C02 checker is required as well
judge = B.make_judge(required=["c01", "c01_prefix", "c02"], project=T.proj_data)


def big_case(rng, wrap, extra_blocks):
    """more than 65535 blocks with bs = 8"""
    n = 65535 + extra_blocks
    content = bytes((i * 7 + 3) & 0xFF for i in range(8 * n - 3))
    script = [["pkt", 0, 0, 0, T.ack(0)]]
    k = 0
    for _ in range(n):
        if k == 65535:
            if wrap is None:
                break
            k = wrap
        else:
            k += 1
        script.append(["pkt", 0, 0, 0, T.ack(k)])
    return {"cfg": {"default_timeout_ticks": 2048, "max_timeout": 30, "max_retries": 1, "max_block_size": 65464,
                    "wrap": wrap},
            "datagram": T.rrq_packet("big", "octet", [["blksize", "8"]]).hex(),
            "handlers": [{"accept": None, "result": {"kind": "stream", "content": content.hex(), "caps": [],
                                                     "size_known": True, "fault_after_bytes": None,
                                                     "stream_kind": "bytesio"}}],
            "script": script, "_meta": {"style": "big", "handler": "stream", "wrap": wrap}}


def gen(rng, tier, mult=1):
    if tier == "quick":
        yield big_case(rng, 0, 2)           # the default configuration (wrap to 0), first: never cut off by the budget
        yield big_case(rng, None, 2)        # wrapping disabled: the transfer must end with an error after block 65535
    n = (1500 if tier == "quick" else 20000) * mult
    for i in range(n):
        style = ["clean", "faulty", "faulty", "edge", "random", "abort", "silent"][i % 7]
        yield T.gen_transfer_case(rng, netascii=False, script_style=style, simple_cfg=(i % 2 == 0),
                                  bs_choices=T.BLOCK_SIZES if i % 4 else None, handler_kind="stream",
                                  fault=(i % 11 == 0))
    if tier == "quick":
        yield big_case(rng, 1, 2)
    else:
        for w in (0, 1, None):
            yield big_case(rng, w, 3)
