"""C20 — server lifecycle; this module currently covers the transfer half (resources of every transfer ending)."""
import tftp_common as T
from props import tftp_base as B
from props.tftp_base import env_of, worker_setup, run_impl, model_requests, shrink, neighbours, signature  # noqa

ID = "C20"
MODULE = "props.c20"
THEOREM_MODULES = ["Vinegar.Theorems.C20"]
THEOREMS = [
    "Vinegar.C20.transfer_closes_resources",
]
TRUSTED_BASE = T.TRUSTED_BASE
ASSUMPTIONS = T.ASSUMPTIONS
RULE = ("all transfer endings of the simulation (completed, client ERROR, invalid packet, retries exhausted, block-counter "
        "overflow, handler TftpError, handler exception, stream read fault); non-trivial = a transfer thread ran; "
        "distinct by SHA-1 of the case")
BUDGET_S = {"quick": 60, "thorough": 600}


def _extra(v):
    if v.obs.get("threads_alive"):
        return "thread_still_alive"
    return None


judge = B.make_judge(required=["c20"], project=T.proj_resources, extra=_extra)


def gen(rng, tier, mult=1):
    n = (300 if tier == "quick" else 4000) * mult
    for i in range(n):
        yield T.gen_transfer_case(rng, script_style=["abort", "silent", "clean", "faulty", "edge", "random"][i % 6],
                                  simple_cfg=True, fault=(i % 3 == 0), bs_choices=[8, 16, 512])
