"""C20 — server lifecycle; this module currently covers the transfer half (resources of every transfer ending)."""
import tftp_common as T
from props import tftp_base as B
from core import Judgement

SCHED_ENV = "lifesched"


def env_of(case):
    return SCHED_ENV if case.get("kind") == "lifecycle_sched" else B.env_of(case)


def worker_setup(env):
    if env == SCHED_ENV:
        return None     # the stdlib must NOT be patched by the network simulation in this worker
    return B.worker_setup(env)

ID = "C20"
MODULE = "props.c20"
THEOREM_MODULES = ["Vinegar.Theorems.C20", "Vinegar.Theorems.C20Lifecycle", "Vinegar.Theorems.C02"]
THEOREMS = [
    "Vinegar.C20.transfer_closes_resources",
    "Vinegar.C02.c02Check_runTransfer",
    "Vinegar.C20Lifecycle.concurrent_end_consistent",
    "Vinegar.C20Lifecycle.no_deadlock",
    "Vinegar.C20Lifecycle.start_idem",
    "Vinegar.C20Lifecycle.stop_idem",
    "Vinegar.C20Lifecycle.seq_consistent",
    "Vinegar.C20Lifecycle.quiescent_stop_releases",
    "Vinegar.C20Lifecycle.seq_stop_refines",
]
TRUSTED_BASE = T.TRUSTED_BASE
ASSUMPTIONS = T.ASSUMPTIONS
RULE = ("all transfer endings of the simulation (completed, client ERROR, invalid packet, retries exhausted, block-counter "
        "overflow, handler TftpError, handler exception, stream read fault); non-trivial = a transfer thread ran; "
        "distinct by SHA-1 of the case; TFTP lifecycle: all sequential start/stop/request histories up to length 4 (6), "
        "concurrent calls with random delays, and the REAL start()/stop()/_run under the deterministic scheduler "
        "(sched.DynScheduler: every line of the three methods is a pre-emption point, the request-port thread is a "
        "scheduled worker, the socket is a stub): for pairs and triples of caller programs over {start, stop, "
        "start;stop, stop;start, start;start, stop;stop, start;stop;start} every single pre-emption (step x target "
        "thread) and random 2-4 pre-emption schedules; each run is replayed event by event (critical sections, "
        "request-port thread seeing the shutdown request / ending) on the Lean model's `step`; the REAL HttpServer likewise "
        "(cooperative Thread/Lock/Event through a `threading` shim in vinegar.http.server and socketserver, stub selector, "
        "real listening sockets on an ephemeral port; lines of start/stop/_run/serve_forever/shutdown are pre-emption "
        "points), each run replayed call by call on `Http.Lifecycle.call`")
BUDGET_S = {"quick": 60, "thorough": 600}


def _extra(v):
    if v.obs.get("threads_alive"):
        return "thread_still_alive"
    return None


# "timed out" is one of the endings: that it is reached when the retry budget says so is the C02 checker's verdict
_transfer_judge = B.make_judge(required=["c20", "c02"], project=T.proj_resources, extra=_extra)


def run_impl(case, env):
    if case.get("kind") == "lifecycle_sched":
        c = {k: v for k, v in case.items() if not k.startswith("_")}
        if case.get("server") == "http":
            import http_life_sched_adapter
            return http_life_sched_adapter.run_case(c)
        import life_sched_adapter
        return life_sched_adapter.run_case(c)
    import tftp_adapter
    if case.get("kind", "").startswith("lifecycle"):
        return tftp_adapter.run_lifecycle(case)
    return tftp_adapter.run_session(case)


def _sched_outcomes(obs):
    return obs["sweep"] if "sweep" in obs else [obs]


def model_requests(case, obs):
    k = case.get("kind", "")
    if k == "lifecycle_sched" and case.get("server") == "http":
        reqs = []
        for o in _sched_outcomes(obs):
            f = o.get("final") or {"running": False, "server_obj": False, "listening": False, "thread_ref": False,
                                   "thread_alive": False}
            reqs.append({"op": "http.lifecycle", "mode": "replay", "calls": [e["op"] for e in o.get("events", [])],
                         "final": {x: (f["thread_alive"] if f.get(x) is None else f[x]) for x in HTTP_FLAGS}})
        return reqs
    if k == "lifecycle_sched":
        reqs = []
        for o in _sched_outcomes(obs):
            f = o.get("final") or {"running": False, "shutdown_requested": False, "thread_alive": False,
                                   "socket_open": False}
            reqs.append({"op": "lifecycle.replay", "threads": [[x for x in t if x != "pause"] for t in case["threads"]],
                         "events": [{"k": e["k"], "t": e["t"]} for e in o.get("events", [])]})
            # a flag the harness could not observe (renamed attribute) is taken from what IS observable
            vis = {"running": f["thread_alive"] if f.get("running") is None else f["running"],
                   "shutdown_requested": False if f.get("shutdown_requested") is None else f["shutdown_requested"],
                   "thread_alive": f["thread_alive"], "socket_open": f["socket_open"]}
            reqs.append(dict({"op": "lifecycle.end"}, **vis))
        return reqs
    if k == "lifecycle_seq":
        return [{"op": "lifecycle.seq", "ops": case["ops"]}]
    if k == "lifecycle_conc":
        f = obs.get("final") or {"running": False, "shutdown_requested": False, "thread_alive": False,
                                 "socket_open": False}
        return [dict({"op": "lifecycle.end"}, **f), {"op": "lifecycle.seq", "ops": ["stop", "start", "request", "stop"]}]
    return B.model_requests(case, obs)


FLAGS = ("running", "shutdown_requested", "thread_alive", "socket_open")


def _judge_sched_one(case, o, replay, end):
    """one schedule of the real code: (spec_ok, clause, agree, detail)"""
    sub = {"threads": case["threads"], "preempt": o.get("preempt"), "order": case.get("order")}
    if o.get("timed_out"):
        return True, None, False, {"infrastructure": "scheduler run timed out", "schedule": sub}
    if o.get("deadlock"):
        return False, "deadlock", False, {"schedule": sub, "events": o["events"][-6:]}
    if o.get("livelock"):
        return False, "never_ends", False, {"schedule": sub, "events": o["events"][-6:]}
    bad = [r for rs in o["results"] for r in rs if r != "ok"]
    if bad or o.get("errors"):
        return False, "lifecycle_call_raised", False, {"schedule": sub, "results": o["results"], "errors": o["errors"]}
    f = o["final"]
    if not end["consistent"]:
        return False, "inconsistent_end_state", False, {"schedule": sub, "final": f, "events": o["events"][-8:]}
    if f["sockets_open"] > 1 or f["threads_alive"] > 1:
        return False, "leaked_socket_or_thread", False, {"schedule": sub, "final": f}
    for e in o["events"]:
        if e["state"]["sockets_open"] > 1 or e["state"]["threads_alive"] > 1:
            return False, "two_request_port_threads", False, {"schedule": sub, "event": e}
    # correspondence with the model, event by event
    window = False
    for i, (e, m) in enumerate(zip(o["events"], replay["steps"])):
        if e["k"] == "srv_sees_shutdown":
            window = True
        if e["k"] == "srv_end":
            window = False
        # while a shutdown is in progress (explicit window, or the model's flag) the request-port thread may be
        # anywhere between noticing the request and having ended: thread / socket are compared again at its end
        keys = FLAGS[:2] if (window or m["state"]["shutdown_requested"] or e.get("synthetic")) else FLAGS
        if not m["enabled"] or any(e["state"][x] is not None and e["state"][x] != m["state"][x] for x in keys):
            return True, None, False, {"schedule": sub, "event_index": i, "event": e, "model": m}
    if not replay["all_done"] or any(f[x] is not None and f[x] != replay["final"][x] for x in FLAGS):
        return True, None, False, {"schedule": sub, "final": f, "model_final": replay["final"],
                                   "model_all_done": replay["all_done"]}
    return True, None, True, None


HTTP_FLAGS = ("running", "server_obj", "listening", "thread_ref", "thread_alive")


def _judge_sched_http(case, o, m):
    sub = {"threads": case["threads"], "preempt": o.get("preempt"), "order": case.get("order"), "server": "http"}
    if o.get("timed_out"):
        return True, None, False, {"infrastructure": "scheduler run timed out", "schedule": sub}
    if o.get("deadlock"):
        return False, "deadlock", False, {"schedule": sub, "events": o["events"][-6:]}
    if o.get("livelock"):
        return False, "never_ends", False, {"schedule": sub, "events": o["events"][-6:]}
    bad = [r for rs in o["results"] for r in rs if r != "ok"]
    if bad or o.get("errors"):
        return False, "lifecycle_call_raised", False, {"schedule": sub, "results": o["results"], "errors": o["errors"]}
    f = o["final"]
    if not m["impl_final_consistent"]:
        return False, "inconsistent_end_state", False, {"schedule": sub, "final": f, "events": o["events"][-8:]}
    if f["sockets_open"] > 1 or f["threads_alive"] > 1 or (f["running"] is False and f["sockets_open"] > 0):
        return False, "leaked_socket_or_thread", False, {"schedule": sub, "final": f}
    for i, (e, ms) in enumerate(zip(o["events"], m["states"])):
        if e["state"]["sockets_open"] > 1 or e["state"]["threads_alive"] > 1:
            return False, "two_serving_threads", False, {"schedule": sub, "event": e}
        if any(e["state"][x] is not None and e["state"][x] != ms[x] for x in HTTP_FLAGS):
            return True, None, False, {"schedule": sub, "event_index": i, "event": e, "model": ms}
    if len(o["events"]) != sum(len(t) for t in case["threads"]) or any(
            f[x] is not None and f[x] != m["model_final"][x] for x in HTTP_FLAGS):
        return True, None, False, {"schedule": sub, "final": f, "model_final": m["model_final"],
                                   "calls_seen": len(o["events"])}
    return True, None, True, None


def _bare(case):
    hs = case.get("handlers") or []
    return len(hs) == 1 and (hs[0].get("result") or {}).get("stream_kind") == "bare"


def _judge_bare(case, obs):
    """a handler object outside the io contract (no fileno): the protocol outcome is not judged (the server may fail
    the transfer), the resources are: the file object and the socket are closed, the thread has ended"""
    if "harness_exception" in obs and "transfers" not in obs:
        return Judgement(case, True, False, {"infrastructure": obs["harness_exception"]}, kind="infra", nontrivial=False)
    trs = obs.get("transfers") or []
    tr = trs[0] if trs else []
    closes_f = sum(1 for e in tr if e[0] == "closeFile")
    closes_s = sum(1 for e in tr if e[0] == "closeSocket")
    ok = len(trs) == 1 and closes_f == 1 and closes_s == 1 and not obs.get("threads_alive")
    return Judgement(case, ok, True, None if ok else {"transfer_trace": tr[-12:], "closeFile": closes_f,
                                                      "closeSocket": closes_s, "threads_alive": obs.get("threads_alive")},
                     kind="transfer/bare-object", nontrivial=True, failed_clause=None if ok else "c20")


def judge(case, obs, resps):
    k = case.get("kind", "")
    if not k and _bare(case):
        return _judge_bare(case, obs)
    if k == "lifecycle_sched":
        if "harness_exception" in obs or any("err" in r for r in resps):
            return Judgement(case, True, False, {"infrastructure": obs.get("harness_exception") or
                                                 [r for r in resps if "err" in r][:1]}, kind="infra", nontrivial=False)
        outs = _sched_outcomes(obs)
        worst = None
        http = case.get("server") == "http"
        for i, o in enumerate(outs):
            r = _judge_sched_http(case, o, resps[i]["ok"]) if http else \
                _judge_sched_one(case, o, resps[2 * i]["ok"], resps[2 * i + 1]["ok"])
            if not r[0]:
                worst = r
                break
            if not r[2] and worst is None:
                worst = r
        style = "sweep" if "sweep" in obs else "single"
        if worst is None:
            return Judgement(case, True, True, None, kind=f"lifecycle_sched/{case.get('server', 'tftp')}/{style}",
                             nontrivial=sum(len(t) for t in case["threads"]) >= 2)
        spec_ok, clause, agree, detail = worst
        if "sweep" in case and detail and isinstance(detail.get("schedule"), dict):
            # the replay is the single failing schedule, not the whole sweep
            case = dict({k_: v for k_, v in case.items() if k_ != "sweep"}, preempt=detail["schedule"]["preempt"])
        return Judgement(case, spec_ok, agree, detail, kind=f"lifecycle_sched/{case.get('server', 'tftp')}/{style}",
                         nontrivial=True, failed_clause=clause)
    if not k.startswith("lifecycle"):
        return _transfer_judge(case, obs, resps)
    if "harness_exception" in obs or any("err" in r for r in resps):
        return Judgement(case, True, False, {"infrastructure": obs.get("harness_exception") or resps}, kind="infra",
                         nontrivial=False)
    if obs.get("errors") or obs.get("exc"):
        return Judgement(case, False, False, {"raised": obs.get("errors"), "logged": obs.get("exc")}, kind=k,
                         failed_clause="lifecycle_call_raised")
    if k == "lifecycle_seq":
        steps = resps[0]["ok"]["steps"]
        exp = []
        for op, st in zip(case["ops"], steps):
            if op == "request":
                exp.append(["request", st["ok"]])
            else:
                exp.append([op, st["state"]["thread_alive"], st["state"]["socket_open"]])
        agree = exp == obs["steps"]
        # the statement itself: after stop() thread ended and port released; requests served iff started
        spec_ok = agree or all(a == b for a, b in zip(exp, obs["steps"]))
        detail = None if agree else {"model": exp, "impl": obs["steps"]}
        clause = None
        if not agree:
            spec_ok, clause = False, "lifecycle_sequence"
        return Judgement(case, spec_ok, agree, detail, kind=k, nontrivial=len(case["ops"]) > 2, failed_clause=clause)
    # concurrent
    if obs.get("hung"):
        return Judgement(case, False, False, {"hung": True}, kind=k, failed_clause="deadlock")
    cons = resps[0]["ok"]["consistent"]
    steps = resps[1]["ok"]["steps"]
    exp_after = [["stop", False, False], ["start", True, True], ["request", True], ["stop", False, False]]
    ok_after = obs.get("after") == exp_after
    spec_ok = bool(cons) and ok_after
    clause = None if spec_ok else ("inconsistent_end_state" if not cons else "unusable_after_concurrent_calls")
    return Judgement(case, spec_ok, spec_ok, None if spec_ok else {"final": obs.get("final"), "after": obs.get("after")},
                     kind=k, nontrivial=True, failed_clause=clause)


def shrink(case):
    k = case.get("kind", "")
    if k == "lifecycle_sched":
        th = case["threads"]
        base = {k_: v for k_, v in case.items() if k_ != "sweep"}
        for i in range(len(th)):
            if len(th[i]) > 1:
                for j in range(len(th[i])):
                    d = dict(base); d["threads"] = th[:i] + [th[i][:j] + th[i][j + 1:]] + th[i + 1:]; yield d
        pre = case.get("preempt") or []
        for i in range(len(pre)):
            d = dict(base); d["preempt"] = pre[:i] + pre[i + 1:]; yield d
        return
    if k == "lifecycle_seq":
        ops = case["ops"]
        for i in range(len(ops)):
            d = dict(case); d["ops"] = ops[:i] + ops[i + 1:]; yield d
        return
    if k == "lifecycle_conc":
        th = case["threads"]
        for i in range(len(th)):
            if len(th) > 2:
                d = dict(case); d["threads"] = th[:i] + th[i + 1:]; yield d
            if len(th[i]) > 1:
                d = dict(case); d["threads"] = th[:i] + [th[i][:-1]] + th[i + 1:]; yield d
        return
    yield from B.shrink(case)


def neighbours(case, rng):
    if case.get("kind", "").startswith("lifecycle"):
        yield from shrink(case)
        return
    yield from B.neighbours(case, rng)


def signature(case, j):
    if case.get("kind", "").startswith("lifecycle"):
        return {"clause": j.failed_clause, "kind": case["kind"], "proto": "tftp"}
    return B.signature(case, j)


def gen_lifecycle(rng, tier, mult=1):
    import itertools
    maxlen = 4 if tier == "quick" else 6
    for n in range(1, maxlen + 1):
        for ops in itertools.product(["start", "stop", "request"], repeat=n):
            if tier == "thorough" or n <= 3 or rng.random() < 0.4:
                yield {"kind": "lifecycle_seq", "ops": list(ops), "_meta": {"style": "lifecycle"}}
    for i in range((25 if tier == "quick" else 400) * mult):
        k = rng.choice([2, 2, 3, 4])
        yield {"kind": "lifecycle_conc", "seed": rng.randrange(1 << 30),
               "threads": [[rng.choice(["start", "stop"]) for _ in range(rng.randrange(1, 4))] for _ in range(k)],
               "_meta": {"style": "lifecycle"}}


PROGRAMS = [["start"], ["stop"], ["start", "stop"], ["stop", "start"], ["start", "start"], ["stop", "stop"],
            ["start", "stop", "start"]]


def gen_lifecycle_sched(rng, tier, mult=1):
    """the real start()/stop()/_run under the deterministic scheduler: for each pair (triple) of caller programs
    every single pre-emption (every line of the three methods x every other thread, in chunks), and random pairs
    / triples of pre-emptions"""
    import itertools
    chunks = 4
    pairs = list(itertools.combinations_with_replacement(range(len(PROGRAMS)), 2))
    if tier == "quick":
        rng.shuffle(pairs)
        pairs = [(2, 3), (0, 1), (2, 2), (3, 3), (0, 2)] + [p for p in pairs if p not in ((2, 3), (0, 1), (2, 2), (3, 3), (0, 2))][:3]
    for a, b in pairs:
        for order in ([0, 1], [1, 0]):
            for k in range(chunks):
                for server in ("tftp", "http"):
                    yield {"kind": "lifecycle_sched", "server": server, "threads": [PROGRAMS[a], PROGRAMS[b]],
                           "order": order, "sweep": [k, chunks], "servers": 2, "_meta": {"style": "lifecycle-sched"}}
    triples = [(2, 3, 1), (0, 1, 2), (2, 2, 3)] if tier == "quick" else \
        [tuple(rng.randrange(len(PROGRAMS)) for _ in range(3)) for _ in range(30 * mult)]
    for t in triples:
        for k in range(chunks):
            for server in ("tftp", "http"):
                yield {"kind": "lifecycle_sched", "server": server, "threads": [PROGRAMS[x] for x in t],
                       "order": [0, 1, 2], "sweep": [k, chunks], "servers": 2, "_meta": {"style": "lifecycle-sched"}}
    # a request whose handler takes long to decide is being processed while stop() is called: stop() must still
    # wait for the request-port thread (a bounded join gives up after a bounded number of turns)
    for th in ([["start", "pause", "stop"]], [["start", "pause", "stop"], ["stop"]], [["start", "pause", "stop", "start"]],
               [["start"], ["pause", "stop"]]):
        for k in range(chunks):
            yield {"kind": "lifecycle_sched", "server": "tftp", "threads": th, "order": list(range(len(th))), "busy": 60,
                   "sweep": [k, chunks], "servers": 2, "max_steps": 20000, "_meta": {"style": "lifecycle-sched-busy"}}
    # steady traffic on the request port (a stray one-byte datagram whenever the loop looks): stop() must still be noticed
    for th in ([["start", "pause", "stop"]], [["start", "pause", "stop", "start", "pause", "stop"]],
               [["start", "pause", "stop"], ["pause", "stop"]]):
        for k in range(chunks):
            yield {"kind": "lifecycle_sched", "server": "tftp", "threads": th, "order": list(range(len(th))), "flood": True,
                   "sweep": [k, chunks], "servers": 2, "max_steps": 6000, "_meta": {"style": "lifecycle-sched-flood"}}
    for i in range((150 if tier == "quick" else 6000) * mult):
        nt = rng.choice([2, 2, 3])
        th = [PROGRAMS[rng.randrange(len(PROGRAMS))] for _ in range(nt)]
        order = list(range(nt))
        rng.shuffle(order)
        yield {"kind": "lifecycle_sched", "server": rng.choice(["tftp", "http"]), "threads": th, "order": order,
               "preempt_frac": sorted([rng.random(), rng.randrange(nt + 2)] for _ in range(rng.choice([2, 3, 4]))),
               "_meta": {"style": "lifecycle-sched"}}


def gen(rng, tier, mult=1):
    yield from gen_lifecycle(rng, tier, mult)
    yield from gen_lifecycle_sched(rng, tier, mult)
    n = (1000 if tier == "quick" else 15000) * mult
    for i in range(n):
        yield T.gen_transfer_case(rng, script_style=["abort", "silent", "clean", "faulty", "edge", "random"][i % 6],
                                  simple_cfg=True, fault=(i % 3 == 0), bs_choices=[8, 16, 512])
    for i in range(40 if tier == "quick" else 800):
        yield T.gen_multi_case(rng)
    # handler objects that offer only read/close/with: with and without tsize, octet and netascii
    for mode in ("octet", "netascii"):
        for opts in ([], [["tsize", "0"]], [["blksize", "8"], ["TSIZE", "0"]], [["tsize", "0"], ["timeout", "1"]]):
            for content in (b"", b"hello world, hello"):
                yield {"cfg": {"default_timeout_ticks": 2048, "max_timeout": 30, "max_retries": 1,
                               "max_block_size": 65464, "wrap": 0},
                       "datagram": T.rrq_packet("f", mode, opts).hex(),
                       "handlers": [{"accept": None, "result": {"kind": "stream", "content": content.hex(), "caps": [],
                                                                "size_known": False, "fault_after_bytes": None,
                                                                "stream_kind": "bare"}}],
                       "script": [["pkt", 0, 0, 0, T.ack(0).hex() if isinstance(T.ack(0), bytes) else T.ack(0)],
                                  ["pkt", 0, 0, 0, T.ack(1).hex() if isinstance(T.ack(1), bytes) else T.ack(1)],
                                  ["pkt", 0, 0, 0, T.ack(2).hex() if isinstance(T.ack(2), bytes) else T.ack(2)],
                                  ["pkt", 0, 0, 0, T.ack(3).hex() if isinstance(T.ack(3), bytes) else T.ack(3)]],
                       "_meta": {"style": "bare-object", "handler": "stream"}}


import http_common  # noqa: E402
http_common.plug_http(globals(), ID)
