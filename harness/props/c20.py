"""C20 — server lifecycle; this module currently covers the transfer half (resources of every transfer ending)."""
import tftp_common as T
from props import tftp_base as B
from props.tftp_base import env_of, worker_setup  # noqa
from core import Judgement

ID = "C20"
MODULE = "props.c20"
THEOREM_MODULES = ["Vinegar.Theorems.C20", "Vinegar.Theorems.C20Lifecycle"]
THEOREMS = [
    "Vinegar.C20.transfer_closes_resources",
    "Vinegar.C20Lifecycle.concurrent_end_consistent",
    "Vinegar.C20Lifecycle.no_deadlock",
    "Vinegar.C20Lifecycle.start_idem",
    "Vinegar.C20Lifecycle.stop_idem",
    "Vinegar.C20Lifecycle.seq_consistent",
    "Vinegar.C20Lifecycle.quiescent_stop_releases",
    "Vinegar.C20Lifecycle.seq_stop_refines",
]
TRUSTED_BASE = T.TRUSTED_BASE
ASSUMPTIONS = T.ASSUMPTIONS
RULE = ("all transfer endings of the simulation (completed, client ERROR, invalid packet, retries exhausted, block-counter "
        "overflow, handler TftpError, handler exception, stream read fault); non-trivial = a transfer thread ran; "
        "distinct by SHA-1 of the case")
BUDGET_S = {"quick": 60, "thorough": 600}


def _extra(v):
    if v.obs.get("threads_alive"):
        return "thread_still_alive"
    return None


_transfer_judge = B.make_judge(required=["c20"], project=T.proj_resources, extra=_extra)


def run_impl(case, env):
    import tftp_adapter
    if case.get("kind", "").startswith("lifecycle"):
        return tftp_adapter.run_lifecycle(case)
    return tftp_adapter.run_session(case)


def model_requests(case, obs):
    k = case.get("kind", "")
    if k == "lifecycle_seq":
        return [{"op": "lifecycle.seq", "ops": case["ops"]}]
    if k == "lifecycle_conc":
        f = obs.get("final") or {"running": False, "shutdown_requested": False, "thread_alive": False,
                                 "socket_open": False}
        return [dict({"op": "lifecycle.end"}, **f), {"op": "lifecycle.seq", "ops": ["stop", "start", "request", "stop"]}]
    return B.model_requests(case, obs)


def judge(case, obs, resps):
    k = case.get("kind", "")
    if not k.startswith("lifecycle"):
        return _transfer_judge(case, obs, resps)
    if "harness_exception" in obs or any("err" in r for r in resps):
        return Judgement(case, True, False, {"infrastructure": obs.get("harness_exception") or resps}, kind="infra",
                         nontrivial=False)
    if obs.get("errors") or obs.get("exc"):
        return Judgement(case, False, False, {"raised": obs.get("errors"), "logged": obs.get("exc")}, kind=k,
                         failed_clause="lifecycle_call_raised")
    if k == "lifecycle_seq":
        steps = resps[0]["ok"]["steps"]
        exp = []
        for op, st in zip(case["ops"], steps):
            if op == "request":
                exp.append(["request", st["ok"]])
            else:
                exp.append([op, st["state"]["thread_alive"], st["state"]["socket_open"]])
        agree = exp == obs["steps"]
        # the statement itself: after stop() thread ended and port released; requests served iff started
        spec_ok = agree or all(a == b for a, b in zip(exp, obs["steps"]))
        detail = None if agree else {"model": exp, "impl": obs["steps"]}
        clause = None
        if not agree:
            spec_ok, clause = False, "lifecycle_sequence"
        return Judgement(case, spec_ok, agree, detail, kind=k, nontrivial=len(case["ops"]) > 2, failed_clause=clause)
    # concurrent
    if obs.get("hung"):
        return Judgement(case, False, False, {"hung": True}, kind=k, failed_clause="deadlock")
    cons = resps[0]["ok"]["consistent"]
    steps = resps[1]["ok"]["steps"]
    exp_after = [["stop", False, False], ["start", True, True], ["request", True], ["stop", False, False]]
    ok_after = obs.get("after") == exp_after
    spec_ok = bool(cons) and ok_after
    clause = None if spec_ok else ("inconsistent_end_state" if not cons else "unusable_after_concurrent_calls")
    return Judgement(case, spec_ok, spec_ok, None if spec_ok else {"final": obs.get("final"), "after": obs.get("after")},
                     kind=k, nontrivial=True, failed_clause=clause)


def shrink(case):
    k = case.get("kind", "")
    if k == "lifecycle_seq":
        ops = case["ops"]
        for i in range(len(ops)):
            d = dict(case); d["ops"] = ops[:i] + ops[i + 1:]; yield d
        return
    if k == "lifecycle_conc":
        th = case["threads"]
        for i in range(len(th)):
            if len(th) > 2:
                d = dict(case); d["threads"] = th[:i] + th[i + 1:]; yield d
            if len(th[i]) > 1:
                d = dict(case); d["threads"] = th[:i] + [th[i][:-1]] + th[i + 1:]; yield d
        return
    yield from B.shrink(case)


def neighbours(case, rng):
    if case.get("kind", "").startswith("lifecycle"):
        yield from shrink(case)
        return
    yield from B.neighbours(case, rng)


def signature(case, j):
    if case.get("kind", "").startswith("lifecycle"):
        return {"clause": j.failed_clause, "kind": case["kind"], "proto": "tftp"}
    return B.signature(case, j)


def gen_lifecycle(rng, tier, mult=1):
    import itertools
    maxlen = 4 if tier == "quick" else 6
    for n in range(1, maxlen + 1):
        for ops in itertools.product(["start", "stop", "request"], repeat=n):
            if tier == "thorough" or n <= 3 or rng.random() < 0.4:
                yield {"kind": "lifecycle_seq", "ops": list(ops), "_meta": {"style": "lifecycle"}}
    for i in range((25 if tier == "quick" else 400) * mult):
        k = rng.choice([2, 2, 3, 4])
        yield {"kind": "lifecycle_conc", "seed": rng.randrange(1 << 30),
               "threads": [[rng.choice(["start", "stop"]) for _ in range(rng.randrange(1, 4))] for _ in range(k)],
               "_meta": {"style": "lifecycle"}}


def gen(rng, tier, mult=1):
    yield from gen_lifecycle(rng, tier, mult)
    n = (1000 if tier == "quick" else 15000) * mult
    for i in range(n):
        yield T.gen_transfer_case(rng, script_style=["abort", "silent", "clean", "faulty", "edge", "random"][i % 6],
                                  simple_cfg=True, fault=(i % 3 == 0), bs_choices=[8, 16, 512])
    for i in range(40 if tier == "quick" else 800):
        yield T.gen_multi_case(rng)


import http_common  # noqa: E402
http_common.plug_http(globals(), ID)
