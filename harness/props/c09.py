"""C09 — no client input stops a server or hits its internal-error path; TIDs isolated (TFTP half;
the HTTP half is added by props/c09_http in the same check)."""
import tftp_common as T
from props import tftp_base as B
from props.tftp_base import env_of, worker_setup, run_impl, model_requests, shrink, neighbours  # noqa

ID = "C09"
MODULE = "props.c09"
THEOREM_MODULES = ["Vinegar.Theorems.C09"]
THEOREMS = [
    "Vinegar.C09.classify_total_cases",
    "Vinegar.C09.peer_error_any_code_any_length",
    "Vinegar.C09.decodeFields_encode",
    "Vinegar.C09.decodeFields_sound",
    "Vinegar.C09.requestPort_reply_le_one",
    "Vinegar.C09.requestPort_transfer_only_rfc",
    "Vinegar.C09.decodeFields_rfcShape",
    "Vinegar.C09.requestPort_non_rrq",
    "Vinegar.C09.c09Check_runTransfer",
    "Vinegar.C09.processDatagramF_noRaise",
    "Vinegar.C09.dispatchCallsF_noRaise",
    "Vinegar.C09.handlerFailed_only_when_asked",
    "Vinegar.C09.dispatchCallsF_failing_no_handle",
    "Vinegar.C09.peer_error_silent",
    "Vinegar.C09.invalid_packet_one_error",
    "Vinegar.C09.foreign_gets_error5",
    "Vinegar.C09.foreign_then_pkt",
    "Vinegar.C09.foreign_then_silence",
    "Vinegar.C09.foreign_then_end",
    "Vinegar.C09.foreign_noninterference",
    "Vinegar.C09.foreign_noninterference_view",
    "Vinegar.C09.foreign_noninterference_outcome",
    "Vinegar.C09.foreign_noninterference_needs_side_condition",
    "Vinegar.C09.foreign_cpu_matters",
    "Vinegar.C09.foreign_c02_agree",
    "Vinegar.C09.foreign_c01_agree",
    "Vinegar.Tftp.awaitAck_sim",
    "Vinegar.Tftp.awaitAck_silence_as_delay",
    "Vinegar.C02.c02Check_runTransfer",
    "Vinegar.C01.c01Check_runTransfer",
]
TRUSTED_BASE = T.TRUSTED_BASE
ASSUMPTIONS = T.ASSUMPTIONS
RULE = ("(a) request-port datagrams: every datagram of length <= 1, every 2-byte opcode 0..8 and random ones (all 65536 in "
        "thorough), opcode/shape classes of length 3..5, grammar-generated RRQs (field counts, NUL placement, modes in any "
        "case, non-ASCII bytes, options) and byte-level mutations of them, 511/512/513/1500-byte datagrams; (b) transfers "
        "with ERROR (codes 0..8, 9, 255, 65535; lengths 2..604), short, unknown-opcode, RRQ/DATA/OACK, malformed-ACK and "
        "foreign-address packets injected at receive opportunities; non-trivial = datagram of >= 2 bytes or a transfer with "
        "> 3 events; distinct by SHA-1 of the case")
BUDGET_S = {"quick": 60, "thorough": 1200}

# a foreign packet must not affect the transfer's data or timing: the C01 / C02 checkers are required as well
judge = B.make_judge(required=["reqport", "c09", "c02", "c01"], project=T.proj_errors, nontrivial_port=True)


def signature(case, j):
    s = B.signature(case, j)
    return s


CFG = {"default_timeout_ticks": 2048, "max_timeout": 30, "max_retries": 1, "max_block_size": 65464, "wrap": 0}
SMALL = {"kind": "stream", "content": "68656c6c6f", "caps": [], "size_known": True, "fault_after_bytes": None,
         "stream_kind": "bytesio"}


def port_case(data, handlers=None, style="port"):
    return {"cfg": dict(CFG), "datagram": data.hex(),
            "handlers": handlers if handlers is not None else [{"accept": None, "result": dict(SMALL)}],
            "script": [], "_meta": {"style": style, "handler": "stream"}}


def gen_rrq_bytes(rng):
    fields = [rng.choice([b"f", b"", b"a/b", b"\xff\xfe", b"x" * 200, b"boot\x80"]),
              rng.choice([b"octet", b"OCTET", b"netascii", b"NetAscii", b"mail", b"MAIL", b"binary", b"", b"oct\xe9et",
                          b"octet "])]
    for _ in range(rng.choice([0, 0, 1, 2, 3])):
        fields.append(rng.choice([b"blksize", b"BLKSIZE", b"timeout", b"tsize", b"x", b"", b"blk\xffsize"]))
        fields.append(rng.choice([b"8", b"512", b"0", b"", b"abc", b"1", b"\xff8"]))
    if rng.random() < 0.2:
        fields = fields[:-1]            # odd number of fields
    body = b"\0".join(fields)
    tail = rng.choice([b"\0", b"\0", b"\0", b"", b"\0\0", b"\0x"])
    return b"\x00\x01" + body + tail


def mutate(rng, b):
    b = bytearray(b)
    for _ in range(rng.choice([1, 1, 2, 3])):
        k = rng.choice(["flip", "del", "ins", "nul", "trunc"])
        if k == "flip" and b:
            b[rng.randrange(len(b))] = rng.randrange(256)
        elif k == "del" and b:
            del b[rng.randrange(len(b))]
        elif k == "ins":
            b.insert(rng.randrange(len(b) + 1), rng.randrange(256))
        elif k == "nul":
            b.insert(rng.randrange(len(b) + 1), 0)
        elif k == "trunc" and b:
            del b[rng.randrange(len(b)):]
    return bytes(b)


def gen(rng, tier, mult=1):
    # (a) request port
    yield port_case(b"")
    for x in range(256):
        yield port_case(bytes([x]))
    ops2 = range(65536) if tier == "thorough" else list(range(0, 12)) + [255, 256, 257, 0x0100, 0xFFFF] + [
        rng.randrange(65536) for _ in range(40)]
    for op in ops2:
        yield port_case(bytes([op >> 8, op & 255]))
    for op in range(0, 9):
        for tail in (b"\0", b"\0\0", b"a", b"a\0", b"a\0b\0", b"\0\0\0", b"\x00\x01", b"\xff"):
            yield port_case(bytes([0, op]) + tail)
    n = (1500 if tier == "quick" else 20000) * mult
    for i in range(n):
        b = gen_rrq_bytes(rng)
        if i % 3 == 0:
            b = mutate(rng, b)
        pc = port_case(b, style="rrq")
        if i % 5 == 1:
            pc["debug_log"] = True      # the server's logger at DEBUG: the verbose branches run as well
        yield pc
    for size in (510, 511, 512, 513, 514, 1500):
        base = b"\x00\x01" + b"f" * (size - 2 - 7) + b"\0octet\0"
        yield port_case(base, style="big")
        yield port_case(base[:-1] + b"x", style="big")
        yield port_case(b"\x00\x01f\0octet\0" + b"k\0v\0" * ((size - 9) // 4), style="big")
    # handler lists that accept nothing / later ones
    for names in ([], ["g"], ["f"]):
        yield port_case(T.rrq_packet("f", "octet", []), handlers=[{"accept": names, "result": dict(SMALL)}], style="accept")
    # (b) packets injected into transfers
    m = (1200 if tier == "quick" else 20000) * mult
    for i in range(m):
        c = T.gen_transfer_case(rng, script_style=["abort", "abort", "faulty", "random"][i % 4], simple_cfg=True,
                                bs_choices=[8, 16], fault=(i % 7 == 0))
        # non-interference on the implementation itself: foreign datagrams handled in no time; the same transfer is
        # run again on the script without them and the client's views must coincide (C09.foreign_noninterference)
        sc = c.get("script", [])
        if any(e[0] == "pkt" and e[3] != 0 for e in sc):
            sc0 = [e if e[0] == "silence" or e[3] == 0 else ["pkt", e[1], 0, e[3], e[4]] for e in sc]
            if T.foreign_ok(sc0) and rng.random() < 0.7:
                c["script"] = sc0
                c["twin_script"] = T.drop_foreign(sc0)
                c["_meta"]["twin"] = True
        yield c
    for i in range(60 if tier == "quick" else 1500):
        yield T.gen_multi_case(rng)


import http_common  # noqa: E402
http_common.plug_http(globals(), ID)
