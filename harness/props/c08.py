"""C08 — netascii conversion is correct and independent of block and read boundaries."""
import itertools
import tftp_common as T
from core import Judgement
from props import tftp_base as B

ID = "C08"
MODULE = "props.c08"
THEOREM_MODULES = ["Vinegar.Theorems.C08", "Vinegar.Theorems.C07"]
THEOREMS = [
    "Vinegar.C08.chunk_ref",
    "Vinegar.C08.stream_eq_ref",
    "Vinegar.C08.netascii_framing",
    "Vinegar.C08.netascii_payloadsOK",
    "Vinegar.C08.netascii_no_tsize",
    "Vinegar.C08.c08_runTransfer",
    "Vinegar.C07.c07Check_runTransfer",
]
TRUSTED_BASE = T.TRUSTED_BASE
ASSUMPTIONS = T.ASSUMPTIONS
RULE = ("(a) reader-level cases: byte strings over {CR, LF, 'A'} × block sizes {8, 9} (and 1..3 in thorough) × partitions of "
        "the source into short reads (all cut sets of <= 2 cuts in quick, <= 4 in thorough, exhaustively up to the length "
        "bound 6 quick / 9 thorough), plus random binary contents with random caps; (b) full netascii sessions through the "
        "simulated network; non-trivial = content contains CR or LF; distinct by SHA-1 of the case")
BUDGET_S = {"quick": 60, "thorough": 1500}
EXHAUSTIVE = {"quick": False, "thorough": False}

_session_judge = B.make_judge(required=["c01", "c01_prefix", "c08_no_tsize"], project=T.proj_data)

env_of = B.env_of
worker_setup = B.worker_setup


def run_impl(case, env):
    import tftp_adapter
    if case.get("kind") == "blocks":
        return tftp_adapter.run_blocks(case)
    return tftp_adapter.run_session(case)


def model_requests(case, obs):
    if case.get("kind") == "blocks":
        return [{"op": "tftp.blocks", "netascii": case["netascii"], "bs": case["bs"], "content": case["content"],
                 "caps": case.get("caps") or [], "impl_blocks": obs.get("blocks", [])}]
    return B.model_requests(case, obs)


def judge(case, obs, resps):
    if case.get("kind") != "blocks":
        return _session_judge(case, obs, resps)
    r = resps[0]
    if "unobservable" in obs:
        # the private reader helpers were not found under any recognisable name: these reader-level cases say
        # nothing; the property is decided through whole transfers (same conversion, same framing)
        return Judgement(case, True, True, None, kind="blocks/unobservable", nontrivial=False)
    if "harness_exception" in obs or "err" in r:
        return Judgement(case, True, False, {"infrastructure": obs.get("harness_exception") or r.get("err")}, kind="infra",
                         nontrivial=False)
    m = r["ok"]
    spec_ok = bool(m.get("ok_impl"))
    agree = m["blocks"] == obs["blocks"] and m.get("ok_model")
    content = bytes.fromhex(case["content"])
    detail = None
    if not spec_ok or not agree:
        detail = {"impl_blocks": obs["blocks"][:10], "model_blocks": m["blocks"][:10]}
    return Judgement(case, spec_ok, agree, detail, kind="blocks/" + ("na" if case["netascii"] else "octet"),
                     nontrivial=(13 in content or 10 in content), failed_clause=None if spec_ok else "payloadsOK")


def caps_from_cuts(n, cuts):
    """a caps list that cuts the reads of an n-byte source at the given offsets (reads are also
    limited by what the reader asks for, so this is 'at most' — every boundary still occurs)"""
    out, prev = [], 0
    for c in cuts:
        out.append(c - prev)
        prev = c
    return out


def gen(rng, tier, mult=1):
    maxlen = 6 if tier == "quick" else 9
    maxcuts = 2 if tier == "quick" else 4
    sizes = [8, 9] if tier == "quick" else [8, 9, 1, 2, 3]
    alphabet = [13, 10, 65]
    count = 0
    limit = (2500 if tier == "quick" else 400000) * mult
    for n in range(0, maxlen + 1):
        for tup in itertools.product(alphabet, repeat=n):
            content = bytes(tup)
            for k in range(0, min(maxcuts, max(0, n - 1)) + 1):
                for cuts in itertools.combinations(range(1, n), k) if n > 1 else [()]:
                    bs = sizes[count % len(sizes)]
                    if tier == "thorough" or (count % 3 == 0):
                        yield {"kind": "blocks", "netascii": True, "bs": bs, "content": content.hex(),
                               "caps": caps_from_cuts(n, cuts)}
                    count += 1
                    if count > limit * 3:
                        break
    # the 1-byte-block edge (content ends in CR right at a block end) with longer strings
    for i in range((300 if tier == "quick" else 5000) * mult):
        n = rng.randrange(0, 80)
        content = bytes(rng.choice([13, 10, 13, 10, 65, 0, 255]) for _ in range(n))
        yield {"kind": "blocks", "netascii": True, "bs": rng.choice([8, 9, 16, 512]), "content": content.hex(),
               "caps": T.gen_caps(rng, n)}
    for i in range((60 if tier == "quick" else 800) * mult):
        n = rng.randrange(0, 3000)
        content = bytes(rng.randrange(256) for _ in range(n))
        yield {"kind": "blocks", "netascii": rng.random() < 0.8, "bs": rng.choice(T.BLOCK_SIZES), "content": content.hex(),
               "caps": T.gen_caps(rng, n)}
    for i in range((600 if tier == "quick" else 8000) * mult):
        yield T.gen_transfer_case(rng, netascii=True, script_style=["clean", "faulty", "clean", "edge"][i % 4],
                                  simple_cfg=True, bs_choices=[8, 9, 16, 512], handler_kind="stream",
                                  opt_style=["none", "tsize", "mixed", "blksize"][i % 4])


def shrink(case):
    if case.get("kind") != "blocks":
        yield from B.shrink(case)
        return
    content = bytes.fromhex(case["content"])
    for newc in (content[:len(content) // 2], content[len(content) // 2:], content[:-1], content[1:]):
        if len(newc) < len(content):
            d = dict(case); d["content"] = newc.hex(); yield d
    for i in range(len(content)):
        d = dict(case); d["content"] = (content[:i] + content[i + 1:]).hex(); yield d
    caps = case.get("caps") or []
    if caps:
        d = dict(case); d["caps"] = caps[:-1]; yield d
        d = dict(case); d["caps"] = caps[1:]; yield d
    for i, b in enumerate(content):
        if b not in (13, 10, 65):
            d = dict(case); d["content"] = (content[:i] + b"A" + content[i + 1:]).hex(); yield d


def neighbours(case, rng):
    if case.get("kind") != "blocks":
        yield from B.neighbours(case, rng)
        return
    yield from shrink(case)
    content = bytes.fromhex(case["content"])
    for _ in range(50):
        c = bytearray(content)
        if c:
            c[rng.randrange(len(c))] = rng.choice([13, 10, 65])
        d = dict(case); d["content"] = bytes(c).hex(); d["caps"] = T.gen_caps(rng, len(c)); yield d


def signature(case, j):
    if case.get("kind") == "blocks":
        return {"clause": j.failed_clause, "kind": "blocks"}
    return B.signature(case, j)
