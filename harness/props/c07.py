"""C07 — TFTP option negotiation follows RFC 2347-2349; the transfer honours the OACK."""
import tftp_common as T
from props import tftp_base as B
from props.tftp_base import env_of, worker_setup, run_impl, model_requests, shrink, neighbours  # noqa

ID = "C07"
MODULE = "props.c07"
THEOREM_MODULES = ["Vinegar.Theorems.C07"]
THEOREMS = [
    "Vinegar.C07.oack_iff_accepted",
    "Vinegar.C07.oack_names_subset",
    "Vinegar.C07.blksize_spec",
    "Vinegar.C07.timeout_spec",
    "Vinegar.C07.timeout_echoed",
    "Vinegar.C07.tsize_spec",
    "Vinegar.C07.blockSize_bounds",
    "Vinegar.C07.clampCfg_bounds",
    "Vinegar.C07.showNat_parseNat",
    "Vinegar.C07.c07Check_runTransfer",
    "Vinegar.C07.uses_negotiated_blocksize",
    "Vinegar.C07.retransmit_interval",
    "Vinegar.C07.tsize_value",
    "Vinegar.C07.tsize_eq_transferred",
    "Vinegar.C01.c01Check_runTransfer",
    "Vinegar.C02.c02Check_runTransfer",
]
TRUSTED_BASE = T.TRUSTED_BASE
ASSUMPTIONS = T.ASSUMPTIONS + [
    "stream kinds: BytesIO (offset 0 / > 0), regular file (offset 0 / > 0), pipe, and a raw stream without file descriptor; "
    "how the server probes them (isinstance / fstat / tell) is differential evidence, the model only knows 'size known'"]
RULE = ("sessions whose RRQ carries subsets/orders of {blksize, timeout, tsize, unknown} with names in any letter case and "
        "values from the boundary grid (0,1,7,8,511,512,max-1,max,max+1,65464,65465, non-decimal, signed, padded, huge), "
        "duplicate names, × server limits × stream kinds × octet/netascii; scripts acknowledge everything so that the "
        "transfer completes; non-trivial = at least one option in the request; distinct by SHA-1 of the case")
BUDGET_S = {"quick": 60, "thorough": 900}

judge = B.make_judge(required=["c07", "c01", "c02"], project=T.proj_negotiation)


def signature(case, j):
    s = B.signature(case, j)
    s["stream_kind"] = case["handlers"][0]["result"].get("stream_kind")
    return s


def gen(rng, tier, mult=1):
    n = (2000 if tier == "quick" else 30000) * mult
    kinds = ("bytesio", "bytesio", "raw", "file", "file", "pipe")
    for i in range(n):
        c = T.gen_transfer_case(rng, opt_style=["weird", "mixed", "blksize", "timeout", "tsize", "mixed"][i % 6],
                                script_style="clean" if i % 5 else "faulty", handler_kind="stream",
                                stream_kinds=kinds)
        r = c["handlers"][0]["result"]
        if r.get("stream_kind") == "pipe" and len(r["content"]) > 2 * 60000:
            r["stream_kind"] = "raw"
        yield c
