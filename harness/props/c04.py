"""C04 — file serving is confined to the configured root directory or file."""
import paths_common as P
import paths_gen as G
from props.paths_base import env_of, worker_setup, run_impl, model_requests, shrink, neighbours, signature  # noqa

ID = "C04"
MODULE = "props.c04"
THEOREM_MODULES = ["Vinegar.Theorems.C04"]
THEOREMS = [
    "Vinegar.C04.translate_confined",
    "Vinegar.C04.translate_spec",
    "Vinegar.C04.opens_only_translated",
    "Vinegar.C04.nonregular_not_found",
    "Vinegar.C04.unauthorised_or_unmatched_opens_nothing",
    "Vinegar.C04.c04Check_model",
]
TRUSTED_BASE = P.TRUSTED_BASE
ASSUMPTIONS = P.ASSUMPTIONS
RULE = ("request = matching prefix + '/'-joined tokens of the adversarial alphabet {.., ., %2e%2e, %2e, ..%2f, %5c.., "
        "\\.., empty (repeated slash / trailing slash), %00, %252e%252e, ?, a 300-character name, a.txt, b, c.txt, more "
        "(names below the regular file a.txt)}: all sequences of length <= 2 (quick) / <= 4 (thorough; plus length 5-6 "
        "over a 7-token core), a bounded sample of the remaining lengths up to 6, requests naming existing files (plain, re-"
        "encoded, repeated slashes), random longer sequences over a wider alphabet; rotated over 36 configurations (HTTP | TFTP x template on/off x request_path with/without "
        "placeholder x file_suffix, file mode) on a sandbox tree with decoy files next to and above the root; every "
        "open() audit event of the handling window is recorded. Validation batches: normpath, _translate_path over 9 "
        "roots, split/join, unquote. Non-trivial = accepted request; distinct by SHA-1 of the case")
BUDGET_S = {"quick": 60, "thorough": 1800}
EXHAUSTIVE = {"quick": False, "thorough": True}

judge = P.make_judge(ID, "c04", ["confined", "target", "outcome", "quiet"], use_parity=False)


def gen(rng, tier, mult=1):
    yield from G.gen_c04(rng, tier, mult)
