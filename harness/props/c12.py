"""C12 — YAML target caching is transparent: never stale, isolated, versions track data."""
import yaml_common as Y
from core import Judgement

ID = "C12"
MODULE = "props.c12"
THEOREM_MODULES = ["Vinegar.Theorems.C12"]
THEOREMS = [
    "Vinegar.C12.lru_spec",
    "Vinegar.C12.compile_transparent",
    "Vinegar.C12.compile_preserves_valid",
    "Vinegar.C12.history_transparent",
    "Vinegar.C12.version_separates_data",
    "Vinegar.C12.one_read_per_file",
]
TRUSTED_BASE = Y.TRUSTED_BASE
ASSUMPTIONS = Y.ASSUMPTIONS + [
    "Jinja's own template cache (auto_reload keyed on path, ctime, mtime, inode, size) is exercised by the histories "
    "but not modelled; the sandbox bumps mtime deterministically on every edit",
]
RULE = ("case = configuration (cache_size in {0,1,2,64}, template engine on/off, merge flags) + initial tree + history "
        "of {write, delete, mkdir, swap file<->dir/init, top edit, get(system, preceding data)} with file contents drawn "
        "from a small per-case pool; after every get the long-lived source is compared with a freshly constructed "
        "cache-less source and with the Lean model, the returned data is mutated by the harness; non-trivial if the "
        "history has at least two successful gets separated by a modification; plus direct get/set sequences on the cache "
        "object (LRUCache sizes 1,2,3,64 and the NullCache) against the model and the recency-list reference; distinct "
        "by SHA-1 of the whole case")
BUDGET_S = {"quick": 55, "thorough": 900}


def env_of(case):
    return "yaml"


def worker_setup(env):
    pass


def run_impl(case, env):
    import yaml_adapter
    return yaml_adapter.run_c12(Y.strip_meta(case))


def model_requests(case, obs):
    if case.get("kind") == "lru":
        return [{"op": "yaml.lru", "size": max(0, case["size"]), "ops": case["ops"]}]
    if "steps" not in obs:
        return []
    return [Y.c12_request(case, obs)]


def _same(a, b):
    """observations equal up to the version string / message kind"""
    if a[0] != b[0]:
        return False
    return a[1] == b[1]


def judge_lru(case, obs, resps):
    if "lru" not in obs or not resps or "ok" not in resps[0]:
        return Judgement(case, True, False, {"infrastructure": str(obs)[:500]}, kind="infra", nontrivial=False)
    r, o = resps[0]["ok"], obs["lru"]
    size = max(0, case["size"])
    # spec on the implementation: never more than `size` entries; what a get returns is the last value set
    last, spec_ok, clause = {}, True, None
    gi = 0
    for op in case["ops"]:
        if op[0] == "set":
            last[op[1]] = op[2]
        else:
            g = o["gets"][gi]
            gi += 1
            if g is not None and last.get(op[1]) != g:
                spec_ok, clause = False, "lru-returns-wrong-value"
    if o["len"] > size or len(o["keys"]) > size:
        spec_ok, clause = False, "lru-exceeds-size"
    agree = (o["gets"] == r["gets"] and o["keys"] == sorted(r["keys"]) and o["len"] == r["len"]
             and r["keys"] == r["ref_keys"])
    detail = None if (agree and spec_ok) else {"impl": o, "model": r}
    return Judgement(case, spec_ok, agree, detail, kind=f"lru/size{min(size, 3)}", nontrivial=len(case["ops"]) > 3,
                     failed_clause=clause)


def judge(case, obs, resps):
    if case.get("kind") == "lru":
        return judge_lru(case, obs, resps)
    style = case.get("_meta", {}).get("style", "-")
    cs = case["cfg"]["cache_size"]
    if "steps" not in obs or not resps or "ok" not in resps[0]:
        why = obs.get("unsupported") or obs.get("harness_exception") or (resps[0].get("err") if resps else "no response")
        return Judgement(case, True, False, {"infrastructure": why, "obs": str(obs)[:1500]}, kind="infra",
                         nontrivial=False)
    r = resps[0]["ok"]
    calls = obs["calls"]
    if any(m[0] == "err" and m[1] == "UNSUPPORTED" for m in r["model"] + r["fresh"]):
        return Judgement(case, True, False, {"infrastructure": "case outside the model domain"}, kind="infra",
                         nontrivial=False)
    spec_ok, clause, detail = True, None, None
    # (1) never stale / isolated: every call of the long-lived source = cache-less compile of the current tree
    for i, ok in enumerate(r["spec_impl"]):
        if not ok:
            spec_ok, clause = False, "stale-or-corrupted-result"
            detail = {"call": i, "long_lived": calls[i]["long"], "fresh_source": calls[i]["fresh"],
                      "cache_less_model": r["fresh"][i]}
            break
    # (2) versions track data
    if spec_ok and not r["versions_impl_ok"]:
        spec_ok, clause = False, "equal-version-different-data"
        detail = {"long_lived": [c["long"] for c in calls]}
    agree = True
    # the oracle (fresh cache-less source) against the cache-less model
    for i, c in enumerate(calls):
        if not _same(c["fresh"], r["fresh"][i]):
            agree = False
            detail = detail or {"fresh_source_vs_model": {"call": i, "fresh_source": c["fresh"], "model": r["fresh"][i]}}
            break
    # the long-lived source against the model with its three cache layers
    if agree:
        for i, c in enumerate(calls):
            if not _same(c["long"], r["model"][i]):
                agree = False
                detail = detail or {"long_lived_vs_model": {"call": i, "long_lived": c["long"], "model": r["model"][i]}}
                break
    if agree:
        vi = Y.version_classes([c["long"][2] if c["long"][0] == "ok" else None for c in calls])
        vm = Y.version_classes([m[2] if m[0] == "ok" else None for m in r["model"]])
        if vi != vm:
            agree = False
            detail = detail or {"version_equality_pattern": {"impl": vi, "model": vm}}
    if not all(r["spec_model"]) or not r["versions_model_ok"] or not r["reads_nodup"]:
        agree = False
        detail = {"model_fails_own_checker": {"spec_model": r["spec_model"], "versions": r["versions_model_ok"],
                                               "reads_nodup": r["reads_nodup"]}}
    oks = sum(1 for c in calls if c["long"][0] == "ok")
    kind = f"{style}/cs{cs}/" + ("tmpl" if case["cfg"]["template"] else "plain") + f"/ok{min(oks, 3)}of{min(len(calls), 3)}"
    mods = sum(1 for s in case["steps"] if s[0] != "get")
    nontrivial = oks >= 2 and mods >= 1
    return Judgement(case, spec_ok, agree, detail, kind=kind, nontrivial=nontrivial, failed_clause=clause)


def gen(rng, tier, mult=1):
    n = (500 if tier == "quick" else 12000) * mult
    sizes = [0, 1, 2, 64]
    for i in range(n):
        yield Y.gen_c12_case(rng, cache_size=sizes[i % 4], template=("jinja" if (i // 4) % 3 else None))
    for i in range(n // 10):
        yield Y.gen_c12_swap_case(rng, cache_size=[1, 2, 64, 0][i % 4], template=("jinja" if i % 3 == 0 else None))
    for i in range(n // 10):
        yield Y.gen_c12_listmerge_case(rng, cache_size=[1, 64, 2, 0][i % 4], template=("jinja" if i % 3 == 0 else None))
    for i in range(n // 10):
        yield Y.gen_c12_repeat_case(rng, cache_size=[1, 64, 2, 0][i % 4], template=("jinja" if i % 3 == 0 else None))
    for i in range(n // 4):
        yield Y.gen_lru_case(rng, size=[0, 1, 2, 3, 64][i % 5])


def shrink(case):
    if case.get("kind") == "lru":
        return Y.shrink_lru(case)
    return Y.shrink_c12(case)


def neighbours(case, rng):
    import copy
    if case.get("kind") == "lru":
        for c in Y.shrink_lru(case):
            yield c
        return
    base = Y.strip_meta(case)
    for c in Y.shrink_c12(base):
        yield c
    for _ in range(30):
        c = copy.deepcopy(base)
        c["cfg"]["cache_size"] = rng.choice([0, 1, 2, 64])
        i = rng.randrange(len(c["steps"]) + 1)
        c["steps"].insert(i, ["get", rng.choice(Y.IDS), 0])
        yield c


def signature(case, j):
    if case.get("kind") == "lru":
        return {"clause": j.failed_clause, "size": case["size"], "kind": "lru"}
    return {"clause": j.failed_clause, "cache_size": case["cfg"]["cache_size"],
            "gets": sum(1 for s in case["steps"] if s[0] == "get")}
