"""C17 — Jinja engine: edits always show up; includes and python-module access confined."""
import json

import jinja_common as J
from core import Judgement

ID = "C17"
MODULE = "props.c17"
THEOREM_MODULES = ["Vinegar.Theorems.C17"]
THEOREMS = [
    "Vinegar.C17.history_transparent",
    "Vinegar.C17.history_matches_ref",
    "Vinegar.C17.historyCheck_run",
    "Vinegar.C17.nocache_never_fails",
    "Vinegar.C17.cache_setting_irrelevant",
    "Vinegar.C17.join_relative",
    "Vinegar.C17.join_root",
    "Vinegar.C17.root_confined",
    "Vinegar.C17.context_precedence",
    "Vinegar.C17.caller_only_where_unconfigured",
    "Vinegar.C17.allow_spec",
    "Vinegar.C17.allowRef_spec",
    "Vinegar.C17.allow_cache_transparent",
    "Vinegar.C17.pyGet_yields_only_allowed",
    "Vinegar.C17.allowCheck_model",
    "Vinegar.C17.runFresh_eq_ref",
    "Vinegar.C17.rendersMatchRef_iff",
    "Vinegar.C17.inclOpt_meaning",
    "Vinegar.C17.inclOpt_alone",
    "Vinegar.C17.inclOpt_ref",
    "Vinegar.C17.onGetError_spec",
]
TRUSTED_BASE = [
    "Lean 4.33 kernel; axioms of every C17 theorem audited ⊆ {propext, Classical.choice, Quot.sound}",
    "harness/translate_jinja.py (literal extraction from vinegar/template/jinja.py)",
    "the correspondence harness: jinja_adapter.py (real JinjaEngine on a sandbox tree), jinja_common.py "
    "(generators, printing of the abstract template syntax as Jinja source), the compiled Lean driver",
    "Jinja2 3.1.6 (compiler, Environment._load_template, template cache, auto_reload, FileSystemLoader) — modelled "
    "and differentially checked, not verified",
    "POSIX stat/utime/open of the sandbox, os.path.normpath/join/abspath modelled concretely",
]
ASSUMPTIONS = [
    "Jinja2's own template cache and auto_reload are modelled, not verified: the model's cache is unbounded (the real "
    "LRU only evicts, which forces extra reloads) and auto_reload is on (an `env` option switching it off is outside "
    "the configurations considered)",
    "a file's stamp (what version_for_file_path / getmtime observe) changes whenever its content changes: hypothesis "
    "`OpsFresh` of history_transparent; the harness enforces it with os.utime and strictly increasing whole seconds",
    "templates are the abstract syntax text / {{ var }} / include / include … ignore missing / import-as-module / "
    "python[key] / import_json and "
    "import_yaml of a data file (vinegar's serialisation extension; for the model an import whose value is the file's text: "
    "the adapter writes the text as one JSON string and the extension parses it back); the adapter prints it as Jinja "
    "source, so Jinja's compiler is exercised but not modelled",
    "the model evaluates an imported template on every import; Jinja2 memoises an imported template's module per "
    "compiled template (Template._get_default_module). Where that makes an edit of a file reached THROUGH an import "
    "invisible the check reports it (recorded finding `import memo`, KNOWN_FINDINGS.txt)",
    "the working directory does not change during a history; a template file may be a symbolic link to a file in the same "
    "directory (edits change the target in place), no other links; UTF-8 template files",
    "hash collisions of version_for_file_path (md5/mmh3) are excluded: stamps are compared as such",
    "the python helper is checked with fake modules (strings as attributes) and, for the decision alone, with "
    "arbitrary names through the real _check_access",
]
RULE = ("history cases = configuration {root_dir?} x {cache_enabled True/False/default} x {relative_includes "
        "True/False/default} x optional context / provide_python_modules / env.cache_size, and a history of writes "
        "(strictly increasing stamps), deletes and renders over a three-level file tree (rendered templates -> "
        "included/imported -> leaves; same basenames in different directories; include names spelled relative to the "
        "includer, to the root, with ./, absolute, missing; a quarter of the plain includes carry `ignore missing`), plus "
        "dedicated optional-include histories (the optionally included file exists / is deleted between two renders of "
        "the same engine / is re-created / is missing from the start / lies below a regular file / is named with '..' / is "
        "a directory / fails only inside: nested plain include or import gone) for every root_dir x cache_enabled x "
        "relative_includes; a history case is non-trivial if it has >= 2 renders and "
        "at least one render succeeded; python[key] keys name well-formed absolute module names (existing fake modules, missing ones, keys without a dot); access cases = (allow-list, sequence of confusable module names) on one helper "
        "object, non-trivial if the helper exists; join cases = (template, parent) pairs over segments incl. '..', '.', "
        "'', leading /, //, ///; distinct by SHA-1 of the whole case")
BUDGET_S = {"quick": 60, "thorough": 900}
ENV = "jinja"


def env_of(case):
    return ENV


def worker_setup(env):
    import jinja_adapter
    jinja_adapter.setup()


def run_impl(case, env):
    import jinja_adapter
    return jinja_adapter.run_case(strip_meta(case))


def strip_meta(case):
    return {k: v for k, v in case.items() if not k.startswith("_")}


# ------------------------------------------------------------------------------- generator
def _streams(rng, tier, mult):
    quick = tier == "quick"
    n_hist = (1500 if quick else 20000) * mult
    yield [J.gen_history_case(rng, i, nested=(i % 10 == 9)) for i in range(n_hist)]
    yield [J.gen_nested_memo_case(rng, i) for i in range((72 if quick else 720) * mult)]
    # `include … ignore missing` while the optional file comes and goes (36 configurations x 10 shapes)
    yield [J.gen_optional_case(rng, i) for i in range((108 if quick else 1440) * mult)]
    # D11 shaped: several renders in a row for every configuration combination
    rep = []
    for root in (False, True):
        for ce in (True, False, None):
            for rel in (True, False, None):
                for k in (2, 3):
                    ops = [["write", J.ROOT + "/leaf.j2", [["t", "L"]], 1],
                           ["write", J.ROOT + "/a.j2", [["t", "A"], ["i", "leaf.j2"], ["v", "x"]], 2]]
                    ops += [["render", "a.j2", {"x": "c"}]] * k
                    rep.append({"kind": "history", "cfg": {"root": root, "cache_enabled": ce, "relative": rel,
                                                           "context": None}, "ops": ops, "_meta": {"stream": "repeat"}})
    yield rep
    yield [J.gen_pyget_case(rng) for _ in range((250 if quick else 4000) * mult)]
    yield [J.gen_access_case(rng) for _ in range((300 if quick else 5000) * mult)]
    acc = []
    if not quick:
        # exhaustive: every single entry (as str and as one-element list) x every confusable name, and the
        # decision cache beyond its bound
        for e in J.ACCESS_ENTRIES:
            acc.append({"kind": "access", "allow": e, "queries": list(J.ACCESS_NAMES), "_meta": {"stream": "access-all"}})
            acc.append({"kind": "access", "allow": [e], "queries": list(J.ACCESS_NAMES),
                        "_meta": {"stream": "access-all"}})
        many = ["m%d.x" % k for k in range(1100)]
        acc.append({"kind": "access", "allow": ["m1.*", "m10.x", "m1023.*"],
                    "queries": many + many[:40] + J.ACCESS_NAMES, "_meta": {"stream": "access-bound"}})
    else:
        many = ["m%d.x" % k for k in range(1030)]
        acc.append({"kind": "access", "allow": ["m1.*", "m10.x"], "queries": many + many[:8],
                    "_meta": {"stream": "access-bound"}})
    yield acc
    yield [J.gen_join_case(rng) for _ in range((150 if quick else 3000) * mult)]
    if not quick:
        yield list(J.exhaustive_histories())


def gen(rng, tier, mult=1):
    """all streams, merged proportionally: any prefix of the list (the engine stops at its time budget)
    contains every kind of case in the proportion of the whole"""
    keyed = []
    for si, stream in enumerate(_streams(rng, tier, mult)):
        n = len(stream)
        for k, c in enumerate(stream):
            keyed.append(((k + 0.5) / n, si, k, c))
    keyed.sort(key=lambda t: t[:3])
    for _, _, _, c in keyed:
        yield c


EXHAUSTIVE = {"quick": False, "thorough": True}


# ------------------------------------------------------------------------------- model
def model_requests(case, obs):
    c = strip_meta(case)
    if not isinstance(obs, dict) or "harness_exception" in obs:
        return []
    k = c.get("kind")
    if k == "history":
        return [J.history_request(c, obs)]
    if k == "access":
        return [{"op": "jinja_access", "allow": c["allow"], "queries": c["queries"],
                 "impl": obs.get("decisions", [])}]
    if k == "join":
        rel = J.effective({"relative": c.get("relative")})["relative"]
        return [{"op": "jinja_join", "relative": rel, "template": t, "parent": p} for t, p in c["pairs"]]
    return []


def _two(lst):
    return [[o[0], o[1]] for o in lst]


def judge(case, obs, resps):
    kind = case.get("kind")
    stream = case.get("_meta", {}).get("stream", "-")
    if not isinstance(obs, dict) or "harness_exception" in obs:
        return Judgement(case, True, False, {"infrastructure": obs}, kind="infra", nontrivial=False)
    if "unobservable" in obs:
        # engine internals (Jinja environment / access check of the python helper) not found under a recognisable
        # name or type: the direct access / join cases say nothing; the history cases decide the property
        return Judgement(case, True, True, None, kind=f"{kind}/unobservable", nontrivial=False)
    bad = [r for r in resps if "ok" not in r]
    if bad or not resps:
        return Judgement(case, True, False, {"infrastructure": {"driver": bad[:1] or "no response"}}, kind="infra",
                         nontrivial=False)
    if kind == "history":
        m = resps[0]["ok"]
        eng, fresh = _two(obs["engine"]), _two(obs["fresh"])
        ci, cm = m["check_impl"], m["check_model"]
        spec_ok, clause = True, None
        if not ci["match_ref"]:
            spec_ok, clause = False, ci["clause"]
        elif eng != fresh:
            spec_ok, clause = False, "fresh_engine_differs"
        elif not m["py_yield_impl"]:
            spec_ok, clause = False, "python_yield"
        agree = (m["model"] == eng and m["fresh_model"] == fresh)
        detail = None
        if not spec_ok or not agree:
            first = next((i for i, (a, b) in enumerate(zip(m["ref"], eng)) if a != b), None)
            detail = {"failed_checker": clause, "first_deviating_render": first,
                      "impl_engine": obs["engine"], "impl_fresh": obs["fresh"], "reference": m["ref"],
                      "model_engine": m["model"],
                      "explained_by_import_memo": m["explained_by_import_memo"],
                      "error": (obs["engine"][first][1] if first is not None and obs["engine"][first][0] == "err"
                                else None)}
        if not (cm["match_ref"] and m["py_yield_model"]):
            # theorem instance violated by the model itself: a harness/model bug, never a spec failure
            agree = False
            if spec_ok:
                detail = {"model_fails_own_checker": cm, "model": m["model"], "reference": m["ref"]}
        if not spec_ok:
            case = dict(case, _dev=detail.get("first_deviating_render"),
                        _class=json.dumps([kind, clause, detail.get("error"), bool(case["cfg"].get("root")),
                                           J.effective(case["cfg"]), detail.get("explained_by_import_memo")]))
        nr = len(eng)
        outcome = "ok" if all(o[0] == "ok" for o in eng) else "err" if all(o[0] == "err" for o in eng) else "mixed"
        return Judgement(case, spec_ok, agree, detail, kind=f"history/{stream}/{outcome}",
                         nontrivial=(nr >= 2 and any(o[0] == "ok" for o in eng)), failed_clause=clause)
    if kind == "access":
        m = resps[0]["ok"]
        if m["helper_present"] != obs["helper"]:
            return Judgement(case, False, False, {"failed_checker": "helper_presence", "impl": obs["helper"],
                                                  "model": m["helper_present"]}, kind="access/presence",
                             failed_clause="helper_presence")
        if not obs["helper"]:
            return Judgement(case, True, True, None, kind="access/absent", nontrivial=False)
        spec_ok = bool(m["check_impl"])
        agree = m["model"] == obs["decisions"]
        detail = None
        if not spec_ok or not agree:
            i = next((k for k, (a, b) in enumerate(zip(m["ref"], obs["decisions"])) if a != b), None)
            detail = {"failed_checker": "allow_rule", "allow": case["allow"],
                      "query": None if i is None else case["queries"][i],
                      "documented_rule": None if i is None else m["ref"][i],
                      "impl": None if i is None else obs["decisions"][i]}
        if not m["check_model"]:
            agree = False
            if spec_ok:
                detail = {"model_fails_own_checker": "allow_rule"}
        if not spec_ok:
            case = dict(case, _class="access/allow_rule")
        return Judgement(case, spec_ok, agree, detail, kind=f"access/{stream}", nontrivial=True,
                         failed_clause=None if spec_ok else "allow_rule")
    if kind == "join":
        model = [r["ok"] for r in resps]
        agree = model == obs["joined"]
        detail = None
        if not agree:
            i = next(k for k, (a, b) in enumerate(zip(model, obs["joined"])) if a != b)
            detail = {"pair": case["pairs"][i], "model": model[i], "impl": obs["joined"][i]}
        # join_path alone has no spec checker of its own: what it must achieve is checked through the
        # history cases (a wrongly resolved include renders another file); here only model = code
        return Judgement(case, True, agree, detail, kind="join", nontrivial=True)
    return Judgement(case, True, False, {"infrastructure": "unknown kind"}, kind="infra", nontrivial=False)


# ------------------------------------------------------------------------------- search
def shrink(case):
    return J.shrink_case(case)


def neighbours(case, rng):
    c = strip_meta(case)
    k = c.get("kind")
    if k == "history":
        for root in (False, True):
            for ce in (True, False):
                for rel in (True, False):
                    yield dict(c, cfg=dict(c["cfg"], root=root, cache_enabled=ce, relative=rel))
        ops = c["ops"]
        renders = [o for o in ops if o[0] == "render"]
        if renders:
            yield dict(c, ops=ops + [renders[-1]] * 2)
            yield dict(c, ops=[x for o in ops for x in ([o, o] if o[0] == "render" else [o])])
        for i in range(20):
            yield J.gen_history_case(rng, i, nested=False)
    elif k == "access":
        a = c["allow"]
        entries = a if isinstance(a, list) else [a] if isinstance(a, str) else []
        for e in entries[:3]:
            yield dict(c, allow=[e], queries=list(J.ACCESS_NAMES) + [e, e + "x", e.rstrip("*"), e.rstrip(".*")])
        for _ in range(30):
            yield J.gen_access_case(rng)
    elif k == "join":
        for _ in range(50):
            yield J.gen_join_case(rng)


def signature(case, judgement):
    k = case.get("kind")
    d = judgement.detail if isinstance(judgement.detail, dict) else {}
    sig = {"kind": k, "clause": judgement.failed_clause}
    if k == "history":
        e = J.effective(case["cfg"])
        sig.update({"root_dir": bool(case["cfg"].get("root")), "cache_enabled": e["cache_enabled"],
                    "relative_includes": e["relative"], "error": d.get("error"),
                    "explained_by_import_memo": bool(d.get("explained_by_import_memo"))})
    elif k == "access":
        sig.update({"allow": d.get("allow"), "query": d.get("query")})
    return sig
