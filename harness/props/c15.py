"""C15 — SQLite state is one map; writes visible everywhere at once and survive a kill."""
import copy

import sqlite_common as S
from core import Judgement

ID = "C15"
MODULE = "props.c15"
THEOREM_MODULES = ["Vinegar.Theorems.C15"]
THEOREMS = [
    "Vinegar.C15.ops_refine_map",
    "Vinegar.C15.run_sorted",
    "Vinegar.C15.step_effect",
    "Vinegar.C15.read_your_writes",
    "Vinegar.C15.checkTrace_run",
    "Vinegar.C15.checkStep_sound",
    "Vinegar.C15.effectOK_iff",
    "Vinegar.C15.resultOK_iff",
    "Vinegar.C15.find_spec",
    "Vinegar.C15.get_data_spec",
    "Vinegar.C15.list_spec",
    "Vinegar.C15.strict_check_iff",
    "Vinegar.C15.strict_rejects",
    "Vinegar.C15.strict_accepts_dumps",
    "Vinegar.C15.prefix_wrap_strip",
    "Vinegar.C15.strip_key_iff",
    "Vinegar.C15.update_action_spec",
    "Vinegar.C15.update_noop_cases",
    "Vinegar.C15.code_literals",
]
TRUSTED_BASE = S.TRUSTED_BASE
ASSUMPTIONS = S.ASSUMPTIONS
RULE = ("history = views (3 DataStore connections incl. optionally a non-strict one, optionally a 4th store in a second "
        "process, 1-3 SQLiteSources with key prefixes, 1-3 update handlers with random action/path/key/value/client list) on "
        "ONE database file + 6-28 steps over small id/key/value pools with boundary values; after EVERY step the table is "
        "dumped through an independent raw connection and (result, dump) is compared with the Lean model and judged by the "
        "Lean checker checkStep (result clause, effect clause). fn = one pure function (json.dumps + strict check, unquote, "
        "body decoding). nonfinite = NaN/±Infinity stream (outside the model: no crash, read back equal). crash = writer "
        "process SIGKILLed after k acknowledgements / mid-operation / at the entry of its k-th pwrite64, fdatasync, unlink or "
        "ftruncate system call (under strace: deterministic kill points inside SQLite's commit), file read by a fresh process, judged by crashOK "
        "(DIFFERENTIAL evidence only). non-trivial: a history with >= 1 effective write and >= 1 read, an fn/crash case "
        "always; distinct by SHA-1 of the case")
BUDGET_S = {"quick": 55, "thorough": 1500}


def gen(rng, tier, mult=1):
    quick = tier == "quick"
    n_hist = (420 if quick else 9000) * mult
    n_fn = (900 if quick else 20000) * mult
    n_crash = (8 if quick else 400) * mult
    for v in S.NONFINITE:
        yield {"kind": "nonfinite", "value": v}
    for i in range(n_hist):
        c = S.gen_history(rng, with_proc=(i % 6 == 0), allow_outside=(i % 10 == 3))
        if i % 25 == 0:
            c["final_fresh_process"] = True
        yield c
    for i in range((40 if quick else 1500) * mult):
        yield S.gen_source_freshness(rng)
    for i in range((60 if quick else 2000) * mult):
        yield S.gen_interleave(rng)
    for i in range((4 if quick else 60) * mult):
        yield S.gen_many_rows(rng)
    for i in range(n_fn):
        yield S.gen_fn(rng, i)
    for i in range(n_crash if quick else 0):
        yield S.gen_crash(rng, heavy=True)
    for i in range(24 if quick else 0):
        yield S.gen_crash_syscall(rng, heavy=True)
    if not quick:
        # small-scope enumeration: every history of length <= 3 over a tiny alphabet of steps
        yield from small_scope()
        for i in range(n_crash):
            yield S.gen_crash(rng, heavy=(i % 4 != 0))
        for i in range(3 * n_crash):
            yield S.gen_crash_syscall(rng, heavy=(i % 4 != 0))


def small_scope():
    import itertools
    views = {"s0": {"kind": "store", "strict": True}, "s1": {"kind": "store", "strict": False},
             "src": {"kind": "source", "find_enabled": True, "prefix": "p", "explicit": True},
             "h": {"kind": "handler", "path": "/u", "action": "delete_value", "key": "k", "value": None, "clients": []}}
    alpha = [
        {"view": "s0", "op": "set_value", "sid": "a", "key": "k", "value": ["i", "1"]},
        {"view": "s1", "op": "set_value", "sid": "b", "key": "k", "value": ["t", [["i", "1"]]]},
        {"view": "s1", "op": "set_value", "sid": "a", "key": "k", "value": ["b", True]},
        {"view": "s0", "op": "set_value", "sid": "b", "key": "", "value": ["i", "1"]},
        {"view": "s0", "op": "delete_value", "sid": "a", "key": "k"},
        {"view": "s1", "op": "delete_data", "sid": "b"},
        {"view": "s1", "op": "get_value", "sid": "a", "key": "k"},
        {"view": "s0", "op": "get_data", "sid": "b"},
        {"view": "s0", "op": "find_systems", "key": "k", "value": ["i", "1"]},
        {"view": "s1", "op": "list_systems"},
        {"view": "src", "op": "find_system", "key": "p:k", "value": ["i", "1"]},
        {"view": "src", "op": "get_data", "sid": "a"},
        {"view": "h", "op": "request", "method": "POST", "uri": "/u/%61", "content_length": None, "body": "",
         "body_fault": False, "client": "192.0.2.1"},
        {"view": "h", "op": "request", "method": "GET", "uri": "/u/a", "content_length": None, "body": "",
         "body_fault": False, "client": "192.0.2.1"},
    ]
    for n in (1, 2, 3):
        for combo in itertools.product(range(len(alpha)), repeat=n):
            yield {"kind": "history", "views": views, "steps": [copy.deepcopy(alpha[i]) for i in combo],
                   "_meta": {"small_scope": True}}


EXHAUSTIVE = {"quick": False, "thorough": False}


def env_of(case):
    return "sqlite"


def worker_setup(env):
    pass


def run_impl(case, env):
    import sqlite_adapter
    return sqlite_adapter.run(S.strip_meta(case))


def model_requests(case, obs):
    k = case.get("kind", "history")
    if "harness_exception" in obs or "observer_locked" in obs:
        return []
    if k == "history":
        impl = [{"res": S.drop_aux(s["res"]), "dump": s["dump"]} for s in obs["steps"]]
        if any("unexpected" in s["res"] for s in impl):
            impl = None
        return [{"op": "sqlite_history", "views": case["views"], "steps": case["steps"], "init": [], "impl": impl}]
    if k == "interleave":
        if "skipped" in obs:
            return []
        # the two sequential orders on the model (no implementation observations: the driver only computes)
        return [{"op": "sqlite_history", "views": case["views"], "steps": case.get("init", []) + order, "init": [],
                 "impl": None} for order in ([case["a"], case["b"]], [case["b"], case["a"]])]
    if k == "crash":
        if "skipped" in obs:
            return []
        return [{"op": "sqlite_crash", "views": case["views"], "steps": case["steps"], "init": [],
                 "acked": obs["acked"], "final": obs["final"]}]
    if k == "fn":
        r = {"op": "sqlite_fn", "fn": case["fn"]}
        for f in ("value", "s", "body"):
            if f in case:
                r[f] = case[f]
        return [r]
    return []


def _infra(case, what, kind="infra"):
    return Judgement(case, True, False, {"infrastructure": what}, kind=kind, nontrivial=False)


AUX_OK = {"headers": {"Content-Type": "text/plain; charset=UTF-8"}, "body": b"success\n".hex()}
AUX_NONE = {"headers": None, "body": None}


def _judge_interleave(case, obs, resps):
    kind = "interleave/" + case["a"]["op"] + "+" + case["b"]["op"]
    if "harness_exception" in obs:
        return _infra(case, obs["harness_exception"])
    if "skipped" in obs:
        return Judgement(case, True, True, None, kind="interleave/skipped", nontrivial=False)
    if len(resps) != 2 or any("ok" not in r for r in resps):
        return _infra(case, {"driver": resps})
    n0 = len(case.get("init", []))
    seen = [S.norm_res(S.drop_aux(obs["res_a"])), S.norm_res(S.drop_aux(obs["res_b"])), S.norm_dump(obs["dump"])]
    allowed = []
    for r, (ia, ib) in zip(resps, ((n0, n0 + 1), (n0 + 1, n0))):
        m = r["ok"]["model"]
        allowed.append([S.norm_res(m[ia]["res"]), S.norm_res(m[ib]["res"]), S.norm_dump(m[-1]["dump"])])
    ok = seen in allowed
    return Judgement(case, ok, True, None if ok else {"observed": seen, "a_then_b": allowed[0], "b_then_a": allowed[1],
                                                      "b_ran_before_statement": case["k"], "fired": obs.get("fired")},
                     kind=kind, nontrivial=bool(obs.get("fired")), failed_clause=None if ok else "interleaved-write")


def judge(case, obs, resps):
    if case.get("kind") == "interleave":
        return _judge_interleave(case, obs, resps)
    k = case.get("kind", "history")
    if "harness_exception" in obs:
        return _infra(case, obs)
    if "skipped" in obs:
        return Judgement(case, True, True, None, kind="crash/syscall/skipped-no-strace", nontrivial=False)
    if "observer_locked" in obs:
        return Judgement(case, False, False, obs["observer_locked"], kind="history/observer-locked", nontrivial=True,
                         failed_clause="not-visible-to-other-connections")
    if k == "nonfinite":
        ok = bool(obs.get("ok"))
        return Judgement(case, ok, True, None if ok else obs, kind="nonfinite", nontrivial=False,
                         failed_clause=None if ok else "nonfinite-readback")
    if not resps or "ok" not in resps[0]:
        return _infra(case, {"driver": resps[0] if resps else None})
    m = resps[0]["ok"]
    if k == "fn":
        return judge_fn(case, obs, m)
    if k == "crash":
        return judge_crash(case, obs, m)
    return judge_history(case, obs, m)


def judge_fn(case, obs, m):
    fn = case["fn"]
    kind = "fn/" + fn
    if fn == "dumps":
        mi = {"dumps": S.norm_res(m["dumps"]), "check": m["check"]}
        ii = {"dumps": S.norm_res(obs["dumps"]), "check": obs["check"]}
        agree = mi == ii
        # spec: the strict check accepts exactly the JSON-safe values, and an accepted value round-trips
        accepted = "none" in obs["check"]
        spec_ok = (accepted == bool(m["json_safe"])) and (obs["roundtrip"] is not False)
        kind += "/" + ("accepted" if accepted else obs["check"].get("exc", "?"))
        clause = None if spec_ok else "strict-check"
        return Judgement(case, spec_ok, agree, None if agree and spec_ok else {"model": mi, "impl": ii, "roundtrip": obs["roundtrip"],
                                                                              "json_safe": m["json_safe"]},
                         kind=kind, failed_clause=clause)
    if fn == "unquote":
        a, b = S.norm_text(m["text"]), S.norm_text(obs["text"])
        return Judgement(case, True, a == b, None if a == b else {"model": a, "impl": b}, kind=kind)
    if fn == "decode":
        mj = m["json"]
        if "outside" in mj:
            return Judgement(case, True, True, None, kind=kind + "/outside", nontrivial=False)
        mi = {"json": S.norm_res(mj), "utf8": None if m["utf8"] is None else S.norm_text(m["utf8"])}
        ii = {"json": S.norm_res(obs["json"]), "utf8": None if obs["utf8"] is None else S.norm_text(obs["utf8"])}
        agree = mi == ii
        kind += "/" + ("bad" if "bad" in obs["json"] else "ok")
        return Judgement(case, True, agree, None if agree else {"model": mi, "impl": ii}, kind=kind)
    return _infra(case, "unknown fn")


def judge_crash(case, obs, m):
    if obs.get("unreadable") and obs.get("acked", 0) > 0:
        # completed writes did not survive the kill: a fresh process cannot read the file at all
        return Judgement(case, False, True, {"acked": obs["acked"], "reader": obs["unreadable"], "kill": case["kill"]},
                         kind="crash/%s/UNREADABLE" % case["kill"]["mode"], nontrivial=True,
                         failed_clause="crash-database-unreadable")
    ok = bool(m["ok"])
    n = len(case["steps"])
    kind = "crash/%s/%s" % (case["kill"]["mode"],
                            "old" if m["is_old"] and m["old_differs_from_new"] else
                            "new" if m["is_new"] and m["old_differs_from_new"] else
                            "same" if ok else "TORN")
    if obs.get("hot_journal"):
        kind += "/hot-journal"
    detail = None
    if not ok:
        detail = {"acked": obs["acked"], "of": n, "rows": [m["rows_old"], m["rows_new"], m["rows_final"]],
                  "final_keys": [[S.norm_text(a), S.norm_text(b), len(S.norm_text(c))] for a, b, c in obs["final"]][:20]}
    # every acknowledged result must be the model's (writes only: none / exception class)
    return Judgement(case, ok, True, detail, kind=kind, nontrivial=True,
                     failed_clause=None if ok else "crash-old-or-new")


def judge_history(case, obs, m):
    steps = case["steps"]
    meta = case.get("_meta", {})
    if not m.get("model_check", False):
        return Judgement(case, True, False, {"model_fails_own_checker": m.get("model_failure")}, kind="model-bug")
    impl_steps = obs["steps"]
    spec_ok, clause, detail = True, None, None
    if "impl_check" not in m:
        # an observation outside the result vocabulary (unexpected return value)
        bad = [i for i, s in enumerate(impl_steps) if "unexpected" in s["res"]]
        spec_ok, clause = False, "result"
        detail = {"step": bad[0] if bad else None, "impl": impl_steps[bad[0]]["res"] if bad else None}
    elif not m["impl_check"]:
        spec_ok = False
        f = m.get("impl_failure")
        if f:
            i, clause = f[0], f[1]
            detail = {"step": i, "op": steps[i] if i < len(steps) else None,
                      "impl_res": S.norm_res(impl_steps[i]["res"]) if i < len(impl_steps) else None,
                      "model_res": S.norm_res(m["model"][i]["res"]) if i < len(m["model"]) else None,
                      "pre": S.norm_dump(impl_steps[i - 1]["dump"]) if i > 0 else [],
                      "post": S.norm_dump(impl_steps[i]["dump"]) if i < len(impl_steps) else None}
        else:
            clause = "result"
            detail = {"unreadable": m.get("impl_unreadable")}
    if spec_ok and obs.get("readback_mismatch"):
        spec_ok, clause = False, "readback"
        detail = {"steps": obs["readback_mismatch"]}
    if spec_ok and "fresh_dump" in obs:
        # cross-process visibility/durability of everything written: a fresh process sees the final map
        if S.norm_dump(obs["fresh_dump"]) != (S.norm_dump(impl_steps[-1]["dump"]) if impl_steps else []):
            spec_ok, clause = False, "fresh-process"
            detail = {"fresh": S.norm_dump(obs["fresh_dump"])[:10]}
    # correspondence: model and implementation produce the same trace (up to the first body outside the grammar)
    outside = m.get("outside", [])
    cut = min(outside) if outside else len(steps)
    agree, adetail = True, None
    for i in range(min(cut, len(impl_steps))):
        mr, ir = S.norm_res(m["model"][i]["res"]), S.norm_res(impl_steps[i]["res"])
        md, idp = S.norm_dump(m["model"][i]["dump"]), S.norm_dump(impl_steps[i]["dump"])
        if mr != ir or md != idp:
            agree = False
            adetail = {"step": i, "op": steps[i], "model_res": mr, "impl_res": ir,
                       "model_dump": md[:12], "impl_dump": idp[:12]}
            break
        aux = impl_steps[i]["res"].get("aux")
        if aux is not None and aux != (AUX_OK if ir.get("status") == 200 else AUX_NONE):
            agree = False
            adetail = {"step": i, "op": steps[i], "response_headers_body": aux}
            break
    if len(impl_steps) != len(steps):
        agree, adetail = False, {"steps": len(steps), "observed": len(impl_steps)}
    if m.get("impl_dumps_sorted") is False and agree:
        agree, adetail = False, {"dump_order": "raw dump not in the model's primary-key order"}
    intents = m.get("intents", [])
    writes = sum(1 for x in intents if x != "nothing")
    reads = sum(1 for s in steps if s["op"] in ("get_value", "get_data", "find_systems", "list_systems", "find_system"))
    kind = "history/%s%s%s" % ("w" if writes else "-", "r" if reads else "-",
                               "/proc" if meta.get("proc") else "")
    if outside:
        kind += "/outside"
    if meta.get("small_scope"):
        kind = "history/small-scope"
    if not spec_ok:
        det = detail
    else:
        det = adetail
    return Judgement(case, spec_ok, agree, det, kind=kind, nontrivial=bool(writes and reads), failed_clause=clause)


# --------------------------------------------------------------------------- search
def _used_views(case):
    used = {s["view"] for s in case["steps"]}
    return {n: c for n, c in case["views"].items() if n in used}


def shrink(case):
    k = case.get("kind", "history")
    if k not in ("history", "crash"):
        return
    steps = case["steps"]
    n = len(steps)

    def mk(new_steps, **kw):
        c = copy.deepcopy(case)
        c["steps"] = copy.deepcopy(new_steps)
        c.update(kw)
        if k == "history":
            c["views"] = _used_views(c) or c["views"]
            c.pop("final_fresh_process", None) if kw.get("_drop_fresh") else None
            c.pop("_drop_fresh", None)
        return c

    if k == "crash":
        return
    if n > 1:
        # halves, then single removals (from the back first: later steps depend on earlier writes)
        yield mk(steps[:n // 2])
        yield mk(steps[n // 2:])
        for i in reversed(range(n)):
            yield mk(steps[:i] + steps[i + 1:])
    # simplify values
    for i, st in enumerate(steps):
        if "value" in st and st["value"] not in (["n"], ["i", "1"]):
            for simple in [["i", "1"], ["n"]] + list(shrink_value(st["value"])):
                s2 = copy.deepcopy(steps)
                s2[i]["value"] = simple
                yield mk(s2)
        if st.get("op") == "request" and st.get("body"):
            s2 = copy.deepcopy(steps)
            s2[i]["body"] = ""
            s2[i]["content_length"] = None
            yield mk(s2)
    # move every step to one local strict store where possible
    for i, st in enumerate(steps):
        if st["view"] != "s0" and case["views"].get(st["view"], {}).get("kind") == "store" and "s0" in case["views"]:
            s2 = copy.deepcopy(steps)
            s2[i]["view"] = "s0"
            c = mk(s2)
            c["views"]["s0"] = case["views"]["s0"]
            yield c


def shrink_value(v):
    """smaller values of the same shape: a child, the container without one element, shorter strings"""
    t = v[0]
    if t in ("l", "t"):
        for i, x in enumerate(v[1]):
            yield [t, v[1][:i] + v[1][i + 1:]]
        for x in v[1]:
            yield x
        for i, x in enumerate(v[1]):
            for y in shrink_value(x):
                yield [t, v[1][:i] + [y] + v[1][i + 1:]]
    elif t == "d":
        for i, kv in enumerate(v[1]):
            yield ["d", v[1][:i] + v[1][i + 1:]]
        for k, x in v[1]:
            yield x
        for i, (k, x) in enumerate(v[1]):
            for y in shrink_value(x):
                yield ["d", v[1][:i] + [[k, y]] + v[1][i + 1:]]
    elif t == "s" and len(v[1]) > 1:
        yield ["s", v[1][:len(v[1]) // 2]]
        yield ["s", v[1][len(v[1]) // 2:]]
    elif t == "i" and v[1] not in ("0", "1"):
        yield ["i", "0"]


def neighbours(case, rng):
    k = case.get("kind", "history")
    if k == "fn":
        for i in range(60):
            yield S.gen_fn(rng, {"dumps": 0, "unquote": 1, "decode": 2}[case["fn"]])
        return
    if k != "history":
        return
    views = case["views"]
    stores = [n for n, c in views.items() if c["kind"] == "store"]
    for _ in range(60):
        c = copy.deepcopy(case)
        steps = c["steps"]
        if not steps:
            break
        i = rng.randrange(len(steps))
        r = rng.random()
        st = steps[i]
        if r < 0.3 and views[st["view"]]["kind"] == "store" and stores:
            st["view"] = rng.choice(stores)
        elif r < 0.55 and "value" in st:
            st["value"] = S.gen_value(rng)
        elif r < 0.75:
            steps.insert(i, copy.deepcopy(rng.choice(steps)))
        elif r < 0.9:
            # read everything back right after the step
            sid = st.get("sid", "a")
            if stores:
                steps.insert(i + 1, {"view": rng.choice(stores), "op": "get_data", "sid": sid})
                steps.insert(i + 2, {"view": rng.choice(stores), "op": "list_systems"})
        else:
            del steps[i]
        yield c


def signature(case, j):
    s = {"clause": j.failed_clause, "kind": case.get("kind", "history")}
    if S.has_surrogate_pair(S.strip_meta(case)):
        s["surrogate_pair"] = True
    if case.get("kind", "history") == "history":
        s["steps"] = len(case["steps"])
        d = j.detail or {}
        op = d.get("op") if isinstance(d, dict) else None
        if isinstance(op, dict):
            s["op"] = op.get("op")
            s["view_kind"] = case["views"].get(op.get("view"), {}).get("kind")
            if s["view_kind"] == "handler":
                s["action"] = case["views"][op["view"]]["action"]
    elif case.get("kind") == "fn":
        s["fn"] = case["fn"]
    return s
