"""
Case generators of C06 (matching / lookup) and C04 (confinement), and the validation
batches for the concretely modelled stdlib functions. Every random choice comes from `rng`.
"""
import itertools

import paths_common as P

# ------------------------------------------------------------------ C06
# (request_path, placeholder or None for the default "...", note)
SHAPES_PLAIN = ["/", "/p", "/p/q", "/a.b/c", "/p//q", "/...", "/é", "/p q"]
SHAPES_LOOKUP = [
    ("/...", None), ("/.../cfg", None), ("/p/...", None), ("/p/.../q", None), ("/p/x-...", None),
    ("/p/...-y", None), ("/p/x-...-y/q/r", None), ("/p/@@/q", "@@"), ("/@@.cfg", "@@"), ("/p/{id}", "{id}"),
    ("/p/....", None), ("/p/x....y", None), ("/p/ab...ba", None), ("/é/...", None), ("/p//...", None),
    # in-segment prefix and suffix that overlap (a tail of the prefix is a head of the suffix)
    ("/boot/pxe-...-pxe", None), ("/a...aa", None), ("/p/xy@@yx/q", "@@"), ("/p/aa...aa", None),
]
SHAPES_BAD = [
    ("/p/a...b...c", None), ("/.../...", None), ("/p", None), ("p/...", None), ("/p/.../", None), ("/p/...", ""),
    ("/p/...", "/"), ("/p/a/b", "a/b"), ("/p/......", None), ("", None), ("//", None), ("/p/", None),
]
VALUES = ["abc", "01-02-03-04-05-0a", "A", "sys1", "é", "a b", "x-", "-y", "...", "a.txt", "0", "ab", "aba", ".", "0042", "7"]
SEG_TOKENS = ["", "p", "q", "abc", "a.txt", "...", "..", ".", "%2f", "%2F", "%252f", "%00", "\x00", "?", "?x=/p", "%3f",
              "%c0%af", "%e2%82%ac", "é", "%C3%A9", "%", "%4", "%zz", "AB", "x-", "-y", " ", "%20", "+", "cfg", "r",
              "b", "c.txt", "missing", "%e2%82", "%F0%9F%98%80", "\U0001F600", "%ed%a0%80", "a b", "P"]
EXTRAS = ["/a.txt", "/b/c.txt", "/missing", "/", "", "//a.txt", "/b", "/b/", "/abc", "/é.txt", "/%C3%A9.txt",
          "/a%20b", "/a.txt?x=1", "/b%2fc.txt", "/b%252fc.txt", "/./a.txt", "/../next.txt", "/b/../a.txt", "?q"]
TRANSFORMS = [None, None, [{"string.add_prefix": "id-"}], ["string.to_upper"], ["misc.to_int"],
              [{"string.add_suffix": {"suffix": ".b.example"}}], [{"string.add_prefix": {"prefix": "h-"}}],
              [{"string.add_suffix": ".x"}, "string.to_lower"], ["mac_address.normalize"],
              [{"mac_address.normalize": {"raise_error_if_malformed": True}}]]


def pct_some(rng, s, p=0.3):
    """percent-encode some characters of s (upper- or lower-case hex)"""
    out = []
    for ch in s:
        if rng.random() < p:
            enc = "".join("%%%02x" % b for b in ch.encode("utf-8"))
            out.append(enc.upper() if rng.random() < 0.5 else enc)
        else:
            out.append(ch)
    return "".join(out)


def c06_config(rng, style):
    cfg = {}
    lookup = style != "plain" and rng.random() < 0.75
    if style == "badcfg":
        rp, ph = rng.choice(SHAPES_BAD)
        lookup = rng.random() < 0.8
    elif lookup:
        rp, ph = rng.choice(SHAPES_LOOKUP)
    else:
        rp, ph = rng.choice(SHAPES_PLAIN), None
    cfg["request_path"] = rp
    if ph is not None:
        cfg["placeholder"] = ph
    mode = rng.choice(["file", "dir", "dir"])
    if mode == "file":
        cfg["file"] = "srv/root/a.txt"
    else:
        cfg["root_dir"] = "srv/root"
    if style == "badcfg" and rng.random() < 0.4:
        pick = rng.randrange(6)
        if pick == 0:
            cfg.pop("file", None); cfg.pop("root_dir", None)
        elif pick == 1:
            cfg["file"] = "srv/root/a.txt"; cfg["root_dir"] = "srv/root"
        elif pick == 2:
            cfg.pop("root_dir", None); cfg["file"] = ""
        elif pick == 3:
            cfg.pop("root_dir", None); cfg["file"] = "srv/root/a.txt"; cfg["file_suffix"] = ".j2"
        elif pick == 4:
            cfg["no_result"] = "ignore"
        else:
            cfg["ds_error"] = "continue"
    if lookup:
        cfg["lookup_key"] = rng.choice(["net:mac", "net:mac", ":system_id:"])
        cfg["transform"] = rng.choice(TRANSFORMS)
        if cfg["transform"] is None:
            del cfg["transform"]
        cfg["no_result"] = cfg.get("no_result", rng.choice(["not_found", "not_found", "continue"]))
        cfg["ds_error"] = cfg.get("ds_error", rng.choice(["error", "error", "ignore", "warn"]))
    cfg["template"] = rng.random() < 0.6
    r = rng.random()
    if r < 0.12:
        cfg["client_address_list"] = [rng.choice(["192.0.2.1", "192.0.2.9"])]
    if (lookup or style == "badcfg") and rng.random() < 0.15:
        cfg["client_address_key"] = "net:addr"
    return cfg, mode, lookup


def substituted(cfg, value):
    rp = cfg["request_path"]
    ph = cfg.get("placeholder") if cfg.get("placeholder") is not None else "..."
    if rp == "/":
        rp = ""
    if cfg.get("lookup_key") and ph and ph in rp:
        return rp.replace(ph, value, 1)
    return rp


def overlap_segments(cfg):
    """request segments that start with the in-segment prefix and end with the in-segment suffix of the placeholder
    segment although they are NOT prefix + v + suffix for a non-empty v (prefix and suffix overlap, or v is empty)"""
    rp = cfg["request_path"]
    ph = cfg.get("placeholder") if cfg.get("placeholder") is not None else "..."
    if not ph or ph not in rp:
        return []
    for seg in rp.split("/"):
        if ph in seg:
            pre, _, suf = seg.partition(ph)
            out = [pre + suf]
            for k in range(1, min(len(pre), len(suf)) + 1):
                if pre[-k:] == suf[:k]:
                    out.append(pre + suf[k:])
            return [(seg, o) for o in out if pre and suf]
    return []


NUL_QUERIES = ["?x=%00", "?%00", "?\x00", "?a=1&b=%00c", "?x=/p%00"]


def c06_request(rng, cfg, mode, value, style):
    base = substituted(cfg, value)
    ov = overlap_segments(cfg)
    if ov and cfg.get("lookup_key") and rng.random() < 0.3:
        seg, bad = rng.choice(ov)
        rp = cfg["request_path"]
        base = rp.replace(seg, bad, 1)
    extra = rng.choice(EXTRAS) if (mode == "dir" or rng.random() < 0.25) else ""
    if mode == "dir" and rng.random() < 0.1:
        extra = ""
    if rng.random() < 0.12:
        # one character of the path that a pattern language would treat specially is replaced by an ordinary one:
        # the configured request path is compared literally, "grub.cfg" is not "grubXcfg"
        idx = [i for i, ch in enumerate(base) if ch in ".+*?()[]{}|^$-"]
        if idx:
            i = rng.choice(idx)
            base = base[:i] + rng.choice("Xx_0") + base[i + 1:]
    req = base + extra
    if style == "valid":
        if rng.random() < 0.5:
            req = pct_some(rng, req, 0.15)
        if rng.random() < 0.12:
            # a NUL byte (raw or percent-encoded) that occurs only in the query string
            req = req.split("?", 1)[0] + rng.choice(NUL_QUERIES)
        elif rng.random() < 0.1:
            req = req.split("?", 1)[0] + rng.choice(["?x=1", "?", "?a=%41&b", "?/p/other"])
        return req
    if style == "mutated":
        segs = req.split("/")
        for _ in range(rng.choice([1, 1, 2, 3])):
            op = rng.randrange(7)
            i = rng.randrange(len(segs))
            if op == 0 and len(segs) > 1:
                del segs[i]
            elif op == 1:
                segs[i] = rng.choice(SEG_TOKENS)
            elif op == 2:
                segs.insert(i, rng.choice(SEG_TOKENS))
            elif op == 3:
                segs[i] = segs[i] + rng.choice(SEG_TOKENS)
            elif op == 4:
                segs[i] = rng.choice(SEG_TOKENS) + segs[i]
            elif op == 5:
                segs[i] = pct_some(rng, segs[i], 0.5)
            else:
                segs[i] = segs[i].swapcase()
        return "/".join(segs)
    # random token strings
    n = rng.randrange(0, 7)
    lead = rng.choice(["/", "/", "", "%2f"])
    return lead + "/".join(rng.choice(SEG_TOKENS + [value, base.strip("/")]) for _ in range(n))


def c06_ds(rng, cfg, value):
    """data source scripted around the value the request was built from"""
    spec = cfg.get("transform")
    try:
        tv = P._chain(spec)(value) if spec else value
    except Exception:
        tv = value
    if not isinstance(tv, str):
        tv = repr(tv)
    sid = rng.choice(["sysA", "sysA", "sys/B", "", "é-1", tv])
    find = {}
    r = rng.random()
    if r < 0.7:
        find[tv] = sid
    elif r < 0.8:
        find[tv] = None
    elif r < 0.9:
        find[value] = "raw-" + sid       # only the UNtransformed value is known
    data = {}
    for k in {sid, tv, "raw-" + sid}:
        if rng.random() < 0.9:
            data[k] = {"tok": "T:" + k, "addrs": [rng.choice(["192.0.2.1", "192.0.2.9"])]}
    return {"find": find, "data": data, "find_raises": rng.random() < 0.06, "data_raises": rng.random() < 0.06}


SPECIALS = ["%3F", "%3f", "+", "%2B", "%2b", "%20", "%23", "#", ";", "%3B", "&", "%26", "=", "%3D", "%25", "%2525",
            "%253F", "~", "%7E", ":", "@", "!", "$", "'", "(", ")", "*", ",", "|", "^", "[", "]", "{", "}", "\\", "%5C",
            "\"", "<", ">", "`", "é", "%C3%A9", "%E9", "%c3", " ", "\t", "%09", "%0a", "%0D%0A", "..", "%2e", "%2E%2E"]
SPECIAL_CFGS = [
    ({"request_path": "/boot/...", "lookup_key": ":system_id:", "root_dir": "srv/root", "template": True,
      "no_result": "not_found", "ds_error": "error"}, "dir"),
    ({"request_path": "/cfg/...", "lookup_key": "net:mac", "file": "srv/root/a.txt", "template": True,
      "no_result": "not_found", "ds_error": "error"}, "file"),
    ({"request_path": "/c++/x-....cfg", "lookup_key": "net:mac", "root_dir": "srv/root", "template": False,
      "no_result": "continue", "ds_error": "error"}, "dir"),
    ({"request_path": "/p", "root_dir": "srv/root", "template": False}, "dir"),
]


def special_character_cases():
    """every character (and escape) that some URL or pattern convention treats specially, once inside the value
    that replaces the placeholder, once inside the remaining path, once as a look-alike of a fixed segment — for
    fixed configurations and both protocols (deterministic: not a matter of the seed)"""
    import urllib.parse
    for cfg, mode in SPECIAL_CFGS:
        for sp in SPECIALS:
            for where in ("value", "extra", "fixed"):
                raw = "a" + sp + "b"
                if where == "value":
                    if "lookup_key" not in cfg:
                        continue
                    base = substituted(cfg, raw)
                    extra = "/a.txt" if mode == "dir" else ""
                elif where == "extra":
                    if mode != "dir":
                        continue
                    base = substituted(cfg, "abc")
                    extra = "/" + raw + ".txt"
                else:
                    # the special character glued to a fixed segment of the configured path
                    segs = substituted(cfg, "abc").split("/")
                    segs[1] = segs[1] + sp
                    base = "/".join(segs)
                    extra = "/a.txt" if mode == "dir" else ""
                decoded = urllib.parse.unquote(raw.split("?", 1)[0])
                for proto in ("http", "tftp"):
                    yield {"proto": proto, "cfg": dict(cfg), "tree": P.TREE_C06, "req": base + extra, "method": "GET",
                           "client_ip": "192.0.2.1",
                           "ds": {"find": {decoded: "sysA", "abc": "sysA"},
                                  "data": {"sysA": {"tok": "T:sysA", "addrs": ["192.0.2.1"]},
                                           decoded: {"tok": "T:" + decoded, "addrs": ["192.0.2.1"]},
                                           "abc": {"tok": "T:abc", "addrs": ["192.0.2.1"]}},
                                  "find_raises": False, "data_raises": False},
                           "_meta": {"style": "special-" + where}}


def gen_c06(rng, tier, mult=1):
    yield from gen_batches(rng, tier, which=("unquote", "utf8", "splitjoin"))
    yield from special_character_cases()
    n = (1800 if tier == "quick" else 40000) * mult
    styles = ["valid", "mutated", "random", "mutated", "valid", "badcfg"]
    for i in range(n):
        style = styles[i % len(styles)]
        cfg, mode, lookup = c06_config(rng, "badcfg" if style == "badcfg" else rng.choice(["plain", "lookup", "lookup"]))
        value = rng.choice(VALUES)
        req = c06_request(rng, cfg, mode, value, "valid" if style == "badcfg" else style)
        proto = "tftp" if rng.random() < 0.45 else "http"
        if rng.random() < 0.12 and req.startswith("/"):
            req = "/" * rng.choice([1, 1, 2, 3]) + req           # empty leading segments (both protocols alike)
        elif proto == "tftp" and rng.random() < 0.6 and req.startswith("/"):
            req = req[1:] if rng.random() < 0.8 else "%2f" + req[1:]
        case = {"proto": proto, "cfg": cfg, "tree": P.TREE_C06, "req": req,
                "method": "GET" if rng.random() < 0.93 else rng.choice(["POST", "PUT", "DELETE"]),
                "client_ip": "192.0.2.1", "ds": c06_ds(rng, cfg, value) if lookup or "lookup_key" in cfg else {},
                "_meta": {"style": style}}
        if cfg.get("transform") and any("raise_error_if_malformed" in str(s) for s in cfg["transform"]):
            case["transform_may_raise"] = True
        if cfg.get("transform") and any(isinstance(st, dict) and isinstance(list(st.values())[0], dict)
                                        for st in cfg["transform"]):
            # other handlers of the same process, created EARLIER, use the same transformations with the same keyword
            # names and other values: every handler applies its own configuration
            case["prior_transforms"] = [[{"string.add_suffix": {"suffix": ".a.example"}}],
                                        [{"string.add_prefix": {"prefix": "x-"}}],
                                        [{"mac_address.normalize": {"raise_error_if_malformed": False}}]]
        yield case
    if tier != "quick":
        yield from small_scope_c06()


def small_scope_c06():
    """exhaustive: every request of up to 4 tokens over a small alphabet x a fixed set of configurations"""
    toks = ["", "p", "abc", "%2f", "?", "a.txt", "x-abc", "%00"]
    cfgs = []
    for rp, ph in [("/p/...", None), ("/", None), ("/p", None), ("/p/x-...", None), ("/.../a.txt", None)]:
        for mode in ("file", "dir"):
            cfg = {"request_path": rp, "template": True}
            if "..." in rp:
                cfg["lookup_key"] = "net:mac"
            cfg["file" if mode == "file" else "root_dir"] = "srv/root/a.txt" if mode == "file" else "srv/root"
            cfgs.append(cfg)
    for n in range(0, 5):
        for combo in itertools.product(toks, repeat=n):
            for lead in ("/", ""):
                req = lead + "/".join(combo)
                for ci, cfg in enumerate(cfgs):
                    yield {"proto": "tftp" if (ci + n) % 2 else "http", "cfg": cfg, "tree": P.TREE_C06, "req": req,
                           "method": "GET", "client_ip": "192.0.2.1",
                           "ds": {"find": {"abc": "sysA"}, "data": {"sysA": {"tok": "T", "addrs": []}}},
                           "_meta": {"style": "small-scope"}}


# ------------------------------------------------------------------ C04
ADVERSARIAL = ["..", ".", "%2e%2e", "%2e", "..%2f", "%5c..", "\\..", "", "%00", "%252e%252e", "?", P.LONG,
               "a.txt", "b", "c.txt", "more", "x+y.txt", "p+q.txt"]
LONG_OK = "m" * 255
CORE = ["..", "%2e%2e", "", "..%2f..", "a.txt", "b", "."]
MORE_TOKENS = ["x%20y.txt", "x y.txt", "p%2Bq.txt", "p%20q.txt", "%2f", "%2F", "%5c", "\\", "//", "%252f", "%c0%ae", "%c0%af", "%e0%80%ae", "..;", "....", ". .", "%20",
               "above.txt", "next.txt", "srv", "root", "rootx", "roota.txt", "a.txt.j2", "c.txt.j2", "%2e%2e%2f",
               "..%5c", "%00.txt", "\x00", "?/../", "#", "é", "‥", "．．", "n" * 255, "n" * 256, "%6e" * 256]


TAILS = [["a.txt"], ["b", "c.txt"], ["b", "a.txt"], ["b", "", "c.txt"], ["%2e%2e"], ["\\.."], ["..%252f"], ["b"],
         ["b", ".", "c.txt"], ["b", "..", "a.txt"], ["a.txt", "more"], ["%252e%252e"], ["b", "c.txt?x"], ["a%2etxt"],
         ["b%2fc.txt"], [LONG_OK], ["b", LONG_OK]]


def c04_configs():
    """request_path x placeholder x suffix x template x protocol (rotated over the request strings)"""
    out = []
    for proto in ("http", "tftp"):
        for template in (False, True):
            for rp, lk in (("/p", None), ("/", None), ("/p/...", "net:mac"), ("/.../files", ":system_id:")):
                for sfx in (None, ".j2"):
                    cfg = {"request_path": rp, "root_dir": "srv/root", "template": template}
                    if sfx:
                        cfg["file_suffix"] = sfx
                    if lk:
                        cfg["lookup_key"] = lk
                    out.append((proto, cfg))
    # file mode: one configured file, nothing else
    for proto in ("http", "tftp"):
        for template in (False, True):
            out.append((proto, {"request_path": "/p/only", "file": "srv/root/a.txt", "template": template}))
    return out


def c04_case(proto, cfg, tokens, style, lead=None, ext=None):
    rp = cfg["request_path"]
    base = "" if rp == "/" else rp.replace("...", "sysA")
    if ext is not None and base:
        # a request whose segment only STARTS like the last fixed segment of the configured request path
        segs = base.split("/")
        fixed = [i for i, sg in enumerate(rp.split("/")) if sg and "..." not in sg]
        if fixed:
            segs[fixed[-1]] += ext
            base = "/".join(segs)
    req = base + "/" + "/".join(tokens)
    if proto == "tftp" and lead is not None:
        req = lead + req[1:]
    return {"proto": proto, "cfg": cfg, "tree": P.TREE_C04, "req": req, "method": "GET", "client_ip": "192.0.2.1",
            "ds": {"find": {"sysA": "sysA"}, "data": {"sysA": {"tok": "T:sysA", "addrs": ["192.0.2.1"]}}},
            "_meta": {"style": style}}


ABSOLUTE_TARGETS = ["@TOP/srv/rootx/a.txt", "@TOP/srv/roota.txt", "@TOP/srv/root.j2", "@TOP/srv/root/a.txt",
                    "@TOP/above.txt", "@TOP/srv/root/b/c.txt", "@TOP/srv/rootx", "@TOP/srv/root"]


def gen_c04(rng, tier, mult=1):
    yield from gen_batches(rng, tier, which=("normpath", "translate", "splitjoin", "unquote"))
    cfgs = c04_configs()
    # the client spells out an ABSOLUTE path of the server's file system behind a doubled or encoded slash: files
    # beside the root whose names start like the root's name (rootx/, roota.txt, root.j2) and files inside it
    for proto, cfg in cfgs:
        if "root_dir" not in cfg:
            continue
        for tgt in ABSOLUTE_TARGETS:
            for joint in ("/", "%2f", "//", "/./"):
                yield c04_case(proto, cfg, [joint.strip("/") + tgt if joint in ("%2f",) else tgt] if joint in ("/", "%2f")
                               else ["", tgt.lstrip("/")] if joint == "//" else [".", tgt], "absolute",
                               lead=("" if proto == "tftp" and rng.random() < 0.5 else None))
    # look-alike prefixes: /pxe/a.txt, /pp/a.txt, /p-old/... for a handler configured for /p
    for proto, cfg in cfgs:
        if cfg["request_path"] == "/":
            continue
        for ext in ("xe", "p", "-old", "%2dold", ".", "%2f..", " "):
            for tail in (TAILS[:3] if "root_dir" in cfg else [[], ["a.txt"]]):
                yield c04_case(proto, cfg, list(tail), "lookalike-prefix", ext=ext)
    # "://" inside an ordinary request (a URL in the query string, a path segment that looks like a scheme): it is
    # a path like any other, the part behind it is not a second request target
    for proto, cfg in cfgs:
        if "root_dir" not in cfg:
            continue
        rp = cfg["request_path"]
        base = "" if rp == "/" else rp.replace("...", "sysA")
        for emb in ("http://server" + base + "/a.txt", "x://h" + base + "/a.txt", "://" + base.lstrip("/") + "/a.txt",
                    "tftp://[::1]" + base + "/b/c.txt"):
            yield c04_case(proto, cfg, ["b", "c.txt?next=" + emb], "embedded-url")
            yield c04_case(proto, cfg, ["missing?src=" + emb], "embedded-url")
            yield c04_case(proto, cfg, [emb], "embedded-url")
            case = c04_case(proto, cfg, ["a.txt"], "embedded-url")
            case["req"] = "/elsewhere/" + emb           # not below the configured request path at all
            yield case
    k = 0

    def rot():
        nonlocal k
        k += 1
        return cfgs[(k * 7) % len(cfgs)]
    # exhaustive small scope
    exh_len = 2 if tier == "quick" else 4
    for n in range(0, exh_len + 1):
        for combo in itertools.product(ADVERSARIAL, repeat=n):
            proto, cfg = rot()
            yield c04_case(proto, cfg, list(combo), f"exhaustive-{n}")
    if tier != "quick":
        for n in range(5, 7):
            for combo in itertools.product(CORE, repeat=n):
                proto, cfg = rot()
                yield c04_case(proto, cfg, list(combo), f"exhaustive-core-{n}")
    # bounded sample of the lengths not enumerated
    sample = (900 if tier == "quick" else 20000) * mult
    for _ in range(sample):
        n = rng.randrange(exh_len + 1, 7)
        proto, cfg = rot()
        toks = [rng.choice(ADVERSARIAL) for _ in range(n)]
        if rng.random() < 0.4:      # end at something that exists, so that resolution matters
            toks = toks[:n - 2] + rng.choice(TAILS)
        yield c04_case(proto, cfg, toks, f"sample-{n}", lead=rng.choice([None, None, "", "%2f"]))
    # requests that name existing files (plain, re-encoded, with repeated slashes): what is served must be that file
    benign = (250 if tier == "quick" else 5000) * mult
    for _ in range(benign):
        proto, cfg = rot()
        toks = list(rng.choice(TAILS[:4] + [["%2e%2e"], ["\\.."], ["..%252f"], ["%252e%252e"], ["b", "c.txt"], ["a.txt"]]))
        if rng.random() < 0.3:
            toks = [""] * rng.randrange(1, 3) + toks
        if rng.random() < 0.4:
            toks = [pct_some(rng, t, 0.3) for t in toks]
        yield c04_case(proto, cfg, toks, "benign", lead=rng.choice([None, None, ""]))
    # random longer, wider alphabet, every configuration incl. access restrictions
    longer = (500 if tier == "quick" else 10000) * mult
    for _ in range(longer):
        n = rng.randrange(1, 14)
        proto, cfg = rot()
        cfg = dict(cfg)
        r = rng.random()
        if r < 0.1:
            cfg["client_address_list"] = ["192.0.2.9"]          # the client is not allowed
        elif r < 0.2 and cfg.get("lookup_key"):
            cfg["client_address_key"] = "net:addr"
        toks = [rng.choice(ADVERSARIAL + MORE_TOKENS + MORE_TOKENS) for _ in range(n)]
        if rng.random() < 0.4:
            toks = toks[:max(0, n - 4)] + rng.choice(TAILS)
        if rng.random() < 0.3:
            toks = [pct_some(rng, t, 0.4) if rng.random() < 0.5 else t for t in toks]
        case = c04_case(proto, cfg, toks, "random-longer", lead=rng.choice([None, None, "", "%2f"]))
        if rng.random() < 0.05:
            case["method"] = "POST"
        if rng.random() < 0.1:
            case["client_ip"] = "192.0.2.9"
        yield case


# ------------------------------------------------------------------ stdlib validation batches
def _chunks(items, size, kind, **extra):
    for i in range(0, len(items), size):
        c = {"kind": kind, "items": items[i:i + size], "_meta": {"style": "batch"}}
        c.update(extra)
        yield c


def gen_batches(rng, tier, which):
    quick = tier == "quick"
    if "unquote" in which:
        toks = ["%", "2", "f", "F", "e", "0", "/", "é", "%C3", "%A9", "%e2%82", "%ac", "%F0%9F", "%98%80", "%ff", "%80",
                "%ed%a0%80", "%c0%af", "%e0%80%af", "%f4%90", "z", "%00", "%2", "%g1", "€", "%ED%9F%BF", "%ef%bf%bd",
                "%f0%90%80", "%e2", "%25"]
        n = 2 if quick else 3
        items = ["".join(c) for k in range(n + 1) for c in itertools.product(toks, repeat=k)]
        for _ in range(300 if quick else 20000):
            items.append("".join(rng.choice(toks) for _ in range(rng.randrange(3, 10))))
        yield from _chunks(items, 1000, "unquote")
    if "utf8" in which:
        alpha = [0x41, 0x7f, 0x80, 0xbf, 0xc1, 0xc2, 0xdf, 0xe0, 0xa0, 0x9f, 0xed, 0xef, 0xf0, 0x90, 0x8f, 0xf4, 0xf5, 0xff]
        n = 3 if quick else 4
        items = [bytes(c).hex() for k in range(n + 1) for c in itertools.product(alpha, repeat=k)]
        for _ in range(500 if quick else 50000):
            items.append(bytes(rng.choice(alpha + [rng.randrange(256)]) for _ in range(rng.randrange(4, 9))).hex())
        yield from _chunks(items, 2000, "utf8")
    if "normpath" in which:
        toks = ["/", ".", "..", "a", "b.", "//", "///", "..a", ""]
        n = 4 if quick else 6
        items = ["".join(c) for k in range(n + 1) for c in itertools.product(toks[:6] if k > 4 else toks, repeat=k)]
        items = sorted(set(items))
        yield from _chunks(items, 2000, "normpath")
    if "splitjoin" in which:
        toks = ["/", "a", "?", "", "//", "b?c", "é"]
        n = 4 if quick else 6
        items = sorted(set("".join(c) for k in range(n + 1) for c in itertools.product(toks, repeat=k)))
        yield from _chunks(items, 2000, "splitjoin")
    if "translate" in which:
        toks = ["/", "a", "..", ".", "b", "\x00", "c.txt", "//"]
        n = 4 if quick else 6
        items = sorted(set("".join(c) for k in range(n + 1) for c in itertools.product(toks, repeat=k)))
        for root, sfx in (("/SBX/srv/root", ""), ("/SBX/srv/root", ".j2"), ("/SBX/srv/root/", ""), ("/", ""),
                          ("/SBX/./root", ""), ("rel/root", ""), ("/SBX//root", ""), ("/SBX/srv/../root", "x"), (".", "")):
            yield from _chunks(items, 2000, "translate", root=root, suffix=sfx)
