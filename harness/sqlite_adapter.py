"""
C15 adapter: drives the REAL DataStore / SQLiteSource / HttpSQLiteUpdateRequestHandler on one
database file and turns what they do into canonical observations (JSON texts, exception class
names, statuses, and the table content read through an independent raw sqlite3 connection).

The same code serves three roles:
  * in-process execution of a history (`run_history`),
  * a child process hosting views or performing a write stream (`python sqlite_adapter.py child`),
    used for cross-PROCESS visibility and for the SIGKILL test (`run_crash`),
  * a fresh reader process (`python sqlite_adapter.py dump <file>`).
"""
import io
import json
import os
import shutil
import signal
import sqlite3
import subprocess
import sys
import tempfile
import time

REPO = os.environ.get("VINEGAR_REPO", "/repo")
PY = sys.executable


# --------------------------------------------------------------------------- encoding
def cps(s):
    """transport form of a str: itself if printable ASCII, else the list of code points"""
    if all(32 <= ord(c) <= 126 for c in s):
        return s
    return [ord(c) for c in s]


def uncps(x):
    if isinstance(x, str):
        return x
    return "".join(chr(c) for c in x)


class _Other:
    """hashable that json.dumps cannot use as a key"""
    def __hash__(self):
        return 7

    def __eq__(self, o):
        return isinstance(o, _Other)


def build_key(k):
    t = k[0]
    if t == "s":
        return uncps(k[1])
    if t == "i":
        return int(k[1])
    if t == "b":
        return bool(k[1])
    if t == "n":
        return None
    if t == "f":
        return float(k[1])
    if t == "o":
        return (1, 2)
    raise ValueError("bad key tag " + str(t))


def build(v):
    """tagged transport form -> the Python object"""
    t = v[0]
    if t == "n":
        return None
    if t == "b":
        return bool(v[1])
    if t == "i":
        return int(v[1])
    if t == "f":
        return float(v[1])
    if t == "s":
        return uncps(v[1])
    if t == "srep":
        return chr(v[1]) * v[2]
    if t == "l":
        return [build(x) for x in v[1]]
    if t == "t":
        return tuple(build(x) for x in v[1])
    if t == "d":
        return {build_key(k): build(x) for k, x in v[1]}
    if t == "set":
        return set(v[1]) if len(v) > 1 else {1}
    if t == "bytes":
        return bytes.fromhex(v[1]) if len(v) > 1 else b"x"
    if t == "cyc":
        lst = []
        lst.append(lst)
        return lst
    raise ValueError("bad value tag " + str(t))


def exact(v):
    """type-exact canonical form for the read-back oracle (floats by repr: -0.0 != 0.0)"""
    if v is None or isinstance(v, (bool, str)):
        return [type(v).__name__, v]
    if isinstance(v, int):
        return ["int", str(v)]
    if isinstance(v, float):
        return ["float", repr(v)]
    if isinstance(v, list):
        return ["list", [exact(x) for x in v]]
    if isinstance(v, dict):
        return ["dict", [[exact(k), exact(x)] for k, x in v.items()]]
    return ["other", repr(v)]


# --------------------------------------------------------------------------- views
def _imports():
    if REPO not in sys.path:
        sys.path.insert(0, REPO)
    from vinegar.utils.sqlite_store import open_data_store
    from vinegar.data_source.sqlite import SQLiteSource
    from vinegar.request_handler.sqlite_update import HttpSQLiteUpdateRequestHandler
    from vinegar.http.server import HttpRequestInfo
    return open_data_store, SQLiteSource, HttpSQLiteUpdateRequestHandler, HttpRequestInfo


class FaultyBody:
    """request body stream whose read fails (connection reset while the body is received)"""

    def read(self, n=-1):
        raise OSError("simulated read fault")


class Views:
    """the views of one case on one database file"""

    def __init__(self, db_file, cfgs):
        ods, Src, Hdl, self.ReqInfo = _imports()
        self.cfgs = cfgs
        self.obj = {}
        for name in sorted(cfgs):
            c = cfgs[name]
            if c["kind"] == "store":
                self.obj[name] = ods(db_file, c["strict"]) if not c["strict"] else ods(db_file)
            elif c["kind"] == "source":
                conf = {"db_file": db_file}
                if c.get("explicit", True):
                    conf["find_system_enabled"] = c["find_enabled"]
                    conf["key_prefix"] = uncps(c["prefix"])
                self.obj[name] = Src(conf)
            elif c["kind"] == "handler":
                conf = {"db_file": db_file, "request_path": uncps(c["path"]), "action": c["action"]}
                if c.get("key") is not None:
                    conf["key"] = uncps(c["key"])
                if c.get("value") is not None:
                    conf["value"] = build(c["value"])
                if c.get("clients"):
                    conf["client_address_list"] = [uncps(x) for x in c["clients"]]
                self.obj[name] = Hdl(conf)
            else:
                raise ValueError("bad view kind")

    def close(self):
        for o in self.obj.values():
            try:
                o.close()
            except Exception:
                pass

    def exec_step(self, st):
        """-> (result observation, info for the read-back oracle)"""
        name = st["view"]
        c = self.cfgs[name]
        o = self.obj[name]
        op = st["op"]
        info = None
        try:
            if c["kind"] == "store":
                if op == "set_value":
                    v = build(st["value"])
                    r = o.set_value(uncps(st["sid"]), uncps(st["key"]), v)
                    info = ("set", uncps(st["sid"]), uncps(st["key"]), exact(v) if c["strict"] else None)
                    return _none(r), info
                if op == "delete_value":
                    r = o.delete_value(uncps(st["sid"]), uncps(st["key"]))
                    return _none(r), ("del", uncps(st["sid"]), uncps(st["key"]))
                if op == "delete_data":
                    r = o.delete_data(uncps(st["sid"]))
                    return _none(r), ("delsid", uncps(st["sid"]))
                if op == "get_value":
                    r = o.get_value(uncps(st["sid"]), uncps(st["key"]))
                    return {"text": cps(json.dumps(r))}, ("get", uncps(st["sid"]), uncps(st["key"]), exact(r))
                if op == "get_data":
                    r = o.get_data(uncps(st["sid"]))
                    return {"data": [[cps(k), cps(json.dumps(v))] for k, v in r.items()]}, None
                if op == "find_systems":
                    r = o.find_systems(uncps(st["key"]), build(st["value"]))
                    return {"systems": [cps(s) for s in r]}, None
                if op == "list_systems":
                    r = o.list_systems()
                    return {"systems": [cps(s) for s in r]}, None
            elif c["kind"] == "source":
                if op == "get_data":
                    data, version = o.get_data(uncps(st["sid"]), {}, "")
                    if not isinstance(version, str) or not version:
                        return {"unexpected": "version " + repr(version)}, None
                    pfx = uncps(c["prefix"]) if c.get("explicit", True) else ""
                    depth = len(pfx.split(":")) if pfx else 0
                    path, cur = [], data
                    while len(path) < depth and isinstance(cur, dict) and len(cur) == 1:
                        (k, inner), = cur.items()
                        if not isinstance(inner, dict):
                            break
                        path.append(cps(k))
                        cur = inner
                    rows = [[cps(k), cps(json.dumps(v))] for k, v in cur.items()]
                    return {"wrapped": {"path": path, "rows": rows, "text": cps(json.dumps(data))}}, None
                if op == "find_system":
                    r = o.find_system(uncps(st["key"]), build(st["value"]))
                    return {"system": None if r is None else cps(r)}, None
            elif c["kind"] == "handler":
                if op == "request":
                    uri = uncps(st["uri"])
                    ctx = o.prepare_context(uri)
                    if not o.can_handle(uri, ctx):
                        return {"match": False}, None
                    import http.client
                    hdrs = http.client.HTTPMessage()
                    if st.get("content_length") is not None:
                        hdrs["Content-Length"] = uncps(st["content_length"])
                    raw = bytes.fromhex(st["body"])
                    body = FaultyBody() if st.get("body_fault") else io.BytesIO(raw)
                    ri = self.ReqInfo(client_address=(uncps(st["client"]), 40000), headers=hdrs,
                                      method=uncps(st["method"]), server_address=("192.0.2.250", 80), uri=uri)
                    status, rh, rb = o.handle(ri, body, ctx)
                    res = {"status": int(status)}
                    aux = {"headers": None if rh is None else dict(rh),
                           "body": None if rb is None else rb.read().hex()}
                    sid = ctx.get("system_id")
                    if int(status) == 200 and isinstance(sid, str):
                        a = c["action"]
                        if a == "delete_data":
                            info = ("delsid", sid)
                        elif a == "delete_value":
                            info = ("del", sid, uncps(c["key"]))
                        elif a == "set_value":
                            info = ("set", sid, uncps(c["key"]), exact(build(c["value"])))
                        elif a == "set_text_value_from_request_body":
                            info = ("set", sid, uncps(c["key"]), None)
                        else:
                            info = ("set", sid, uncps(c["key"]), None)
                    return dict(res, aux=aux), info
            return {"unexpected": "unknown op " + op}, None
        except Exception as e:  # the class name is the observation
            return {"exc": type(e).__name__}, None


def _none(r):
    return {"none": True} if r is None else {"unexpected": repr(r)[:100]}


def dump_rows(conn):
    """the table as seen through an independent raw connection, in primary-key order"""
    rows = conn.execute("SELECT system_id, key, value FROM system_data ORDER BY system_id, key").fetchall()
    out = []
    for s, k, v in rows:
        if not (isinstance(s, str) and isinstance(k, str) and isinstance(v, str)):
            out.append([cps(repr(s)), cps(repr(k)), cps("<non-text " + type(v).__name__ + ">")])
        else:
            out.append([cps(s), cps(k), cps(v)])
    return out


# --------------------------------------------------------------------------- child process
class Child:
    """a separate OS process hosting views on the same file"""

    def __init__(self, db_file, cfgs):
        self.p = subprocess.Popen([PY, os.path.abspath(__file__), "child"], stdin=subprocess.PIPE,
                                  stdout=subprocess.PIPE, stderr=subprocess.PIPE, text=True,
                                  env=dict(os.environ, VINEGAR_REPO=REPO, PYTHONDONTWRITEBYTECODE="1"))
        self.send({"db": db_file, "views": cfgs})
        ready = self.p.stdout.readline()
        if not ready.startswith("ready"):
            err = self.p.stderr.read()[-500:]
            raise RuntimeError("child did not start: " + err)

    def send(self, obj):
        self.p.stdin.write(json.dumps(obj, separators=(",", ":")) + "\n")
        self.p.stdin.flush()

    def call(self, st):
        self.send(st)
        line = self.p.stdout.readline()
        if not line:
            raise RuntimeError("child died: " + self.p.stderr.read()[-500:])
        r = json.loads(line)
        return r["res"], (tuple(r["info"]) if r["info"] else None)

    def close(self):
        try:
            self.p.stdin.close()
            self.p.wait(timeout=10)
        except Exception:
            self.p.kill()
        for f in (self.p.stdout, self.p.stderr):
            try:
                f.close()
            except Exception:
                pass


def child_main():
    cfg = json.loads(sys.stdin.readline())
    views = Views(cfg["db"], cfg["views"])
    out = sys.stdout
    out.write("ready\n")
    out.flush()
    for line in sys.stdin:
        line = line.strip()
        if not line:
            continue
        st = json.loads(line)
        res, info = views.exec_step(st)
        # the acknowledgement is written only after the operation has returned
        out.write(json.dumps({"res": res, "info": info}, separators=(",", ":")) + "\n")
        out.flush()
    views.close()


def dump_main(db_file):
    conn = sqlite3.connect(db_file)
    try:
        print(json.dumps(dump_rows(conn), separators=(",", ":")))
    finally:
        conn.close()


def fresh_process_dump(db_file):
    p = subprocess.run([PY, os.path.abspath(__file__), "dump", db_file], stdout=subprocess.PIPE,
                       stderr=subprocess.PIPE, text=True, timeout=120)
    if p.returncode != 0:
        raise RuntimeError("reader process failed: " + p.stderr[-500:])
    return json.loads(p.stdout)


# --------------------------------------------------------------------------- histories
def run_history(case):
    d = tempfile.mkdtemp(prefix="c15_")
    db_file = os.path.join(d, "state.db")
    cfgs = case["views"]
    local = {n: c for n, c in cfgs.items() if not c.get("proc")}
    remote = {n: c for n, c in cfgs.items() if c.get("proc")}
    views = child = raw = None
    try:
        views = Views(db_file, local)
        if remote:
            child = Child(db_file, remote)
        raw = sqlite3.connect(db_file, isolation_level=None)
        shadow = {}          # (sid, key) -> exact form of the last value written (None = not tracked)
        readback = []
        steps = []
        for i, st in enumerate(case["steps"]):
            if st["view"] in remote:
                res, info = child.call(st)
            else:
                res, info = views.exec_step(st)
            if info:
                if info[0] == "set":
                    shadow[(info[1], info[2])] = info[3]
                elif info[0] == "del":
                    shadow.pop((info[1], info[2]), None)
                elif info[0] == "delsid":
                    for k in [k for k in shadow if k[0] == info[1]]:
                        del shadow[k]
                elif info[0] == "get":
                    want = shadow.get((info[1], info[2]))
                    if want is not None and _deep_list(want) != _deep_list(info[3]):
                        readback.append(i)
            try:
                dump = dump_rows(raw)
            except sqlite3.OperationalError as e:
                # the harness's own observer connection cannot read the database after a step has RETURNED: whatever
                # connection did the step still holds a lock ("visible at once to every other connection" fails)
                return {"observer_locked": {"step": i, "op": st.get("op"), "view": st.get("view"), "error": str(e)},
                        "steps": steps}
            steps.append({"res": res, "dump": dump})
        obs = {"steps": steps, "readback_mismatch": readback}
        if case.get("final_fresh_process"):
            for o in (views, child):
                if o is not None:
                    o.close()
            views = child = None
            obs["fresh_dump"] = fresh_process_dump(db_file)
        return obs
    finally:
        for o in (views, child, raw):
            try:
                if o is not None:
                    o.close()
            except Exception:
                pass
        shutil.rmtree(d, ignore_errors=True)


def _deep_list(x):
    if isinstance(x, (list, tuple)):
        return [_deep_list(y) for y in x]
    return x


# --------------------------------------------------------------------------- non-finite floats
def run_nonfinite(case):
    """NaN / ±Infinity are outside the modelled value domain; the only requirement is: no crash,
    and the value read back through another connection equals the one written"""
    d = tempfile.mkdtemp(prefix="c15_")
    db_file = os.path.join(d, "state.db")
    ods = _imports()[0]
    a = b = None
    try:
        a, b = ods(db_file), ods(db_file)
        v = build(case["value"])
        try:
            a.set_value("sys", "k", v)
            r = b.get_value("sys", "k")
            found = b.find_systems("k", v)
            return {"ok": exact(r) == exact(v), "written": exact(v), "read": exact(r), "found": found}
        except Exception as e:
            return {"ok": False, "exc": type(e).__name__}
    finally:
        for o in (a, b):
            try:
                o.close()
            except Exception:
                pass
        shutil.rmtree(d, ignore_errors=True)


# --------------------------------------------------------------------------- pure functions
def run_fn(case):
    if REPO not in sys.path:
        sys.path.insert(0, REPO)
    fn = case["fn"]
    if fn == "dumps":
        from vinegar.utils.sqlite_store import DataStore
        v = build(case["value"])
        try:
            d = {"text": cps(json.dumps(v))}
        except Exception as e:
            d = {"exc": type(e).__name__}
        try:
            DataStore.__new__(DataStore)._check_value(v)
            c = {"none": True}
        except Exception as e:
            c = {"exc": type(e).__name__}
        rt = None
        if "text" in d and "none" in c:
            rt = exact(json.loads(json.dumps(v))) == exact(v)
        return {"dumps": d, "check": c, "roundtrip": rt}
    if fn == "unquote":
        import urllib.parse
        return {"text": cps(urllib.parse.unquote(uncps(case["s"])))}
    if fn == "decode":
        raw = bytes.fromhex(case["body"])
        try:
            j = {"text": cps(json.dumps(json.load(io.BytesIO(raw))))}
        except ValueError:
            j = {"bad": True}
        try:
            t = cps(raw.decode())
        except ValueError:
            t = None
        return {"json": j, "utf8": t}
    return {"unexpected": fn}


# --------------------------------------------------------------------------- kill test
_STRACE = []


def strace_injection_works():
    """can this sandbox deliver SIGKILL at a chosen system call (strace with ptrace permission)?"""
    if not _STRACE:
        ok = False
        try:
            p = subprocess.run(["strace", "-f", "-o", "/dev/null", "-e", "trace=write",
                                "-e", "inject=write:signal=SIGKILL:when=1", PY, "-c", "import os; os.write(1, b'x')"],
                               stdout=subprocess.PIPE, stderr=subprocess.DEVNULL, timeout=60)
            ok = p.stdout == b"" and p.returncode != 0
        except Exception:  # noqa
            ok = False
        _STRACE.append(ok)
    return _STRACE[0]


def run_crash(case):
    """a writer PROCESS performs the steps, acknowledging each completed one on a pipe; it is
    SIGKILLed after `after` acknowledgements (mode 'acked') or a short random time later (mode
    'mid', aimed at the middle of the next operation); a FRESH process then reads the file"""
    kill = case["kill"]
    if kill["mode"] == "syscall" and not strace_injection_works():
        return {"skipped": "strace cannot inject signals in this sandbox; the timed kills remain"}
    d = tempfile.mkdtemp(prefix="c15_")
    db_file = os.path.join(d, "state.db")
    p = None
    try:
        cmd = [PY, os.path.abspath(__file__), "child"]
        if kill["mode"] == "syscall":
            # deterministic kill point: the writer runs under strace, which delivers SIGKILL at the entry of the
            # k-th storage system call of the given kind (page writes to journal and database, syncs, the unlink
            # of the journal that commits) - before that call takes effect
            cmd = ["strace", "-f", "-o", "/dev/null", "-e", "trace=" + kill["syscall"],
                   "-e", "inject=%s:signal=SIGKILL:when=%d" % (kill["syscall"], kill["when"])] + cmd
        p = subprocess.Popen(cmd, stdin=subprocess.PIPE,
                             stdout=subprocess.PIPE, stderr=subprocess.DEVNULL,
                             env=dict(os.environ, VINEGAR_REPO=REPO, PYTHONDONTWRITEBYTECODE="1"))
        p.stdin.write((json.dumps({"db": db_file, "views": case["views"]}) + "\n").encode())
        p.stdin.flush()
        if not p.stdout.readline().startswith(b"ready"):
            if kill["mode"] == "syscall":
                # killed while the store was creating its tables: nothing was acknowledged; whatever is on disk
                # must be an empty map (or no database yet)
                p.wait()
                try:
                    final = fresh_process_dump(db_file)
                except RuntimeError:
                    final = []
                return {"acked": 0, "final": final, "results": [], "hot_journal": os.path.exists(db_file + "-journal"),
                        "killed_signal": 9}
            return {"harness_exception": "writer did not start"}
        payload = "".join(json.dumps(st, separators=(",", ":")) + "\n" for st in case["steps"]).encode()
        import threading
        th = threading.Thread(target=_feed, args=(p.stdin, payload), daemon=True)
        th.start()
        acked = 0
        results = []
        if kill["mode"] == "syscall":
            th.join(30)
            try:
                p.stdin.close()         # the writer ends by itself if the kill point is never reached
            except Exception:  # noqa
                pass
            rest = p.stdout.read()
            p.wait()
            for line in rest.split(b"\n"):
                if line.strip():
                    try:
                        results.append(json.loads(line)["res"])
                        acked += 1
                    except ValueError:
                        pass
            journal = os.path.exists(db_file + "-journal")
            try:
                final = fresh_process_dump(db_file)
            except RuntimeError as e:
                return {"acked": acked, "final": [], "results": results, "hot_journal": journal, "killed_signal": 9,
                        "unreadable": str(e)[-300:]}
            return {"acked": acked, "final": final, "results": results, "hot_journal": journal,
                    "killed_signal": 9 if acked < len(case["steps"]) else None}
        while acked < kill["after"]:
            line = p.stdout.readline()
            if not line:
                break
            results.append(json.loads(line)["res"])
            acked += 1
        if kill["mode"] == "mid" and kill.get("delay_us"):
            t_end = time.perf_counter() + kill["delay_us"] / 1e6
            while time.perf_counter() < t_end:
                pass
        os.kill(p.pid, signal.SIGKILL)
        rest = p.stdout.read()          # acknowledgements that were written before the kill
        p.wait()
        for line in rest.split(b"\n"):
            if line.strip():
                try:
                    results.append(json.loads(line)["res"])
                    acked += 1
                except ValueError:
                    pass                # a torn last line is not an acknowledgement
        journal = os.path.exists(db_file + "-journal")
        try:
            final = fresh_process_dump(db_file)
        except RuntimeError as e:
            # the database a killed writer left behind cannot be read by a fresh process
            return {"acked": acked, "final": [], "results": results, "hot_journal": journal,
                    "killed_signal": 9, "unreadable": str(e)[-300:]}
        return {"acked": acked, "final": final, "results": results, "hot_journal": journal,
                "killed_signal": -p.returncode if p.returncode and p.returncode < 0 else None}
    finally:
        if p is not None:
            try:
                p.kill()
            except Exception:
                pass
            for f in (p.stdin, p.stdout):
                try:
                    f.close()
                except Exception:
                    pass
        shutil.rmtree(d, ignore_errors=True)


def _feed(f, payload):
    try:
        f.write(payload)
        f.flush()
    except Exception:
        pass


class _ConnProxy:
    """stands in for a store's sqlite3 connection: before its k-th `execute` (1-based) `hook()` runs once"""

    def __init__(self, real, k, hook):
        object.__setattr__(self, "_real", real)
        object.__setattr__(self, "_k", k)
        object.__setattr__(self, "_hook", hook)
        object.__setattr__(self, "_n", 0)
        object.__setattr__(self, "fired", False)

    def execute(self, *a, **kw):
        object.__setattr__(self, "_n", self._n + 1)
        if self._n == self._k and not self.fired:
            object.__setattr__(self, "fired", True)
            self._hook()
        return self._real.execute(*a, **kw)

    def __getattr__(self, name):
        return getattr(self._real, name)

    def __setattr__(self, name, value):
        setattr(self._real, name, value)


def run_interleave(case):
    """two stores on one file: the whole call `b` of store s1 runs right before the k-th SQL statement of the call
    `a` of store s0 (another process's write falling between two statements of one call). Observed: both results and
    the rows afterwards - they must be those of `a; b` or of `b; a`."""
    d = tempfile.mkdtemp(prefix="c15_")
    db_file = os.path.join(d, "state.db")
    views = raw = None
    try:
        views = Views(db_file, case["views"])
        raw = sqlite3.connect(db_file, isolation_level=None)
        for st in case.get("init", []):
            views.exec_step(st)
        a_store = views.obj[case["a"]["view"]]
        attr = [n for n, v in vars(a_store).items() if isinstance(v, sqlite3.Connection)]
        if len(attr) != 1:
            return {"skipped": "the store's connection attribute was not found"}
        box = {}

        def hook():
            box["b"] = views.exec_step(case["b"])[0]
        proxy = _ConnProxy(getattr(a_store, attr[0]), int(case["k"]), hook)
        setattr(a_store, attr[0], proxy)
        try:
            res_a = views.exec_step(case["a"])[0]
        finally:
            setattr(a_store, attr[0], object.__getattribute__(proxy, "_real"))
        fired = proxy.fired
        if not fired:
            box["b"] = views.exec_step(case["b"])[0]      # `a` has fewer statements: plain `a; b`
        return {"res_a": res_a, "res_b": box["b"], "dump": dump_rows(raw), "fired": fired}
    finally:
        if raw is not None:
            raw.close()
        if views is not None:
            views.close()
        shutil.rmtree(d, ignore_errors=True)


def run(case):
    k = case.get("kind", "history")
    if k == "interleave":
        return run_interleave(case)
    if k == "history":
        return run_history(case)
    if k == "crash":
        return run_crash(case)
    if k == "nonfinite":
        return run_nonfinite(case)
    if k == "fn":
        return run_fn(case)
    return {"harness_exception": "unknown case kind " + str(k)}


if __name__ == "__main__":
    if sys.argv[1] == "child":
        child_main()
    elif sys.argv[1] == "dump":
        dump_main(sys.argv[2])
