"""
Simulated network boundary for the real TFTP server (DESIGN.md §3.2).

`install()` must be called BEFORE vinegar is imported. It replaces, in the stdlib,
`socket.socket`, `time.monotonic` and `threading.Thread`:

* sockets become `FakeSocket`s that are driven by event scripts and log every
  observable action of the code under test;
* `time.monotonic` becomes a per-thread virtual clock in ticks of 2**-10 s, so every
  float the server computes is exact;
* threads stay real threads but are registered so that the harness can join them.

Nothing in /repo is modified.
"""
import io
import logging
import queue
import socket as _socket
import struct
import threading
import time as _time

TICKS = 1024  # ticks per second

_real_socket_class = _socket.socket
_real_monotonic = _time.monotonic
_RealThread = threading.Thread
_real_sleep = _time.sleep

_installed = False
_tls = threading.local()


class InfraError(Exception):
    """the simulation itself failed (never a property violation)"""


class Runaway(BaseException):
    """raised inside a transfer thread whose transfer does not end: more receive opportunities than any transfer of
    this size may use. It is a BaseException so that the server's `except Exception` cannot swallow it; the thread
    dies, the `with` blocks still close socket and file, and the observation is marked `runaway`."""


# a transfer may use at most this many receive calls (the generators stay far below: the longest scripted transfer has
# ~66000 packets with one receive each); beyond it the transfer is considered never-ending
MAX_RECV_CALLS = 400000
# consecutive time-outs after the script is exhausted (the largest max_retries the generators use is far below)
MAX_IDLE_TIMEOUTS = 300


def _clock():
    c = getattr(_tls, "clock", None)
    if c is None:
        c = [0]
        _tls.clock = c
    return c


def now_ticks():
    return _clock()[0]


def _monotonic():
    if getattr(_tls, "virtual", False):
        return _clock()[0] / TICKS
    return _real_monotonic()


def to_ticks(seconds):
    """exact conversion of a socket timeout to ticks; the server's 1 ms floor is one tick"""
    if seconds is None:
        raise InfraError("blocking socket without timeout")
    if seconds == 0.001:
        return 1
    v = seconds * TICKS
    r = round(v)
    if abs(v - r) > 1e-9:
        # a non-dyadic timeout: keep going deterministically, the trace comparison decides
        r = max(1, int(v + 0.999999))
    return max(0, r)


class World:
    """everything one simulation run shares"""

    def __init__(self):
        self.lock = threading.Lock()
        self.threads = []
        self.transfers = {}  # thread index -> Transfer
        self.transfer_plans = []  # list of (script, ...) taken in thread-creation order
        self.main_sockets = []
        self.sockets_created = 0
        self.pktinfo = True
        self.sockname = ("::", 69, 0, 0)
        self.fail_socket_create = False
        self.main_log = []
        self.exc_records = []
        self.harness_errors = []


_world = None


def world():
    return _world


def new_world():
    global _world
    _world = World()
    return _world


class Transfer:
    """script and log of one transfer thread"""

    def __init__(self, script):
        # script items: ("silence",) | ["pkt", delay, cpu, src, bytes]
        self.script = []
        for e in script:
            e = list(e)
            if e[0] == "pkt" and isinstance(e[4], str):
                e[4] = bytes.fromhex(e[4])
            self.script.append(e)
        self.log = []
        self.socket = None
        self.recv_calls = 0
        self.idle_timeouts = 0
        self.runaway = False


class SimThread(_RealThread):
    def __init__(self, *a, **kw):
        super().__init__(*a, **kw)
        w = _world
        if w is not None:
            with w.lock:
                self._sim_index = len(w.threads)
                w.threads.append(self)
        else:
            self._sim_index = None

    def run(self):
        _tls.virtual = True
        _tls.clock = [0]
        _tls.sim_index = self._sim_index
        try:
            super().run()
        finally:
            _tls.virtual = False


def current_transfer():
    w = _world
    idx = getattr(_tls, "sim_index", None)
    if w is None or idx is None:
        return None
    return w.transfers.get(idx)


CLIENT_ADDR = ("::ffff:192.0.2.10", 40000, 0, 0)


def addr_of(src):
    if src == 0:
        return CLIENT_ADDR
    if src == 3:
        # another program on the CLIENT'S HOST: same address, another port (the transfer ID is address AND port)
        return (CLIENT_ADDR[0], 40000 + src, 0, 0)
    return ("::ffff:192.0.2.%d" % (10 + src), 40000 + src, 0, 0)


def src_of(addr):
    if tuple(addr) == CLIENT_ADDR:
        return 0
    try:
        return int(addr[1]) - 40000
    except Exception:
        return 999


class FakeSocket:
    """stands in for socket.socket inside the server under test"""

    def __init__(self, family=-1, type=-1, proto=-1, fileno=None):
        w = _world
        if w is None:
            raise InfraError("FakeSocket without a world")
        if w.fail_socket_create and getattr(_tls, "sim_index", None) is not None:
            raise OSError("simulated socket creation failure")
        self.family = family
        self.type = type
        self._timeout = None
        self._closed = False
        self.opts = {}
        idx = getattr(_tls, "sim_index", None)
        with w.lock:
            w.sockets_created += 1
            tr = None
            if idx is not None:
                # created inside a simulated thread: a transfer thread (the request-port thread never
                # creates sockets; start() runs in a harness thread, which has no sim index)
                tr = w.transfers.get(idx)
                if tr is None:
                    plan = w.transfer_plans.pop(0) if w.transfer_plans else []
                    tr = Transfer(plan)
                    w.transfers[idx] = tr
                tr.socket = self
        self.transfer = tr
        if tr is None:
            self.is_main = True
            self.q = queue.Queue()
            self.recv_calls = 0
            self.cv = threading.Condition()
            self.bound = None
            with w.lock:
                w.main_sockets.append(self)
        else:
            self.is_main = False

    # ---- plumbing ---------------------------------------------------------------
    def setsockopt(self, level, opt, value):
        if (not _world.pktinfo and level == _socket.IPPROTO_IPV6
                and opt == getattr(_socket, "IPV6_RECVPKTINFO", -1)):
            raise OSError("IPV6_RECVPKTINFO not supported (simulated)")
        self.opts[(level, opt)] = value

    def settimeout(self, t):
        self._timeout = t

    def gettimeout(self):
        return self._timeout

    def setblocking(self, flag):
        # setblocking(False) == settimeout(0.0); setblocking(True) == settimeout(None)
        self._timeout = None if flag else 0.0

    def bind(self, addr):
        self.bound = addr

    def getsockname(self):
        return _world.sockname

    def fileno(self):
        return -1

    def __enter__(self):
        return self

    def __exit__(self, *a):
        self.close()

    def close(self):
        if self._closed:
            return
        self._closed = True
        if self.transfer is not None:
            self.transfer.log.append(["closeSocket"])
        else:
            _world.main_log.append(["closeSocket"])

    # ---- main (request port) socket ------------------------------------------------
    def _main_get(self):
        if self._closed:
            raise OSError("socket closed")
        with self.cv:
            self.recv_calls += 1
            self.cv.notify_all()
        try:
            item = self.q.get(timeout=0.005)
        except queue.Empty:
            raise _socket.timeout("timed out")
        return item

    def push(self, data, addr, dst=None):
        self.q.put((data, addr, dst))

    def wait_processed(self, n, real_timeout=20.0, alive=None):
        """block until the server asked for datagram n+1, i.e. has handled n (True); False if the thread that
        serves the request port has ended (`alive()` false) and will never ask again"""
        deadline = _real_monotonic() + real_timeout
        with self.cv:
            while True:
                if alive is not None and not alive():
                    return False
                # every successful get is preceded by one recv call; timeouts add calls too,
                # so we track deliveries instead
                if self.q.empty() and getattr(self, "_delivered", 0) >= n and self.recv_calls > getattr(self, "_calls_at_delivery", 0):
                    return True
                left = deadline - _real_monotonic()
                if left <= 0:
                    raise InfraError("request port did not process the datagrams in time")
                self.cv.wait(min(left, 0.05))
        return True

    def _delivered_one(self):
        with self.cv:
            self._delivered = getattr(self, "_delivered", 0) + 1
            self._calls_at_delivery = self.recv_calls

    def recvmsg(self, bufsize, ancbufsize=0, flags=0):
        if not self.is_main:
            raise InfraError("recvmsg on a transfer socket")
        data, addr, dst = self._main_get()
        self._delivered_one()
        anc = []
        if dst is not None:
            packed = _real_inet_pton(_socket.AF_INET6, dst) + struct.pack("@I", 1)
            anc.append((_socket.IPPROTO_IPV6, _socket.IPV6_PKTINFO, packed))
        _world.main_log.append(["recv", data[:bufsize].hex(), list(addr)])
        return data[:bufsize], anc, 0, addr

    def recvfrom(self, bufsize, flags=0):
        if self.is_main:
            data, addr, dst = self._main_get()
            self._delivered_one()
            _world.main_log.append(["recv", data[:bufsize].hex(), list(addr)])
            return data[:bufsize], addr
        return self._transfer_recv(bufsize)

    def sendto(self, data, addr):
        if self._closed:
            raise OSError("sendto on closed socket")
        if self.is_main:
            _world.main_log.append(["send", bytes(data).hex(), list(addr)])
            return len(data)
        self.transfer.log.append(["send", now_ticks(), src_of(addr), bytes(data).hex()])
        return len(data)

    # ---- transfer socket --------------------------------------------------------
    def _transfer_recv(self, bufsize):
        try:
            return self._transfer_recv_inner(bufsize)
        except (_socket.timeout, OSError):
            raise
        except BaseException as e:   # a bug of the simulation must never look like server behaviour
            _world.harness_errors.append(repr(e))
            raise

    def _transfer_recv_inner(self, bufsize):
        if self._closed:
            raise OSError("recvfrom on closed socket")
        tr = self.transfer
        tr.recv_calls += 1
        if tr.recv_calls > MAX_RECV_CALLS or tr.idle_timeouts > MAX_IDLE_TIMEOUTS:
            # far more receive opportunities than any transfer may use, or the client has been silent for more
            # time-outs than any retry budget allows and the server still has not given up: it will never stop
            tr.runaway = True
            raise Runaway()
        if self._timeout is not None and self._timeout == 0:
            # non-blocking: only what has ALREADY arrived (a datagram of the script that follows its predecessor
            # without any delay) can be read; otherwise the call fails at once and no time passes
            clock = _clock()
            if tr.script and tr.script[0][0] != "silence" and tr.script[0][1] == 0:
                _, delay, cpu, src, data = tr.script.pop(0)
                t = clock[0]
                clock[0] += cpu
                d = bytes(data)[:bufsize]
                tr.log.append(["recv", t, clock[0], src, d.hex()])
                return d, addr_of(src)
            raise BlockingIOError(11, "Resource temporarily unavailable")
        to = to_ticks(self._timeout)
        if to <= 0:
            raise InfraError("non-blocking transfer socket")
        clock = _clock()
        if not tr.script or tr.script[0][0] == "silence":
            if tr.script:
                tr.script.pop(0)
            else:
                tr.idle_timeouts += 1
            clock[0] += to
            tr.log.append(["timeout", clock[0]])
            raise _socket.timeout("timed out")
        ev = tr.script[0]
        _, delay, cpu, src, data = ev
        if delay < to:
            tr.script.pop(0)
            clock[0] += delay
            t = clock[0]
            clock[0] += cpu
            d = bytes(data)[:bufsize]
            tr.log.append(["recv", t, clock[0], src, d.hex()])
            return d, addr_of(src)
        ev[1] = delay - to
        clock[0] += to
        tr.log.append(["timeout", clock[0]])
        raise _socket.timeout("timed out")


_real_inet_pton = _socket.inet_pton


class ExcLogHandler(logging.Handler):
    """records every log record that carries exception information (logger.exception)"""

    def emit(self, record):
        if record.exc_info:
            tr = current_transfer()
            if tr is not None:
                tr.log.append(["logException"])
            elif _world is not None:
                _world.main_log.append(["logException"])
            if _world is not None:
                import traceback as _tb
                _world.exc_records.append(record.getMessage() + " :: " +
                                          "".join(_tb.format_exception(*record.exc_info))[-700:])


class SimStream(io.BytesIO):
    """BytesIO whose reads are cut by `caps`, that raises on the `fault_at`-th block read
    (counted in `read` calls that start a new block is not observable, so the fault is
    raised once `fault_after_bytes` bytes have been handed out), and that logs its close"""

    def __init__(self, content, caps=(), fault_after_bytes=None):
        super().__init__(content)
        self._caps = list(caps)
        self._given = 0
        self._fault_after = fault_after_bytes

    def read(self, size=-1):
        if self._fault_after is not None and self._given >= self._fault_after:
            raise IOError("simulated read fault")
        n = size
        if self._caps:
            cap = max(1, self._caps.pop(0))
            n = cap if (size is None or size < 0) else min(size, cap)
        if self._fault_after is not None and n is not None and n >= 0:
            n = min(n, self._fault_after - self._given) if self._fault_after > self._given else n
        data = super().read(n)
        self._given += len(data)
        return data

    def close(self):
        if not self.closed:
            tr = current_transfer()
            if tr is not None:
                tr.log.append(["closeFile"])
        super().close()


class RawStream(io.RawIOBase):
    """a stream that is neither BytesIO nor backed by a file descriptor (size unknown)"""

    def __init__(self, content, caps=()):
        super().__init__()
        self._inner = io.BytesIO(content)
        self._caps = list(caps)

    def readable(self):
        return True

    def read(self, size=-1):
        n = size
        if self._caps:
            cap = max(1, self._caps.pop(0))
            n = cap if (size is None or size < 0) else min(size, cap)
        return self._inner.read(n)

    def fileno(self):
        raise io.UnsupportedOperation("fileno")

    def close(self):
        if not self.closed:
            tr = current_transfer()
            if tr is not None:
                tr.log.append(["closeFile"])
        super().close()


class FileStream:
    """wraps a real file object (regular file or pipe end): delegates everything, applies
    caps to reads and logs the close"""

    def __init__(self, f, caps=()):
        self._f = f
        self._caps = list(caps)
        self._closed = False

    def read(self, size=-1):
        n = size
        if self._caps:
            cap = max(1, self._caps.pop(0))
            n = cap if (size is None or size < 0) else min(size, cap)
        return self._f.read(n)

    def fileno(self):
        return self._f.fileno()

    def tell(self):
        return self._f.tell()

    def seek(self, *a):
        return self._f.seek(*a)

    def close(self):
        if not self._closed:
            self._closed = True
            tr = current_transfer()
            if tr is not None:
                tr.log.append(["closeFile"])
        self._f.close()

    def __enter__(self):
        return self

    def __exit__(self, *a):
        self.close()


def install():
    """patch the stdlib; call before importing vinegar"""
    global _installed
    if _installed:
        return
    _installed = True
    _socket.socket = FakeSocket
    _time.monotonic = _monotonic
    threading.Thread = SimThread


def join_all(real_timeout=30.0):
    w = _world
    deadline = _real_monotonic() + real_timeout
    i = 0
    while True:
        with w.lock:
            if i >= len(w.threads):
                break
            th = w.threads[i]
        i += 1
        if th is threading.current_thread():
            continue
        left = deadline - _real_monotonic()
        if th.ident is None:
            continue
        th.join(max(0.0, left))
        if th.is_alive():
            raise InfraError("simulated thread did not end")
