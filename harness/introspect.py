"""
Finding the few private things of vinegar the harness has to look at (flags of a server object, a reader
function, the Jinja environment of an engine) WITHOUT depending on their exact names: by the type of the value
or by words in the name. A harmless renaming in vinegar must not turn a check into an infrastructure error.
Every finder returns `default` when nothing (or nothing unique) is found; the callers then skip the comparison
that needed the value and say so in their observation (`unobservable`).
"""
import types

MISSING = object()


def attrs_of(obj):
    try:
        return dict(vars(obj))
    except TypeError:
        return {}


def find_instance(obj, cls, default=None):
    """the value of the first instance attribute that is an instance of `cls`"""
    for _, v in sorted(attrs_of(obj).items()):
        if isinstance(v, cls):
            return v
    return default


def find_named(obj, *needles, kind=None, exclude=(), default=MISSING):
    """value of the unique instance attribute whose name contains all `needles` (case-insensitive) and none of
    `exclude`, optionally of type `kind`"""
    hits = []
    for k, v in attrs_of(obj).items():
        lk = k.lower()
        if all(n in lk for n in needles) and not any(x in lk for x in exclude) and (kind is None or isinstance(v, kind)):
            hits.append((k, v))
    if len(hits) == 1:
        return hits[0][1]
    exact = [h for h in hits if h[0].lstrip("_").lower() == "_".join(needles)]
    if len(exact) == 1:
        return exact[0][1]
    return default


def find_function(module, *needles, default=None):
    """the unique module-level function whose name contains all `needles`"""
    hits = [v for k, v in vars(module).items()
            if isinstance(v, types.FunctionType) and all(n in k.lower() for n in needles)]
    return hits[0] if len(hits) == 1 else default


def find_method(obj, *needles, default=None):
    hits = [k for k in dir(type(obj)) if all(n in k.lower() for n in needles) and callable(getattr(obj, k, None))]
    return getattr(obj, hits[0]) if len(hits) == 1 else default


def find_subclass(module, base, default=None):
    """(name, class) of the unique class DEFINED in `module` that derives from `base`"""
    hits = [(k, v) for k, v in vars(module).items()
            if isinstance(v, type) and issubclass(v, base) and v.__module__ == module.__name__]
    return hits[0] if len(hits) == 1 else default
