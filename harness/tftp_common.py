"""
Shared pieces of the TFTP property checks (C01 C02 C07 C08 C09 C10 C20): case generators,
the model request, canonicalisation, per-property projections, shrinking.
"""
import json
import struct

ENV = "tftp_sim"
TICKS = 1024

TRUSTED_BASE = [
    "Lean 4.33.0 kernel; axioms of every listed theorem ⊆ {propext, Classical.choice, Quot.sound} (audited each run)",
    "harness/translate.py (constants, enum tables, regex literal of vinegar/tftp regenerated each run)",
    "correspondence harness: harness/sim_net.py (fake UDP sockets, virtual clock in 2^-10 s ticks, real threads), "
    "harness/tftp_adapter.py, the Lean driver executable (compiled by the Lean compiler, not kernel-checked)",
    "modelled, not verified: CPython, socket/threading/struct/re of the stdlib, UDP delivery (script order stands for "
    "network order), the handler's stream (BytesIO/file) semantics",
]
ASSUMPTIONS = [
    "client/network behaviour is an event script per receive opportunity; kernel reordering beyond script order and "
    "wall-clock scheduling on a loaded host are outside the model",
    "the 1 ms floor of _set_socket_timeout is one tick of the virtual clock",
]


def be16(n):
    return struct.pack("!H", n)


def rrq_packet(filename, mode, options):
    out = b"\x00\x01" + filename.encode("latin-1") + b"\0" + mode.encode("latin-1") + b"\0"
    for n, v in options:
        out += n.encode("latin-1") + b"\0" + v.encode("latin-1") + b"\0"
    return out


def ack(n):
    return (b"\x00\x04" + be16(n & 0xFFFF)).hex()


def error_pkt(code, msg=b"x"):
    return (b"\x00\x05" + be16(code) + msg + b"\0").hex()


# ------------------------------------------------------------------ canonicalisation
def canon_packet(hexs):
    b = bytes.fromhex(hexs)
    if len(b) >= 5 and b[0:2] == b"\x00\x05" and b[-1] == 0 and 0 not in b[4:-1]:
        return (b[:4] + b"\0").hex()
    return hexs


def canon_trace(tr):
    out = []
    for e in tr:
        if e[0] == "send":
            out.append(["send", e[1], e[2], canon_packet(e[3])])
        else:
            out.append(list(e))
    return out


def opcode(hexs):
    b = bytes.fromhex(hexs[:4]) if len(hexs) >= 4 else b""
    return struct.unpack("!H", b)[0] if len(b) == 2 else None


def dedup_runs(xs):
    out = []
    for x in xs:
        if not out or out[-1] != x:
            out.append(x)
    return out


# per-property projections of a (canonical) trace: what the property constrains
def proj_data(tr):
    return dedup_runs([e[3] for e in tr if e[0] == "send" and e[2] == 0 and opcode(e[3]) == 3])


def proj_flow(tr):
    # everything but payload bytes: order, times, addresses, packet kinds and block numbers
    out = []
    for e in tr:
        if e[0] == "send":
            out.append(["send", e[1], e[2], e[3][:8]])
        elif e[0] == "recv":
            out.append(["recv", e[1], e[2], e[3], e[4][:8]])
        elif e[0] == "timeout":
            out.append(e)
    return out


def proj_negotiation(tr):
    firsts = [e for e in tr if e[0] == "send" and e[2] == 0]
    first = firsts[0][3] if firsts else None
    sizes = [len(p) // 2 - 4 for p in proj_data(tr)]
    return {"first": first if first and opcode(first) == 6 else "no-oack", "sizes": sizes,
            "timeouts": [e[1] for e in tr if e[0] == "timeout"]}


def proj_errors(tr):
    out = []
    for e in tr:
        if e[0] == "send" and (e[2] != 0 or opcode(e[3]) == 5):
            out.append(["send", e[2], e[3]])
        elif e[0] == "logException":
            out.append(e)
        elif e[0] == "recv" and e[3] != 0:
            out.append(["recv-foreign", e[3]])
    # what goes to the client, without times
    out.append(["client", [e[3][:8] for e in tr if e[0] == "send" and e[2] == 0]])
    return out


def proj_resources(tr):
    return [e for e in tr if e[0] in ("closeSocket", "closeFile")] + [["last", tr[-1] if tr else None]]


# ------------------------------------------------------------------ model request / judge
def drop_foreign(script):
    """the script without its foreign datagrams (src != 0), their delays added to the next datagram; the
    driver checks that this equals the Lean `dropForeign` (and that `foreignOK` holds) before using the twin"""
    def add_delay(e, s):
        if s and s[0][0] == "pkt":
            return [["pkt", e + s[0][1]] + list(s[0][2:])] + s[1:]
        return s
    out = []
    for ev in reversed(script):
        if ev[0] == "silence" or ev[3] == 0:
            out = [list(ev)] + out
        else:
            out = add_delay(ev[1], out)
    return out


def foreign_ok(script):
    for i, ev in enumerate(script):
        if ev[0] == "pkt" and ev[3] != 0:
            rest = drop_foreign(script[i + 1:])
            if ev[2] != 0 or (ev[1] != 0 and rest and rest[0][0] == "silence"):
                return False
    return True


def model_request(case, obs):
    req = {"op": "tftp.session", "cfg": case["cfg"], "datagram": case["datagram"],
           "handlers": case["handlers"], "script": case.get("script", [])}
    if obs and "transfers" in obs and len(obs["transfers"]) == 1:
        req["impl_trace"] = obs["transfers"][0]
        if case.get("twin_script") is not None and len(obs.get("twin_transfers") or []) == 1:
            req["twin_script"] = case["twin_script"]
            req["twin_trace"] = obs["twin_transfers"][0]
    if obs and "main" in obs:
        req["impl_main"] = [e[1] for e in obs["main"] if e[0] == "send"]
        req["impl_transfers"] = len(obs.get("transfers", []))
        req["impl_main_exc"] = any(e[0] == "logException" for e in obs["main"])
    return req


class SessionView:
    """joins one case, the implementation's observation and the model's answer"""

    def __init__(self, case, obs, resp):
        self.case = case
        self.obs = obs
        self.infra = None
        if "harness_exception" in obs:
            self.infra = obs["harness_exception"] + "\n" + obs.get("traceback", "")
        if "err" in resp:
            self.infra = "driver: " + resp["err"]
        self.m = resp.get("ok", {})
        self.kind = self.m.get("request", {}).get("kind")
        self.impl_trace = canon_trace(obs["transfers"][0]) if obs.get("transfers") else None
        self.model_trace = self.m.get("trace")
        self.checks_impl = self.m.get("checks_impl", {})
        self.checks_model = self.m.get("checks_model", {})

    def request_port_agrees(self):
        """(agree, detail) for the request-port half"""
        req = self.m.get("request", {})
        sends = [e for e in self.obs.get("main", []) if e[0] == "send"]
        ntr = len(self.obs.get("transfers", []))
        if req.get("kind") == "ignored":
            ok = not sends and ntr == 0
        elif req.get("kind") == "error":
            ok = (ntr == 0 and len(sends) == 1
                  and canon_packet(sends[0][1]) == (b"\x00\x05" + be16(req["code"]) + b"\0").hex())
        elif req.get("kind") == "handler_failed":
            # a handler raised while being asked: logged, nothing sent, no transfer, same calls up to the failure
            mc = self.m.get("calls", [])
            ic = [[c[0], c[1]] for c in self.obs.get("calls", [])]
            ok = not sends and ntr == 0 and mc == ic
        elif req.get("kind") == "transfer":
            ok = not sends and ntr == 1
            if ok:
                mc = self.m.get("calls", [])
                ic = [[c[0], c[1]] for c in self.obs.get("calls", [])]
                ok = mc == ic
        else:
            ok = False
        return ok, {"model_request": req, "impl_main_sends": sends, "impl_transfers": ntr,
                    "impl_calls": self.obs.get("calls")}


def first_diff(a, b):
    for i, (x, y) in enumerate(zip(a, b)):
        if x != y:
            return {"index": i, "model": x, "impl": y}
    if len(a) != len(b):
        i = min(len(a), len(b))
        return {"index": i, "model": a[i] if i < len(a) else None, "impl": b[i] if i < len(b) else None}
    return None


# ------------------------------------------------------------------ generators
BLOCK_SIZES = [8, 9, 16, 511, 512, 513, 1468]


def gen_content(rng, bs, netascii=False):
    k = rng.choice([0, 0, 1, 1, 2, 3, 5])
    shape = rng.choice(["exact", "minus", "plus", "short", "empty", "rand"])
    if shape == "empty":
        n = 0
    elif shape == "short":
        n = rng.randrange(0, bs)
    elif shape == "exact":
        n = k * bs
    elif shape == "minus":
        n = max(0, k * bs - 1)
    elif shape == "plus":
        n = k * bs + 1
    else:
        n = rng.randrange(0, 3 * bs + 2)
    n = min(n, 6000)
    if netascii:
        alphabet = [13, 10, 13, 10, 65, 66, 0, 255]
        return bytes(rng.choice(alphabet) for _ in range(n))
    return bytes(rng.randrange(256) for _ in range(n))


def gen_caps(rng, n):
    mode = rng.choice(["full", "full", "one", "rand", "mixed"])
    if mode == "full":
        return []
    if mode == "one":
        return [1] * min(n + 2, 4000)
    if mode == "rand":
        return [rng.randrange(1, 20) for _ in range(rng.randrange(1, 60))]
    return [rng.choice([1, 2, 3, 7, 8, 9, 500, 512, 513]) for _ in range(rng.randrange(1, 40))]


def gen_cfg(rng, simple=False):
    if simple:
        return {"default_timeout_ticks": 2 * TICKS, "max_timeout": 30, "max_retries": rng.choice([1, 2, 3]),
                "max_block_size": 65464, "wrap": 0}
    return {
        "default_timeout_ticks": rng.choice([TICKS, 2 * TICKS, 3 * TICKS + 512, 10 * TICKS, 5, 0, 40 * TICKS, 300 * TICKS]),
        "max_timeout": rng.choice([30, 30, 5, 1, 0, 255, 256, 300]),
        "max_retries": rng.choice([1, 2, 3, 3, 0, -1, 5]),
        "max_block_size": rng.choice([65464, 1468, 512, 511, 100, 70000, 1024]),
        "wrap": rng.choice([0, 0, 1, None]),
    }


def clamp_cfg(cfg):
    """python mirror of the constructor's clamps, used only to build sensible scripts"""
    mt = min(max(cfg["max_timeout"], 1), 255)
    dt = min(max(cfg["default_timeout_ticks"], TICKS), mt * TICKS)
    mr = max(cfg["max_retries"], 1)
    mb = min(max(cfg["max_block_size"], 512), 65464)
    return dt, mt, mr, mb


def guess_negotiation(cfg, options):
    """what the generator expects to be negotiated (only used to aim scripts; a wrong guess is harmless)"""
    dt, mt, mr, mb = clamp_cfg(cfg)
    bs, T, oack = 512, dt, False
    d = {}
    for n, v in options:
        d[n.lower()] = v
    v = d.get("blksize")
    if v and v.isascii() and v.isdigit() and v[0] != "0" and int(v) >= 8:
        bs = min(int(v), mb)
        oack = True
    v = d.get("timeout")
    if v and v.isascii() and v.isdigit() and v[0] != "0" and 1 <= int(v) <= mt:
        T = int(v) * TICKS
        oack = True
    if d.get("tsize") == "0":
        oack = True   # (if octet and size known)
    return bs, T, mr, oack


def gen_script(rng, nblocks, T, R, oack, wrap, style=None, bs=512, last_len=0):
    """script aimed at a transfer of nblocks DATA packets"""
    style = style or rng.choice(["clean", "clean", "faulty", "faulty", "edge", "abort", "silent", "random"])
    script = []
    expects = ([0] if oack else [])
    n = 0
    for _ in range(nblocks):
        if n == 65535:
            if wrap is None:
                break
            n = wrap
        else:
            n += 1
        expects.append(n)
    prev = None
    for e in expects:
        if style == "clean":
            script.append(["pkt", rng.choice([0, 1, 5, 100]), rng.choice([0, 0, 1, 3]), 0, ack(e)])
        elif style in ("faulty", "edge", "random"):
            budget = rng.randrange(0, R + 1)   # timeouts before the ack; R+1 would exhaust the tries
            if style == "edge" and rng.random() < 0.2:
                budget = R + 1
            faults = []
            for _ in range(rng.randrange(0, 4)):
                kind = rng.choice(["dup", "future", "stale", "foreign", "foreign-ack", "late"])
                d = rng.choice([0, 1, T - 1, T // 2, 3]) if style != "edge" else rng.choice([T - 1, T - 2, 0, 1])
                c = rng.choice([0, 0, 0, 1, 5]) if style != "edge" else rng.choice([0, 1, 2, T, T + 1])
                if kind == "dup" and prev is not None:
                    faults.append(["pkt", d, c, 0, ack(prev)])
                elif kind == "future":
                    faults.append(["pkt", d, c, 0, ack(e + 1)])
                elif kind == "stale":
                    faults.append(["pkt", d, c, 0, ack(max(0, e - 2))])
                elif kind == "foreign":
                    faults.append(["pkt", d, c, rng.choice([1, 2, 3]), rng.choice([ack(e), "0003000141", "", "ff"])])
                elif kind == "foreign-ack":
                    faults.append(["pkt", d, c, rng.choice([1, 3]), ack(e)])
                else:
                    faults.append(["pkt", rng.choice([T, T + 1, 2 * T, T - 1]), c, 0, ack(e)])
            for _ in range(budget):
                faults.append(["silence"])
            rng.shuffle(faults)
            script.extend(faults)
            d = rng.choice([0, 1, T - 1]) if style == "edge" else rng.choice([0, 1, 7])
            script.append(["pkt", d, rng.choice([0, 0, 1]), 0, ack(e)])
        elif style == "abort":
            script.append(["pkt", 1, 0, 0, ack(e)])
            if rng.random() < 0.3:
                kind = rng.choice(["error", "error9", "error-short", "garbage", "short", "opcode", "rrq", "data", "badack",
                                   "error-long"])
                pkt = {
                    "error": error_pkt(rng.choice([0, 1, 2, 3, 4, 5, 6, 7, 8])),
                    "error9": error_pkt(rng.choice([9, 10, 255, 256, 65535])),
                    "error-short": rng.choice(["0005", "000500", "00050001", "0005000100"]),
                    "error-long": "00050001" + "41" * 600,
                    "garbage": bytes(rng.randrange(256) for _ in range(rng.randrange(2, 9))).hex(),
                    "short": rng.choice(["", "00", "04"]),
                    "opcode": rng.choice(["0000", "0007", "ffff", "0100", "00060000"]),
                    "rrq": rrq_packet("f", "octet", []).hex(),
                    "data": "0003000141",
                    "badack": rng.choice(["000400", "0004000100", "00040001ff00"]),
                }[kind]
                script.append(["pkt", rng.choice([0, 2]), rng.choice([0, 1]), 0, pkt])
        elif style == "silent":
            if rng.random() < 0.5:
                script.append(["pkt", 1, 0, 0, ack(e)])
            else:
                script.append(["silence"])
        prev = e
    if style == "random":
        for _ in range(rng.randrange(0, 6)):
            i = rng.randrange(0, len(script) + 1)
            script.insert(i, rng.choice([["silence"], ["pkt", rng.randrange(0, 2 * T), rng.randrange(0, 4), rng.choice([0, 0, 1, 3]),
                                                        rng.choice([ack(rng.randrange(0, 5)), "00", error_pkt(1), "0004"])]]))
    return script, style


OPTION_VALUES = ["0", "1", "7", "8", "9", "511", "512", "513", "1467", "1468", "1469", "65463", "65464", "65465",
                 "99999999999999999999", "08", "+8", " 8", "8 ", "", "x", "8x", "-1", "1e3", "0x10", "255", "256", "30", "31",
                 "2", "5", "８"]


def gen_options(rng, style=None):
    style = style or rng.choice(["none", "none", "blksize", "timeout", "tsize", "mixed", "mixed", "weird"])
    if style == "none":
        return []
    def name(n):
        return rng.choice([n, n, n.upper(), n.capitalize(), "".join(rng.choice([c.lower(), c.upper()]) for c in n)])
    if style == "blksize":
        return [[name("blksize"), rng.choice(["8", "9", "16", "511", "512", "513", "1468", "2000", "65464", "65465", "7"])]]
    if style == "timeout":
        return [[name("timeout"), rng.choice(["1", "2", "3", "5", "30", "31", "255", "256", "0"])]]
    if style == "tsize":
        return [[name("tsize"), rng.choice(["0", "0", "0", "1", "", "00"])]]
    opts = []
    pool = ["blksize", "timeout", "tsize", "unknown", "multicast", "windowsize", "blksize", "timeout"]
    for _ in range(rng.randrange(1, 5)):
        n = rng.choice(pool)
        if style == "weird":
            v = rng.choice(OPTION_VALUES)
        elif n == "blksize":
            v = rng.choice(["8", "16", "512", "1468", "9"])
        elif n == "timeout":
            v = rng.choice(["1", "2", "3"])
        elif n == "tsize":
            v = "0"
        else:
            v = rng.choice(["1", "x", ""])
        opts.append([name(n), v])
    return [[n, v.encode("ascii", "ignore").decode() if rng.random() < 0.5 else v] for n, v in opts]


def expected_len(content, netascii):
    if not netascii:
        return len(content)
    out = 0
    i = 0
    while i < len(content):
        c = content[i]
        if c == 13:
            out += 2
            if i + 1 < len(content) and content[i + 1] == 10:
                i += 1
        elif c == 10:
            out += 2
        else:
            out += 1
        i += 1
    return out


def gen_transfer_case(rng, netascii=None, opt_style=None, script_style=None, simple_cfg=False,
                      stream_kinds=("bytesio", "bytesio", "raw"), handler_kind=None, fault=False, bs_choices=None):
    cfg = gen_cfg(rng, simple=simple_cfg)
    netascii = rng.random() < 0.3 if netascii is None else netascii
    options = gen_options(rng, opt_style)
    if bs_choices and rng.random() < 0.8:
        options = [o for o in options if o[0].lower() != "blksize"] + [["blksize", str(rng.choice(bs_choices))]]
    options = [[n.encode("latin-1", "ignore").decode("latin-1"), v.encode("latin-1", "ignore").decode("latin-1")]
               for n, v in options]
    bs, T, R, oack = guess_negotiation(cfg, options)
    content = gen_content(rng, min(bs, 1468) if bs > 2000 else bs, netascii)
    caps = gen_caps(rng, len(content))
    hk = handler_kind or rng.choice(["stream"] * 12 + ["tftp_error", "raised"])
    kind = rng.choice(list(stream_kinds))
    if hk == "stream":
        res = {"kind": "stream", "content": content.hex(), "caps": caps, "size_known": kind in ("bytesio", "file"),
               "fault_after_bytes": None, "stream_kind": kind}
        if kind in ("bytesio", "file"):
            res["offset"] = rng.choice([0, 0, 0, 5, 512])
        if fault and not netascii and kind == "bytesio" and not res.get("offset"):
            res["fault_after_bytes"] = rng.choice([0, bs, 2 * bs, 1, bs + 3, len(content), len(content) + 5])
    elif hk == "tftp_error":
        res = {"kind": "tftp_error", "code": rng.randrange(0, 9)}
    else:
        res = {"kind": "raised"}
    outlen = expected_len(content, netascii)
    nblocks = outlen // bs + 1
    script, sstyle = gen_script(rng, nblocks, T, R, oack and hk == "stream", cfg["wrap"], script_style, bs)
    mode = rng.choice(["netascii", "NetAscii", "NETASCII"]) if netascii else rng.choice(["octet", "OCTET", "Octet"])
    fname = rng.choice(["f", "boot/pxelinux.0", "a b", ""])
    case = {
        "cfg": cfg, "datagram": rrq_packet(fname, mode, options).hex(),
        "handlers": [{"accept": None, "result": res}], "script": script,
        "_meta": {"style": sstyle, "netascii": netascii, "options": options, "handler": hk, "bs": bs,
                  "len": len(content)},
    }
    if rng.random() < 0.12:
        case["debug_log"] = True        # the server's logger at DEBUG: the verbose branches run as well
    return case


# ------------------------------------------------------------------ shrinking
def shrink_session(case):
    """smaller variants of a session case"""
    c = case
    if c.get("more"):
        for i in range(len(c["more"])):
            d = dict(c); d["more"] = c["more"][:i] + c["more"][i + 1:]; yield d
        m0 = c["more"][0]
        d = dict(c); d["datagram"] = m0["datagram"]; d["script"] = m0.get("script", []); d["more"] = c["more"][1:]; yield d
    script = c.get("script", [])
    # drop script suffix / single events
    for cut in (len(script) // 2, len(script) - 1):
        if 0 <= cut < len(script):
            d = dict(c); d["script"] = script[:cut]; yield d
    for i in range(min(len(script), 24)):
        d = dict(c); d["script"] = script[:i] + script[i + 1:]; yield d
    # zero the cpu / delays
    for i, e in enumerate(script[:24]):
        if e[0] == "pkt" and (e[1] or e[2]):
            d = dict(c); s2 = [list(x) for x in script]; s2[i][1] = 0; s2[i][2] = 0; d["script"] = s2; yield d
    # shrink content
    for hi, h in enumerate(c["handlers"]):
        r = h["result"]
        if r["kind"] == "stream":
            content = bytes.fromhex(r["content"])
            for newc in (content[:len(content) // 2], content[:-1], content[1:]):
                if len(newc) < len(content):
                    d = json.loads(json.dumps(c)); d["handlers"][hi]["result"]["content"] = newc.hex(); yield d
            if r.get("caps"):
                d = json.loads(json.dumps(c)); d["handlers"][hi]["result"]["caps"] = []; yield d
                d = json.loads(json.dumps(c)); d["handlers"][hi]["result"]["caps"] = r["caps"][:len(r["caps"]) // 2]; yield d
            if r.get("offset"):
                d = json.loads(json.dumps(c)); d["handlers"][hi]["result"]["offset"] = 0; yield d
    # simpler configuration
    std = {"default_timeout_ticks": 2 * TICKS, "max_timeout": 30, "max_retries": 1, "max_block_size": 65464, "wrap": 0}
    for k, v in std.items():
        if c["cfg"].get(k) != v:
            d = dict(c); d["cfg"] = dict(c["cfg"]); d["cfg"][k] = v; yield d
    # fewer options: re-encode the datagram without one option
    dg = bytes.fromhex(c["datagram"])
    if dg[:2] == b"\x00\x01":
        parts = dg[2:].split(b"\0")
        if len(parts) >= 5 and parts[-1] == b"":
            fields = parts[:-1]
            for i in range(2, len(fields) - 1, 2):
                nf = fields[:i] + fields[i + 2:]
                d = dict(c); d["datagram"] = (b"\x00\x01" + b"\0".join(nf) + b"\0").hex(); yield d


def neighbours_session(case, rng):
    """variants around a case (used when model and implementation disagree)"""
    for d in shrink_session(case):
        yield d
    script = case.get("script", [])
    for _ in range(40):
        d = dict(case)
        s2 = [list(x) for x in script]
        if s2 and rng.random() < 0.7:
            i = rng.randrange(len(s2))
            if s2[i][0] == "pkt":
                s2[i][1] = max(0, s2[i][1] + rng.choice([-1, 1, 1024, 2048]))
                s2[i][2] = max(0, s2[i][2] + rng.choice([0, 1, 2048]))
            else:
                s2[i] = ["pkt", rng.randrange(0, 3000), 0, 0, ack(rng.randrange(0, 4))]
        else:
            s2.insert(rng.randrange(len(s2) + 1), rng.choice([["silence"], ["pkt", 1, 0, 1, "00"], ["pkt", 0, 0, 0, ack(rng.randrange(0, 4))]]))
        d["script"] = s2
        yield d


def gen_multi_case(rng, n=None):
    """several read requests to one server, their transfers running concurrently (each with its own script)"""
    n = n or rng.choice([2, 2, 3])
    parts = [gen_transfer_case(rng, simple_cfg=True, bs_choices=[8, 16, 512], handler_kind="stream") for _ in range(n)]
    first = parts[0]
    if rng.random() < 0.25:
        # the SAME request again (same client, same bytes) while or after the first one is served: it is a request of
        # its own and is dispatched and answered like the first
        handlers = [{"accept": ["f0"], "result": first["handlers"][0]["result"]}]
        dg = bytes.fromhex(first["datagram"])
        fields = dg[2:].split(b"\0")
        fields[0] = b"f0"
        dgx = (b"\x00\x01" + b"\0".join(fields)).hex()
        return {"cfg": first["cfg"], "datagram": dgx, "handlers": handlers, "script": first["script"],
                "more": [{"datagram": dgx, "script": p["script"] if rng.random() < 0.5 else first["script"]} for p in parts[1:]],
                "_meta": {"style": "multi-same", "handler": "stream"}}
    # one server configuration and one handler list: handler i accepts only file name "f<i>"
    handlers = []
    for i, p in enumerate(parts):
        handlers.append({"accept": ["f%d" % i], "result": p["handlers"][0]["result"]})
    def readdress(p, i):
        dg = bytes.fromhex(p["datagram"])
        fields = dg[2:].split(b"\0")
        fields[0] = b"f%d" % i
        return (b"\x00\x01" + b"\0".join(fields)).hex()
    case = {"cfg": first["cfg"], "datagram": readdress(first, 0), "handlers": handlers, "script": first["script"],
            "more": [{"datagram": readdress(p, i), "script": p["script"]} for i, p in enumerate(parts) if i > 0],
            "_meta": {"style": "multi", "handler": "stream"}}
    if rng.random() < 0.3:
        # one handler of the list has a bug: it raises while being asked about ANY file name. Requests that reach it
        # are lost (logged, no reply); requests accepted by an earlier handler - and the server - are unaffected
        k = rng.randrange(len(handlers))
        handlers[k] = dict(handlers[k], raise_in=rng.choice(["prepare", "can_handle"]),
                           raise_kind=rng.choice(["KeyError", "ValueError", "RuntimeError", "OSError", "TypeError",
                                                  "AttributeError", "LookupError", "Exception", "UnicodeDecodeError"]))
        case["_meta"]["style"] = "multi-handler-fault"
    return case


def strip_meta(case):
    return {k: v for k, v in case.items() if not k.startswith("_")}
