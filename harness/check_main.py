import argparse
import os
import sys
import traceback

HERE = os.path.dirname(os.path.abspath(__file__))
sys.path.insert(0, HERE)
import core  # noqa: E402


def main():
    ap = argparse.ArgumentParser()
    ap.add_argument("prop")
    ap.add_argument("--tier", default=os.environ.get("VERIF_TIER", "quick"))
    ap.add_argument("--replay", default=None)
    a = ap.parse_args()
    seed = int(os.environ.get("VERIF_SEED", "0") or 0)
    try:
        rc = core.run_check(a.prop.upper(), tier=a.tier, seed=seed, replay=a.replay)
    except core.Infra as e:
        print(f"INFRASTRUCTURE-ERROR {a.prop}: {e}", file=sys.stderr)
        sys.exit(2)
    except Exception:
        traceback.print_exc()
        print(f"INFRASTRUCTURE-ERROR {a.prop}: unexpected exception in the harness", file=sys.stderr)
        sys.exit(2)
    sys.exit(rc)


if __name__ == "__main__":
    main()
