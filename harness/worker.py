"""
Worker process: runs the real implementation on cases read from stdin (one JSON per line)
and prints one line '@@ <json observation>' per case. A fresh process per batch keeps any
stdlib patching of the simulation out of the engine and out of other properties.
"""
import importlib
import json
import os
import sys
import traceback

HERE = os.path.dirname(os.path.abspath(__file__))
sys.path.insert(0, HERE)
REPO = os.environ.get("VINEGAR_REPO", "/repo")


def main():
    if os.environ.get("COVERAGE_PROCESS_START"):
        # optional measurement of which vinegar lines the checks execute (bin/coverage); never set by the checks
        try:
            import coverage
            coverage.process_startup()
        except Exception:  # noqa
            pass
    modname, env = sys.argv[1], sys.argv[2]
    prop = importlib.import_module(modname)
    prop.worker_setup(env)          # may patch the stdlib; must run before vinegar is imported
    if REPO not in sys.path:
        sys.path.insert(0, REPO)
    cases = [json.loads(l) for l in sys.stdin if l.strip()]
    out = sys.stdout
    for c in cases:
        try:
            obs = prop.run_impl(c, env)
        except Exception as e:      # an escaping exception is an observation, not a crash
            obs = {"harness_exception": repr(e), "traceback": traceback.format_exc()[-1500:]}
        out.write("@@ " + json.dumps(obs, separators=(",", ":"), default=str) + "\n")
    out.flush()


if __name__ == "__main__":
    main()
