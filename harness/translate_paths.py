"""
Translator section of the file request handlers (C06 / C04): literals of
vinegar/request_handler/file.py that gate behaviour, emitted into Vinegar.Generated, and the
digests of the anchored functions. The model's own constants are tied to these by `decide`d
lemmas (lean/Vinegar/Lemmas/PathsConsts.lean, PathsConstsTftp.lean), so a changed literal
breaks exactly the obligation that depends on it.
"""
import ast

import translate as T

REL = "vinegar/request_handler/file.py"


def _startswith_literals(fn):
    out = []
    for n in ast.walk(fn):
        if (isinstance(n, ast.Call) and isinstance(n.func, ast.Attribute) and n.func.attr == "startswith"
                and n.args and isinstance(n.args[0], ast.Constant) and isinstance(n.args[0].value, str)):
            out.append(n.args[0].value)
    return out


def _membership_tuples(fn):
    """literal tuples used on the right of `in` / `not in`, in source order"""
    out = []
    for n in ast.walk(fn):
        if isinstance(n, ast.Compare) and any(isinstance(o, (ast.In, ast.NotIn)) for o in n.ops):
            for c in n.comparators:
                if isinstance(c, ast.Tuple):
                    try:
                        out.append(list(ast.literal_eval(c)))
                    except Exception:
                        pass
    return out


def _in_uri_literals(fn):
    """string literals tested with `<literal> in uri`"""
    out = []
    for n in ast.walk(fn):
        if (isinstance(n, ast.Compare) and len(n.ops) == 1 and isinstance(n.ops[0], ast.In)
                and isinstance(n.left, ast.Constant) and isinstance(n.left.value, str)
                and isinstance(n.comparators[0], ast.Name) and n.comparators[0].id == "uri"):
            out.append(n.left.value)
    return out


def _eq_literals(fn, name):
    out = []
    for n in ast.walk(fn):
        if (isinstance(n, ast.Compare) and len(n.ops) == 1 and isinstance(n.ops[0], ast.Eq)
                and isinstance(n.left, ast.Name) and n.left.id == name
                and isinstance(n.comparators[0], ast.Constant) and isinstance(n.comparators[0].value, str)):
            out.append(n.comparators[0].value)
    return out


def _get_default(fn, key):
    for n in ast.walk(fn):
        if (isinstance(n, ast.Call) and isinstance(n.func, ast.Attribute) and n.func.attr == "get" and len(n.args) == 2
                and isinstance(n.args[0], ast.Constant) and n.args[0].value == key
                and isinstance(n.args[1], ast.Constant)):
            return n.args[1].value
    return None


def section(g, digests):
    if "PATHS_SYSTEM_ID_KEY" in g.values:
        return  # the engine loads the extra sections twice; emit once
    g.comment(REL)
    tree = T._parse(REL)
    base = "_FileRequestHandlerBase."
    f = lambda q: T._find_func(tree, q)  # noqa: E731
    rew = f("TftpFileRequestHandler._rewrite_filename_if_needed")
    g.strlist("PATHS_TFTP_KEEP_PREFIXES", _startswith_literals(rew) if rew else None, ["/"])
    init = f(base + "__init__")
    tuples = _membership_tuples(init) if init else []
    g.strlist("PATHS_DS_ERROR_ACTIONS", tuples[0] if len(tuples) > 0 else None, ["error", "ignore", "warn"])
    g.strlist("PATHS_NO_RESULT_ACTIONS", tuples[1] if len(tuples) > 1 else None, ["continue", "not_found"])
    handle = f(base + "_handle")
    sysid = _eq_literals(handle, "lookup_key") if handle else []
    g.string("PATHS_SYSTEM_ID_KEY", sysid[0] if sysid else None, ":system_id:")
    irp = f(base + "_init_request_path")
    g.string("PATHS_DEFAULT_PLACEHOLDER", _get_default(irp, "lookup_value_placeholder") if irp else None, "...")
    prep = f(base + "_prepare_context")
    toks = _in_uri_literals(prep) if prep else []
    # (translate.lean_str cannot escape control characters for Lean: the raw NUL travels as its code point)
    g.nat("PATHS_NUL_CHAR", ord(toks[0]) if len(toks) > 0 and len(toks[0]) == 1 else None, 0)
    g.string("PATHS_NUL_ENCODED", toks[1] if len(toks) > 1 else None, "%00")
    g.nat("PATHS_NUL_TOKEN_COUNT", len(toks) if toks else None, 2)
    hh = f("HttpFileRequestHandler.handle")
    ht = _membership_tuples(hh) if hh else []
    g.strlist("PATHS_HTTP_METHODS", ht[0] if ht else None, ["GET", "HEAD"])
    for q in ["__init__", "_can_handle", "_handle", "_init_request_path", "_prepare_context", "_translate_path"]:
        digests["request_handler/file.py:" + base + q] = T._func_digest(tree, base + q)
    for q in ["HttpFileRequestHandler.handle", "HttpFileRequestHandler.prepare_context",
              "TftpFileRequestHandler.__init__", "TftpFileRequestHandler.handle",
              "TftpFileRequestHandler.prepare_context", "TftpFileRequestHandler._rewrite_filename_if_needed"]:
        digests["request_handler/file.py:" + q] = T._func_digest(tree, q)


SECTIONS = [section]
