"""
Translator section for C18 (system matcher): literal tables of
vinegar/utils/system_matcher/_parser/{compound_expr,simple_expr}.py and the cache size of
vinegar/utils/system_matcher/__init__.py, emitted into Vinegar.Generated.

Extracted (all by walking the AST, nothing is executed):
  MATCHER_KEYWORDS              default of `_peek_keyword(accepted_keywords=...)`
  MATCHER_KEYWORD_FOLLOW        the literal a keyword may be followed by besides whitespace (`following_char == "("`)
  MATCHER_KEYWORD_PRECEDE       the tuple of `preceding_char not in (...)`
  MATCHER_RESERVED_PATTERN      the tuple of `char in (...)` of `_expect_glob_pattern_or_re`
  MATCHER_RESERVED_KEY          the same of `_expect_key`
  MATCHER_QUOTES, MATCHER_ESCAPE  `_accept_any_of(("'", '"'))`, `_expect_any_of((used_quotes, "\\"))`
  MATCHER_DATA_PREFIXES / _OPTS / _KINDS   the if/elif chain of `_accept_data_expression` (in order)
  MATCHER_ID_PREFIXES / _OPTS / _KINDS     the same of `_accept_id_expression`
  MATCHER_OPTION_I, MATCHER_DATA_OPT_END, MATCHER_ID_OPT_END, MATCHER_KEY_END, MATCHER_UNSUPPORTED_START
  MATCHER_CACHE_SIZE            `functools.lru_cache(maxsize=...)` of `_expression_from_string_cached`
  PY_ISSPACE_CODEPOINTS         the code points for which the running interpreter's `str.isspace()` is true
                                (the parser calls `str.isspace()`; this table is the model's `isSpace`)
"""
import ast

import translate as TR

SIMPLE = "vinegar/utils/system_matcher/_parser/simple_expr.py"
COMPOUND = "vinegar/utils/system_matcher/_parser/compound_expr.py"
INIT = "vinegar/utils/system_matcher/__init__.py"

PIN_DATA = [("@data_glob/", "1", "glob"), ("@data_glob:", "0", "glob"), ("@data_literal/", "1", "literal"),
            ("@data_literal:", "0", "literal"), ("@data_re/", "1", "re"), ("@data_re:", "0", "re")]
PIN_ID = [("@id_glob/", "1", "glob"), ("@id_glob@", "0", "glob"), ("@id_literal/", "1", "literal"),
          ("@id_literal@", "0", "literal"), ("@id_re/", "1", "re"), ("@id_re@", "0", "re")]


def _is_self_call(node, name):
    return (isinstance(node, ast.Call) and isinstance(node.func, ast.Attribute) and node.func.attr == name
            and isinstance(node.func.value, ast.Name) and node.func.value.id == "self")


def _const_str(node):
    if isinstance(node, ast.Constant) and isinstance(node.value, str):
        return node.value
    return None


def _prefix_chain(func):
    """the if/elif chain `if self._accept(<lit>): have_options = <bool>; expr_type = <lit>` in source order"""
    out = []
    if func is None:
        return None
    first = None
    for st in func.body:
        if isinstance(st, ast.If) and _is_self_call(st.test, "_accept"):
            first = st
            break
    node = first
    while node is not None:
        if not (_is_self_call(node.test, "_accept") and node.test.args):
            return None
        lit = _const_str(node.test.args[0])
        opts = kind = None
        for b in node.body:
            if isinstance(b, ast.Assign) and isinstance(b.targets[0], ast.Name):
                if b.targets[0].id == "have_options" and isinstance(b.value, ast.Constant):
                    opts = "1" if b.value.value is True else "0" if b.value.value is False else None
                if b.targets[0].id == "expr_type":
                    kind = _const_str(b.value)
        if lit is None or opts is None or kind is None:
            return None
        out.append((lit, opts, kind))
        if len(node.orelse) == 1 and isinstance(node.orelse[0], ast.If):
            node = node.orelse[0]
        else:
            node = None
    return out or None


def _after_options(func):
    """inside `if have_options:` -> (literal of the accepted option, literal expected after it)"""
    if func is None:
        return None, None
    for st in func.body:
        if isinstance(st, ast.If) and isinstance(st.test, ast.Name) and st.test.id == "have_options":
            opt = end = None
            for b in st.body:
                if isinstance(b, ast.If) and _is_self_call(b.test, "_accept") and b.test.args:
                    opt = _const_str(b.test.args[0])
                if isinstance(b, ast.Expr) and _is_self_call(b.value, "_expect") and b.value.args:
                    end = _const_str(b.value.args[0])
            return opt, end
    return None, None


def _toplevel_expect(func):
    """literals of the `self._expect(<lit>)` statements directly in the function body"""
    out = []
    if func is None:
        return out
    for st in func.body:
        if isinstance(st, ast.Expr) and _is_self_call(st.value, "_expect") and st.value.args:
            s = _const_str(st.value.args[0])
            if s is not None:
                out.append(s)
    return out


def _in_tuple(func, var, op_type):
    """the literal tuple of the first `<var> in/not in (<lits>)` comparison inside func"""
    if func is None:
        return None
    for n in ast.walk(func):
        if (isinstance(n, ast.Compare) and isinstance(n.left, ast.Name) and n.left.id == var
                and len(n.ops) == 1 and isinstance(n.ops[0], op_type)
                and isinstance(n.comparators[0], ast.Tuple)):
            vals = [_const_str(e) for e in n.comparators[0].elts]
            if all(v is not None for v in vals):
                return vals
    return None


def _eq_literal(func, var):
    if func is None:
        return None
    for n in ast.walk(func):
        if (isinstance(n, ast.Compare) and isinstance(n.left, ast.Name) and n.left.id == var
                and len(n.ops) == 1 and isinstance(n.ops[0], ast.Eq)):
            s = _const_str(n.comparators[0])
            if s is not None:
                return s
    return None


def _call_tuple(func, name, want_all_const):
    """first `self.<name>((...))` call: the constant members of its tuple argument"""
    if func is None:
        return None
    for n in ast.walk(func):
        if _is_self_call(n, name) and n.args and isinstance(n.args[0], ast.Tuple):
            vals = [_const_str(e) for e in n.args[0].elts]
            if want_all_const:
                if all(v is not None for v in vals):
                    return vals
            else:
                vals = [v for v in vals if v is not None]
                if vals:
                    return vals
    return None


def _natlist(g, name, values):
    g.values[name] = list(values)
    g.lines.append(f"def {name} : List Nat := [" + ", ".join(str(v) for v in values) + "]")


def section_matcher(g, digests):
    if "MATCHER_KEYWORDS" in g.values:      # the engine may load the section list twice
        return
    g.comment("vinegar/utils/system_matcher (C18)")
    try:
        simple = TR._parse(SIMPLE)
    except Exception:
        simple = None
    try:
        comp = TR._parse(COMPOUND)
    except Exception:
        comp = None
    try:
        init = TR._parse(INIT)
    except Exception:
        init = None

    f_peek = TR._find_func(comp, "CompoundExpressionParser._peek_keyword") if comp else None
    kws = None
    if f_peek is not None and f_peek.args.defaults:
        try:
            kws = list(ast.literal_eval(f_peek.args.defaults[-1]))
        except Exception:
            kws = None
    g.strlist("MATCHER_KEYWORDS", kws, ["and", "not", "or"])
    g.string("MATCHER_KEYWORD_FOLLOW", _eq_literal(f_peek, "following_char"), "(")
    g.strlist("MATCHER_KEYWORD_PRECEDE", _in_tuple(f_peek, "preceding_char", ast.NotIn), ["(", ")"])

    f_pat = TR._find_func(simple, "SimpleExpressionParser._expect_glob_pattern_or_re") if simple else None
    f_key = TR._find_func(simple, "SimpleExpressionParser._expect_key") if simple else None
    g.strlist("MATCHER_RESERVED_PATTERN", _in_tuple(f_pat, "char", ast.In), ["@", "(", ")"])
    g.strlist("MATCHER_RESERVED_KEY", _in_tuple(f_key, "char", ast.In), ["@", "(", ")"])
    q1 = _call_tuple(f_pat, "_accept_any_of", True)
    q2 = _call_tuple(f_key, "_accept_any_of", True)
    g.strlist("MATCHER_QUOTES", q1 if q1 == q2 else None, ["'", '"'])
    e1 = _call_tuple(f_pat, "_expect_any_of", False)
    e2 = _call_tuple(f_key, "_expect_any_of", False)
    g.string("MATCHER_ESCAPE", e1[0] if e1 and e1 == e2 and len(e1) == 1 else None, "\\")
    esc = _eq_literal(f_pat, "char")
    if esc is not None and esc != g.values["MATCHER_ESCAPE"]:
        g.drift.append("MATCHER_ESCAPE (escape literal differs from the one expected after it)")

    f_data = TR._find_func(simple, "SimpleExpressionParser._accept_data_expression") if simple else None
    f_id = TR._find_func(simple, "SimpleExpressionParser._accept_id_expression") if simple else None
    for tag, func, pin in (("DATA", f_data, PIN_DATA), ("ID", f_id, PIN_ID)):
        chain = _prefix_chain(func)
        if chain is None:
            g.drift.append(f"MATCHER_{tag}_PREFIXES")
            chain = pin
        g.strlist(f"MATCHER_{tag}_PREFIXES", [c[0] for c in chain], [c[0] for c in pin])
        g.strlist(f"MATCHER_{tag}_PREFIX_OPTS", [c[1] for c in chain], [c[1] for c in pin])
        g.strlist(f"MATCHER_{tag}_PREFIX_KINDS", [c[2] for c in chain], [c[2] for c in pin])
    opt_d, end_d = _after_options(f_data)
    opt_i, end_i = _after_options(f_id)
    g.string("MATCHER_OPTION_I", opt_d if opt_d == opt_i else None, "i")
    g.string("MATCHER_DATA_OPT_END", end_d, ":")
    g.string("MATCHER_ID_OPT_END", end_i, "@")
    ex = _toplevel_expect(f_data)
    g.string("MATCHER_KEY_END", ex[0] if len(ex) == 1 else None, "@")
    f_parse = TR._find_func(simple, "SimpleExpressionParser.parse") if simple else None
    uns = None
    if f_parse is not None:
        for n in ast.walk(f_parse):
            if (isinstance(n, ast.Compare) and _is_self_call(n.left, "_peek") and len(n.ops) == 1
                    and isinstance(n.ops[0], ast.Eq)):
                uns = _const_str(n.comparators[0])
    g.string("MATCHER_UNSUPPORTED_START", uns, "@")

    size = None
    f_cache = TR._find_func(init, "_expression_from_string_cached") if init else None
    if f_cache is not None:
        for d in f_cache.decorator_list:
            if isinstance(d, ast.Call):
                for kw in d.keywords:
                    if kw.arg == "maxsize":
                        try:
                            size = ast.literal_eval(kw.value)
                        except Exception:
                            size = None
    g.nat("MATCHER_CACHE_SIZE", size, 256)

    g.comment("code points with str.isspace() in the running interpreter (used by the parser through str.isspace)")
    _natlist(g, "PY_ISSPACE_CODEPOINTS", [c for c in range(0x110000) if chr(c).isspace()])

    if simple is not None:
        for q in ["SimpleExpressionParser._accept_data_expression", "SimpleExpressionParser._accept_id_expression",
                  "SimpleExpressionParser._expect_glob_pattern_or_re", "SimpleExpressionParser._expect_key",
                  "SimpleExpressionParser.parse", "_data_expression", "_id_expression"]:
            digests["system_matcher/simple_expr.py:" + q] = TR._func_digest(simple, q)
    if comp is not None:
        for q in ["CompoundExpressionParser._peek_keyword", "CompoundExpressionParser._accept_keyword",
                  "CompoundExpressionParser._accept_whitespace",
                  "CompoundExpressionParser._expect_generic_compound_expression",
                  "CompoundExpressionParser._expect_unary_expression",
                  "CompoundExpressionParser._expect_simple_expression", "CompoundExpressionParser.parse"]:
            digests["system_matcher/compound_expr.py:" + q] = TR._func_digest(comp, q)
    if init is not None:
        for q in ["match", "Matcher.__init__", "Matcher.matches", "_expression_from_string_cached"]:
            digests["system_matcher/__init__.py:" + q] = TR._func_digest(init, q)


SECTIONS = [section_matcher]
