"""
C20 — start()/stop() of the REAL HttpServer under the deterministic scheduler (sched.DynScheduler).

The `threading` module seen by vinegar/http/server.py and by socketserver is a shim whose Thread / Lock / Event are
cooperative; the selector of `serve_forever` is a stub whose select() returns at once with nothing and hands the
token on. The listening sockets are real (bound to an ephemeral port of ::1). Every line of HttpServer.start / stop /
_run and of socketserver's serve_forever / shutdown is a pre-emption point. After every lifecycle call (release of
`_running_lock`) the state of the server object is recorded; the Lean model (`Vinegar.Http.Lifecycle.call`) is
replayed on the calls in the order in which they took the lock.
"""
import json
import os
import sys

import introspect as I
import sched

REPO = os.environ.get("VINEGAR_REPO", "/repo")
LINE_FUNCS = ("start", "stop", "_run", "serve_forever", "shutdown")


class StubSelector:
    def __enter__(self):
        return self

    def __exit__(self, *a):
        return False

    def register(self, *a, **kw):
        return None

    def select(self, timeout=None):
        s = sched._current
        if s is not None:
            s.yield_now()
        return []

    def close(self):
        pass


def _modules():
    if REPO not in sys.path:
        sys.path.insert(0, REPO)
    import socketserver
    import vinegar.http.server as m
    return m, socketserver


def _run_once(case, preempt):
    m, socketserver = _modules()
    n = len(case["threads"])
    shim = sched.ThreadingShim(Thread=sched.CoopThread, Lock=sched.CoopLock, Event=sched.CoopEvent)
    inner_name, inner_cls = I.find_subclass(m, socketserver.BaseServer, default=(None, None))
    if inner_cls is None:
        return {"harness_exception": "no subclass of socketserver.BaseServer is defined in vinegar.http.server"}
    saved = (m.threading, socketserver.threading, socketserver._ServerSelector, inner_cls)
    servers = []
    events = []

    class Recorded(inner_cls):
        def __init__(self, *a, **kw):
            super().__init__(*a, **kw)
            servers.append(self)

    m.threading = shim
    socketserver.threading = shim
    socketserver._ServerSelector = StubSelector
    setattr(m, inner_name, Recorded)
    try:
        srv = m.HttpServer([], "::1", 0)

        def is_open(x):
            try:
                return x.socket.fileno() != -1
            except Exception:  # noqa
                return False

        the_lock = I.find_instance(srv, sched.CoopLock)

        def snapshot():
            mains = s.workers[n:]
            inner = I.find_instance(srv, socketserver.BaseServer)
            running = I.find_named(srv, "running", kind=bool)
            if running is I.MISSING:
                # the object's only boolean attribute is its running flag, whatever it is called
                bools = [v for v in I.attrs_of(srv).values() if isinstance(v, bool)]
                running = bools[0] if len(bools) == 1 else I.MISSING
            return {"running": None if running is I.MISSING else bool(running), "server_obj": inner is not None,
                    "listening": inner is not None and is_open(inner),
                    "thread_ref": I.find_instance(srv, sched.CoopThread) is not None,
                    "thread_alive": any(w.state != "done" for w in mains),
                    "sockets_open": sum(1 for x in servers if is_open(x)),
                    "threads_alive": sum(1 for w in mains if w.state != "done")}

        results = [[] for _ in range(n)]

        def body(i):
            def run():
                for op in case["threads"][i]:
                    try:
                        getattr(srv, op)()
                        results[i].append("ok")
                    except sched.Killed:
                        raise
                    except BaseException as e:  # noqa
                        results[i].append("raised:" + type(e).__name__)
            return run

        s = sched.DynScheduler([body(i) for i in range(n)], ("vinegar/http/server.py", "socketserver.py"),
                               preemptions=[tuple(p) for p in preempt], start_order=case.get("order"),
                               line_funcs=LINE_FUNCS, max_steps=int(case.get("max_steps", 8000)))
        done_ops = [0] * n

        def on_release(idx, lock):
            if lock is not the_lock or idx is None or idx >= n:
                return
            op = case["threads"][idx][done_ops[idx]] if done_ops[idx] < len(case["threads"][idx]) else "?"
            done_ops[idx] += 1
            events.append({"k": "call", "t": idx, "op": op, "state": snapshot()})

        s.on_release = on_release
        s.on_finish = snapshot
        s.run(real_timeout=float(case.get("real_timeout", 30)))
    finally:
        m.threading, socketserver.threading, socketserver._ServerSelector = saved[:3]
        setattr(m, inner_name, saved[3])
        for x in servers:
            try:
                x.socket.close()
            except Exception:  # noqa
                pass
    errors = [type(w.error).__name__ for w in s.workers if w.error is not None]
    return {"results": results, "events": events, "final": s.finish_result, "deadlock": s.deadlock,
            "livelock": s.livelock, "timed_out": s.timed_out, "errors": errors, "steps": s.step,
            "switches": s.switches, "workers": len(s.workers), "trace": [list(t) for t in s.trace_points[:12]],
            "preempt": [list(p) for p in preempt]}


_steps_cache = {}


def _total_steps(case):
    key = json.dumps({k: case.get(k) for k in ("threads", "order")}, sort_keys=True)
    if key not in _steps_cache:
        _steps_cache[key] = _run_once(case, [])["steps"]
    return _steps_cache[key]


def run_case(case):
    if case.get("sweep"):
        base = _run_once(case, [list(p) for p in case.get("preempt", [])])
        if base["deadlock"] or base["livelock"] or base["timed_out"] or base["errors"]:
            # already the run without any pre-emption fails: that is the outcome; sweeping it would take for ever
            return {"sweep": [base], "total_steps": base["steps"], "runs": 1}
        total = min(base["steps"], int(case.get("max_sweep_steps", 600)))
        k, mod = case["sweep"]
        n = len(case["threads"])
        distinct, runs = {}, 0
        for step in range(1, total + 1):
            if step % mod != k:
                continue
            for target in range(n + int(case.get("servers", 1))):
                o = _run_once(case, [[step, target]] + [list(p) for p in case.get("preempt", [])])
                runs += 1
                key = json.dumps([o["results"], o["events"], o["final"], o["deadlock"], o["livelock"], o["errors"]],
                                 sort_keys=True)
                if key not in distinct:
                    distinct[key] = o
            if len(distinct) >= 40:
                break       # far more distinct outcomes than the correct code has: enough to judge
        return {"sweep": list(distinct.values()), "total_steps": total, "runs": runs}
    pre = case.get("preempt", [])
    if "preempt_frac" in case:
        total = _total_steps(case)
        pre = sorted([[1 + int(f * total), t] for f, t in case["preempt_frac"]])
    return _run_once(case, pre)


if __name__ == "__main__":
    c = json.loads(sys.argv[1]) if len(sys.argv) > 1 else {"threads": [["start", "stop"], ["stop", "start"]]}
    o = run_case(c)
    print(json.dumps({k: v for k, v in o.items() if k != "events"}, indent=None)[:3000])
    for e in o.get("events", []):
        print(e)
