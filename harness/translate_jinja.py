"""
Translator section for C17: literals of vinegar/template/jinja.py that the Lean model
(`Vinegar.Model.Jinja`) refers to.

  JINJA_ALLOW_CACHE_BOUND   the `len(self._cache) >= 1024` bound of `_check_access`
  JINJA_WILDCARD_ALL        "*"   (compared with `==` in `_check_access`)
  JINJA_WILDCARD_SUFFIX     ".*"  (argument of `.endswith`)
  JINJA_WILDCARD_STRIP      1     (`allowed_module_name[:-1]`)
  JINJA_PARENT_SEG          ".."  (middle argument of os.path.join in `_Environment.join_path`)
  JINJA_DEFAULT_CACHE_ENABLED / JINJA_DEFAULT_RELATIVE_INCLUDES   config.get defaults (1/0)
  JINJA_NOCACHE_UPTODATE_ARITY   number of parameters of the callable returned by
                            `_NoCacheFileSystemLoader.get_source` (0 = repaired D11; informational)
"""
import ast

import translate as T

REL = "vinegar/template/jinja.py"


def _config_default(tree, key):
    """second argument of the first `config.get("<key>", <default>)`"""
    for n in ast.walk(tree):
        if (isinstance(n, ast.Call) and isinstance(n.func, ast.Attribute) and n.func.attr == "get"
                and isinstance(n.func.value, ast.Name) and n.func.value.id == "config"
                and len(n.args) == 2 and isinstance(n.args[0], ast.Constant) and n.args[0].value == key):
            try:
                return ast.literal_eval(n.args[1])
            except Exception:
                return None
    return None


def section_jinja(g, digests):
    if "JINJA_ALLOW_CACHE_BOUND" in g.values:
        return  # the engine may register the section list twice
    g.comment(REL)
    try:
        tree = T._parse(REL)
    except Exception:
        tree = None
    bound = wild_all = wild_suffix = strip = parent = arity = None
    if tree is not None:
        chk = T._find_func(tree, "JinjaEngine._PythonHelper._check_access")
        if chk is not None:
            for n in ast.walk(chk):
                if isinstance(n, ast.Compare) and len(n.ops) == 1:
                    c = n.comparators[0]
                    if (isinstance(n.ops[0], ast.GtE) and isinstance(n.left, ast.Call)
                            and getattr(n.left.func, "id", None) == "len" and isinstance(c, ast.Constant)
                            and isinstance(c.value, int)):
                        bound = c.value
                    if (isinstance(n.ops[0], ast.Eq) and isinstance(c, ast.Constant)
                            and isinstance(c.value, str) and wild_all is None):
                        wild_all = c.value
                if (isinstance(n, ast.Call) and isinstance(n.func, ast.Attribute) and n.func.attr == "endswith"
                        and n.args and isinstance(n.args[0], ast.Constant) and isinstance(n.args[0].value, str)):
                    wild_suffix = n.args[0].value
                if (isinstance(n, ast.Subscript) and isinstance(n.slice, ast.Slice) and n.slice.lower is None
                        and isinstance(n.slice.upper, ast.UnaryOp) and isinstance(n.slice.upper.op, ast.USub)
                        and isinstance(n.slice.upper.operand, ast.Constant)):
                    strip = n.slice.upper.operand.value
        jp = T._find_func(tree, "JinjaEngine._Environment.join_path")
        if jp is not None:
            for n in ast.walk(jp):
                if (isinstance(n, ast.Call) and isinstance(n.func, ast.Attribute) and n.func.attr == "join"
                        and len(n.args) == 3 and isinstance(n.args[1], ast.Constant)):
                    parent = n.args[1].value
        gs = T._find_func(tree, "JinjaEngine._NoCacheFileSystemLoader.get_source")
        if gs is not None:
            for n in ast.walk(gs):
                if isinstance(n, ast.Return) and isinstance(n.value, ast.Tuple) and len(n.value.elts) == 3:
                    lam = n.value.elts[2]
                    if isinstance(lam, ast.Lambda):
                        arity = len(lam.args.args) + len(lam.args.posonlyargs)
        for q in ["JinjaEngine.__init__", "JinjaEngine.render", "JinjaEngine._Loader.get_source",
                  "JinjaEngine._NoCacheFileSystemLoader.get_source", "JinjaEngine._Environment.join_path",
                  "JinjaEngine._PythonHelper.__init__", "JinjaEngine._PythonHelper.__getitem__",
                  "JinjaEngine._PythonHelper._check_access"]:
            digests["template/jinja.py:" + q] = T._func_digest(tree, q)
        try:
            ver = T._parse("vinegar/utils/version.py")
            digests["utils/version.py:version_for_file_path"] = T._func_digest(ver, "version_for_file_path")
        except Exception:
            pass
    g.nat("JINJA_ALLOW_CACHE_BOUND", bound, 1024)
    g.string("JINJA_WILDCARD_ALL", wild_all, "*")
    g.string("JINJA_WILDCARD_SUFFIX", wild_suffix, ".*")
    g.nat("JINJA_WILDCARD_STRIP", strip, 1)
    g.string("JINJA_PARENT_SEG", parent, "..")
    ce = _config_default(tree, "cache_enabled") if tree is not None else None
    ri = _config_default(tree, "relative_includes") if tree is not None else None
    g.nat("JINJA_DEFAULT_CACHE_ENABLED", int(ce) if isinstance(ce, bool) else None, 1)
    g.nat("JINJA_DEFAULT_RELATIVE_INCLUDES", int(ri) if isinstance(ri, bool) else None, 1)
    # informational only (nothing in the model depends on it): 1 on the pinned tree = D11
    g.nat("JINJA_NOCACHE_UPTODATE_ARITY", arity, 0)


SECTIONS = [section_jinja]
