"""
Check engine shared by all properties (DESIGN.md §2): translate → build → audit →
correspondence (implementation vs. Lean model, Lean spec checkers on both) →
classification / shrinking / known findings → evidence.
"""
import fcntl
import hashlib
import importlib
import json
import os
import random
import re
import subprocess
import sys
import time

VERIF = os.path.dirname(os.path.dirname(os.path.abspath(__file__)))
LEAN_DIR = os.path.join(VERIF, "lean")
DRIVER = os.path.join(LEAN_DIR, ".lake", "build", "bin", "driver")
REPO = os.environ.get("VINEGAR_REPO", "/repo")
PY = "/venv/bin/python" if os.path.exists("/venv/bin/python") else sys.executable
ALLOWED_AXIOMS = {"propext", "Classical.choice", "Quot.sound"}
FORBIDDEN = re.compile(
    r"\bsorry\b|\badmit\b|^\s*axiom\s|native_decide|bv_decide|implemented_by|\bunsafe\s|maxHeartbeats\s+0")


class Infra(Exception):
    pass


# --------------------------------------------------------------------------- build
def _lake_lock():
    os.makedirs(os.path.join(LEAN_DIR, ".lake"), exist_ok=True)
    f = open(os.path.join(LEAN_DIR, ".lake", "verif.lock"), "w")
    fcntl.flock(f, fcntl.LOCK_EX)
    return f


def translate():
    sys.path.insert(0, os.path.join(VERIF, "harness"))
    import translate as tr
    return tr.main()


def lake_build(targets, timeout=3000):
    lock = _lake_lock()
    try:
        p = subprocess.run(["lake", "build"] + list(targets), cwd=LEAN_DIR, stdout=subprocess.PIPE,
                           stderr=subprocess.STDOUT, text=True, timeout=timeout)
        return p.returncode == 0, p.stdout
    finally:
        lock.close()


def strip_comments(src):
    # nested block comments and line comments
    out = []
    i, depth, n = 0, 0, len(src)
    while i < n:
        if src.startswith("/-", i):
            depth += 1
            i += 2
        elif depth and src.startswith("-/", i):
            depth -= 1
            i += 2
        elif depth:
            if src[i] == "\n":
                out.append("\n")
            i += 1
        elif src.startswith("--", i):
            while i < n and src[i] != "\n":
                i += 1
        elif src[i] == '"':
            j = i + 1
            while j < n and src[j] != '"':
                j += 2 if src[j] == "\\" else 1
            out.append('""')
            i = j + 1
        else:
            out.append(src[i])
            i += 1
    return "".join(out)


def grep_forbidden():
    hits = []
    for root, _, files in os.walk(os.path.join(LEAN_DIR, "Vinegar")):
        for fn in files:
            if fn.endswith(".lean"):
                p = os.path.join(root, fn)
                with open(p, encoding="utf-8") as f:
                    src = strip_comments(f.read())
                for ln, line in enumerate(src.split("\n"), 1):
                    if FORBIDDEN.search(line):
                        hits.append(f"{os.path.relpath(p, LEAN_DIR)}:{ln}: {line.strip()[:120]}")
    return hits


def audit_axioms(prop_id, modules, theorems):
    """returns {theorem: (ok, axioms or message)}"""
    os.makedirs(os.path.join(LEAN_DIR, "audit"), exist_ok=True)
    path = os.path.join(LEAN_DIR, "audit", f"{prop_id}.lean")
    with open(path, "w") as f:
        for m in modules:
            f.write(f"import {m}\n")
        for t in theorems:
            f.write(f"#print axioms {t}\n")
    lock = _lake_lock()
    try:
        p = subprocess.run(["lake", "env", "lean", path], cwd=LEAN_DIR, stdout=subprocess.PIPE,
                           stderr=subprocess.STDOUT, text=True, timeout=1200)
    finally:
        lock.close()
    out = p.stdout
    res = {}
    for t in theorems:
        short = t
        m = re.search(r"'" + re.escape(short) + r"' depends on axioms: \[([^\]]*)\]", out, re.S)
        if m:
            ax = [a.strip() for a in m.group(1).replace("\n", " ").split(",") if a.strip()]
            res[t] = (set(ax) <= ALLOWED_AXIOMS, ax)
        elif re.search(r"'" + re.escape(short) + r"' does not depend on any axioms", out):
            res[t] = (True, [])
        else:
            res[t] = (False, "not found / did not compile")
    return res, out


# --------------------------------------------------------------------------- driver
def driver_call(requests, timeout=1800):
    """batch call: list of dict -> list of dict ({'ok':..} or {'err':..})"""
    if not requests:
        return []
    for _ in range(120):            # another process may be re-linking the driver right now
        if os.path.exists(DRIVER):
            break
        time.sleep(1.0)
    else:
        raise Infra("driver executable missing")
    inp = "\n".join(json.dumps(r, separators=(",", ":")) for r in requests) + "\n"
    p = subprocess.run([DRIVER], input=inp, stdout=subprocess.PIPE, stderr=subprocess.PIPE, text=True,
                       timeout=timeout)
    if p.returncode != 0:
        raise Infra(f"driver failed: {p.stderr[:500]}")
    lines = [l for l in p.stdout.split("\n") if l.strip()]
    if len(lines) != len(requests):
        raise Infra(f"driver answered {len(lines)} lines for {len(requests)} requests")
    return [json.loads(l) for l in lines]


# --------------------------------------------------------------------------- workers
def run_workers(prop_module, env, cases, nproc=None, timeout=3000):
    """run prop.run_impl(case) for every case inside fresh worker processes (so that stdlib
    patching of the simulation never leaks); returns list of observations in case order"""
    if not cases:
        return []
    nproc = nproc or min(int(os.environ.get("VERIF_JOBS", "12")), max(1, len(cases) // 8 + 1))
    chunks = [[] for _ in range(nproc)]
    for i, c in enumerate(cases):
        chunks[i % nproc].append((i, c))
    procs = []
    for ch in chunks:
        if not ch:
            continue
        p = subprocess.Popen([PY, os.path.join(VERIF, "harness", "worker.py"), prop_module, env],
                             stdin=subprocess.PIPE, stdout=subprocess.PIPE, stderr=subprocess.PIPE, text=True,
                             cwd=VERIF)
        procs.append((p, ch))
    # feed all, then collect (workers read all input first)
    import threading
    results = [None] * len(cases)
    errors = []

    def pump(p, ch):
        inp = "\n".join(json.dumps(c, separators=(",", ":")) for _, c in ch) + "\n"
        try:
            out, err = p.communicate(inp, timeout=timeout)
        except subprocess.TimeoutExpired:
            p.kill()
            errors.append("worker timeout")
            return
        lines = [l for l in out.split("\n") if l.startswith("@@ ")]
        if p.returncode != 0 or len(lines) != len(ch):
            errors.append(f"worker rc={p.returncode} lines={len(lines)}/{len(ch)} stderr={err[-800:]}")
            return
        for (i, _), l in zip(ch, lines):
            results[i] = json.loads(l[3:])

    ths = [threading.Thread(target=pump, args=pc) for pc in procs]
    for t in ths:
        t.start()
    for t in ths:
        t.join()
    if errors:
        raise Infra("; ".join(errors))
    return results


# --------------------------------------------------------------------------- findings
def load_known_findings(prop_id):
    path = os.path.join(VERIF, "KNOWN_FINDINGS.txt")
    findings, fixed = [], []
    if os.path.exists(path):
        for line in open(path, encoding="utf-8"):
            line = line.strip()
            if not line or line.startswith("#"):
                continue
            m = re.match(r"finding:\s+property=(\S+)\s+match=(\{.*?\})\s+(.*)$", line)
            if m and m.group(1) == prop_id:
                findings.append({"match": json.loads(m.group(2)), "text": m.group(3)})
            m = re.match(r"fixed:\s+property=(\S+)\s+(\S+)\s+(.*)$", line)
            if m and m.group(1) == prop_id:
                fixed.append({"commit": m.group(2), "text": m.group(3)})
    return findings, fixed


def finding_matches(signature, finding):
    return all(signature.get(k) == v for k, v in finding["match"].items())


# --------------------------------------------------------------------------- engine
class Judgement:
    __slots__ = ("case", "spec_ok", "agree", "detail", "kind", "nontrivial", "failed_clause")

    def __init__(self, case, spec_ok, agree, detail=None, kind="", nontrivial=True, failed_clause=None):
        self.case = case
        self.spec_ok = spec_ok
        self.agree = agree
        self.detail = detail
        self.kind = kind
        self.nontrivial = nontrivial
        self.failed_clause = failed_clause


def case_key(case):
    return hashlib.sha1(json.dumps(case, sort_keys=True, separators=(",", ":")).encode()).hexdigest()[:16]


def load_corpus(prop_id):
    d = os.path.join(VERIF, "corpus", prop_id)
    out = []
    if os.path.isdir(d):
        for fn in sorted(os.listdir(d)):
            if fn.endswith(".json"):
                with open(os.path.join(d, fn)) as f:
                    j = json.load(f)
                c = j.get("case", j)
                c = dict(c)
                c["_corpus"] = fn
                out.append(c)
    return out


def evaluate(prop, cases):
    """run implementation and model on the cases; returns list of Judgement"""
    by_env = {}
    for i, c in enumerate(cases):
        by_env.setdefault(prop.env_of(c), []).append(i)
    obs = [None] * len(cases)
    for env, idxs in by_env.items():
        res = run_workers(prop.MODULE, env, [cases[i] for i in idxs])
        for i, r in zip(idxs, res):
            obs[i] = r
    reqs, spans = [], []
    for c, o in zip(cases, obs):
        rs = prop.model_requests(c, o)
        spans.append((len(reqs), len(reqs) + len(rs)))
        reqs.extend(rs)
    resp = driver_call(reqs)
    out = []
    for c, o, (a, b) in zip(cases, obs, spans):
        out.append(prop.judge(c, o, resp[a:b]))
    return out


def shrink(prop, case, pred, max_rounds=60, deadline=None):
    """greedy delta debugging: keep any smaller candidate for which pred(judgement) holds"""
    cur = case
    rounds = 0
    while rounds < max_rounds and (deadline is None or time.time() < deadline):
        rounds += 1
        cands = list(prop.shrink(cur))[:64]
        if not cands:
            break
        js = evaluate(prop, cands)
        nxt = None
        for j in js:
            if pred(j):
                nxt = j.case
                break
        if nxt is None:
            break
        cur = nxt
    return cur


def _out_root():
    """evidence/ and replays/ live in /verif, unless VERIF_OUT redirects them (runs against a scratch copy of the
    repository must not overwrite the evidence of the real tree)"""
    return os.environ.get("VERIF_OUT") or VERIF


def write_replay(prop_id, payload):
    os.makedirs(os.path.join(_out_root(), "replays"), exist_ok=True)
    h = hashlib.sha1(json.dumps(payload, sort_keys=True, default=str).encode()).hexdigest()[:12]
    path = os.path.join(_out_root(), "replays", f"{prop_id}-{h}.json")
    with open(path, "w") as f:
        json.dump(payload, f, indent=1, sort_keys=True, default=str)
    return os.path.relpath(path, VERIF)


def write_evidence(prop_id, ev):
    os.makedirs(os.path.join(_out_root(), "evidence"), exist_ok=True)
    path = os.path.join(_out_root(), "evidence", f"{prop_id}.json")
    tmp = path + ".tmp"
    with open(tmp, "w") as f:
        json.dump(ev, f, indent=1, sort_keys=True, default=str)
    os.replace(tmp, path)


def load_prop(prop_id):
    sys.path.insert(0, os.path.join(VERIF, "harness"))
    return importlib.import_module("props." + prop_id.lower())


def run_check(prop_id, tier="quick", seed=0, replay=None):
    t0 = time.time()
    prop = load_prop(prop_id)
    budget_s = float(os.environ.get("VERIF_BUDGET_S", "0")) or (prop.BUDGET_S.get(tier, 120))
    hard_deadline = t0 + budget_s * 4
    lines = []  # stdout lines
    notes = []

    # 1. translate + build ---------------------------------------------------------
    try:
        meta = translate()
    except Exception as e:  # pragma: no cover
        raise Infra(f"translator crashed: {e!r}")
    ok_drv, out_drv = lake_build(["driver"])
    if not ok_drv:
        # the driver depends only on Generated + Model + Spec; a failure here is infrastructure
        raise Infra("driver build failed:\n" + out_drv[-3000:])
    ok_thm, out_thm = lake_build(prop.THEOREM_MODULES)
    broken = []
    if not ok_thm:
        errs = re.findall(r"error: ([^\n]*)", out_thm)
        broken.append({"what": "lake build " + " ".join(prop.THEOREM_MODULES), "errors": errs[:10]})

    # 2. audit -----------------------------------------------------------------------
    forbidden = grep_forbidden()
    if forbidden:
        broken.append({"what": "forbidden tokens in Lean sources", "errors": forbidden[:10]})
    obligations = len(prop.THEOREMS)
    discharged = 0
    axiom_report = {}
    if ok_thm:
        res, raw = audit_axioms(prop_id, prop.THEOREM_MODULES, prop.THEOREMS)
        for t, (ok, ax) in res.items():
            axiom_report[t] = ax
            if ok:
                discharged += 1
            else:
                broken.append({"what": f"axiom audit of {t}", "errors": [str(ax)]})
    if meta.get("drift"):
        notes.append("translator drift: " + ", ".join(meta["drift"]))
    leanchecker = None
    if tier == "thorough" and ok_thm:
        lock = _lake_lock()
        try:
            p = subprocess.run(["lake", "env", "leanchecker"] + list(prop.THEOREM_MODULES), cwd=LEAN_DIR,
                               stdout=subprocess.PIPE, stderr=subprocess.STDOUT, text=True, timeout=3000)
            leanchecker = {"rc": p.returncode, "tail": p.stdout[-300:]}
            if p.returncode != 0:
                broken.append({"what": "leanchecker " + " ".join(prop.THEOREM_MODULES), "errors": [p.stdout[-500:]]})
        except Exception as e:  # the independent re-check is best effort
            leanchecker = {"rc": None, "tail": repr(e)}
        finally:
            lock.close()

    # 3. cases -------------------------------------------------------------------------
    rng = random.Random(seed * 1000003 + int(hashlib.sha1(prop_id.encode()).hexdigest()[:6], 16))
    if replay:
        with open(replay) as f:
            rj = json.load(f)
        cases = [rj["case"]] if "case" in rj else []
        corpus = []
    else:
        corpus = load_corpus(prop_id)
        mult = 10 if broken else 1  # a broken obligation raises the search budget
        cases = None
    judgements = []
    B = 400
    timed_out = False
    if replay:
        judgements.extend(evaluate(prop, cases))
    else:
        import itertools
        stream = itertools.chain(corpus, prop.gen(rng, tier, mult))
        first = True
        while True:
            batch = list(itertools.islice(stream, B))
            if not batch:
                break
            if not first and time.time() > t0 + budget_s:
                timed_out = True
                break
            first = False
            judgements.extend(evaluate(prop, batch))
    n_eval = len(judgements)

    # 4. classify -----------------------------------------------------------------------
    findings, fixed = load_known_findings(prop_id)
    spec_fail = [j for j in judgements if not j.spec_ok]
    mismatch = [j for j in judgements if j.spec_ok and not j.agree]
    violations = []
    unreproduced = []
    known_hits = {}
    seen_sigs = set()
    shrink_deadline = time.time() + float(os.environ.get("VERIF_SHRINK_S", "90"))
    for j in spec_fail[:50]:
        if time.time() > shrink_deadline and (violations or known_hits):
            break
        sig0 = prop.signature(j.case, j)
        if any(finding_matches(sig0, f) for f in findings):
            small = j.case
        else:
            clause = j.failed_clause
            sig_pre = json.dumps(sig0, sort_keys=True)
            if sig_pre in seen_sigs:
                continue
            small = shrink(prop, j.case, lambda x: (not x.spec_ok) and (clause is None or x.failed_clause == clause),
                           deadline=min(hard_deadline, shrink_deadline, time.time() + 45))
        js = evaluate(prop, [small])[0]
        if js.spec_ok:
            # the (minimised) case does not fail when it is run again; a violation needs a replay that replays:
            # run the ORIGINAL case twice more and report it if it fails again, otherwise record the failure
            # as unreproduced (evidence, NOTE line) - not as a violation
            again = [x for x in evaluate(prop, [j.case, j.case]) if not x.spec_ok]
            if again:
                small, js = j.case, again[0]
            else:
                unreproduced.append({"case": _trim([j.case])[0], "failed_clause": j.failed_clause,
                                     "detail": _trim([j.detail])[0] if j.detail is not None else None})
                continue
        sig = prop.signature(small, js)
        skey = json.dumps(sig, sort_keys=True)
        matched = [f for f in findings if finding_matches(sig, f)]
        if matched:
            known_hits[matched[0]["text"]] = known_hits.get(matched[0]["text"], 0) + 1
            continue
        if skey in seen_sigs:
            continue
        seen_sigs.add(skey)
        seen_sigs.add(json.dumps(sig0, sort_keys=True))
        path = write_replay(prop_id, {
            "property": prop_id, "kind": "spec-violated-by-implementation", "case": small,
            "failed_clause": js.failed_clause, "detail": js.detail, "signature": sig,
            "replay_cmd": f"bin/check {prop_id} --replay <this file>"})
        violations.append(path)
        lines.append(f"VIOLATION property={prop_id} replay={path}")
        if len(violations) >= 5:
            break

    if not violations and mismatch and not replay:
        # a disagreement counts only if it shows again when the same case is run again (a loaded machine can make a
        # real-socket run time out once); the ones that do not are recorded in the evidence
        again = evaluate(prop, [j.case for j in mismatch[:40]])
        stable = [j for j, a in zip(mismatch[:40], again) if not a.agree or not a.spec_ok]
        gone = [j for j, a in zip(mismatch[:40], again) if a.agree and a.spec_ok]
        for j in gone[:5]:
            unreproduced.append({"case": _trim([j.case])[0], "failed_clause": "model-implementation-disagreement",
                                 "detail": _trim([j.detail])[0] if j.detail is not None else None})
        mismatch = stable + mismatch[40:]
    if not violations and (mismatch or broken):
        # correspondence or proof obligation broken but the spec held on everything seen:
        # targeted search around the mismatching inputs
        found = None
        if mismatch and not replay and time.time() < hard_deadline:
            extra = []
            for j in mismatch[:20]:
                extra.extend(list(prop.neighbours(j.case, rng))[:100])
            for i in range(0, len(extra), B):
                if time.time() > hard_deadline:
                    break
                js = evaluate(prop, extra[i:i + B])
                n_eval += len(js)
                bad = [x for x in js if not x.spec_ok]
                if bad:
                    found = bad[0]
                    break
        if found is not None:
            small = shrink(prop, found.case, lambda x: not x.spec_ok, deadline=min(hard_deadline, time.time() + 60))
            js = evaluate(prop, [small])[0]
            sig = prop.signature(small, js)
            if any(finding_matches(sig, f) for f in findings):
                known_hits[[f for f in findings if finding_matches(sig, f)][0]["text"]] = 1
            else:
                path = write_replay(prop_id, {
                    "property": prop_id, "kind": "spec-violated-by-implementation", "case": small,
                    "failed_clause": js.failed_clause, "detail": js.detail, "signature": sig})
                violations.append(path)
                lines.append(f"VIOLATION property={prop_id} replay={path}")
        if not violations:
            first = mismatch[0] if mismatch else None
            small = None
            if first is not None:
                small = shrink(prop, first.case, lambda x: x.spec_ok and not x.agree,
                               deadline=min(hard_deadline, time.time() + 60))
                first = evaluate(prop, [small])[0]
            payload = {
                "property": prop_id, "kind": "no-longer-shown-to-hold",
                "broken_obligations": broken,
                "broken_correspondence": None if first is None else {
                    "what": "model and implementation disagree although the spec checkers accept both",
                    "case": small, "detail": first.detail},
                "mismatching_cases": len(mismatch),
                "note": "no input was found on which the property itself fails"}
            path = write_replay(prop_id, payload)
            violations.append(path)
            lines.append(f"VIOLATION property={prop_id} replay={path} no-failing-input-found")

    for text, n in known_hits.items():
        lines.append(f"KNOWN-FINDING: property={prop_id} {text}")
    for u in unreproduced[:5]:
        lines.append(f"NOTE: property={prop_id} a failure of clause {u['failed_clause']} did not reproduce in three further "
                     f"runs of the same case (recorded in the evidence, not a violation)")

    # 5. evidence -------------------------------------------------------------------------
    kinds = {}
    distinct = set()
    for j in judgements:
        kinds[j.kind] = kinds.get(j.kind, 0) + 1
        if j.nontrivial:
            distinct.add(case_key(j.case))
    samples = [j.case for j in judgements[len(corpus):len(corpus) + 3]] or [j.case for j in judgements[:3]]
    ev = {
        "property_id": prop_id, "tier": tier, "seed": int(seed), "level": "proof",
        "coverage": {
            "obligations": obligations, "discharged": discharged,
            "checker_cmd": "cd lean && lake build " + " ".join(prop.THEOREM_MODULES) +
                           f" && lake env lean audit/{prop_id}.lean   # #print axioms of every property theorem",
            "trusted_base": prop.TRUSTED_BASE,
            "theorems": axiom_report,
            "leanchecker": leanchecker,
            "evaluations": n_eval,
            "distinct_nontrivial": len(distinct),
            "rule": prop.RULE,
            "traces_validated_against_impl": sum(1 for j in judgements if j.agree),
            "model_impl_mismatches": len(mismatch),
            "spec_failures_on_impl": len(spec_fail),
            "unreproduced_spec_failures": unreproduced[:5],
            "case_kinds": kinds,
            "corpus_cases": len(corpus),
            "samples": _trim(samples),
            "source_drift": meta.get("drift", []),
            "budget_exhausted_before_all_cases": timed_out,
            "exhaustive": bool(getattr(prop, "EXHAUSTIVE", {}).get(tier, False)) and not timed_out,
        },
        "assumptions": prop.ASSUMPTIONS + notes,
        "wall_s": round(time.time() - t0, 2),
        "violations": len(violations),
    }
    write_evidence(prop_id, ev)
    for l in lines:
        print(l)
    print(f"{prop_id} {tier}: obligations {discharged}/{obligations}, cases {n_eval} "
          f"(nontrivial distinct {len(distinct)}), mismatches {len(mismatch)}, spec failures {len(spec_fail)}, "
          f"violations {len(violations)}, {ev['wall_s']} s")
    return 1 if violations else 0


def _trim(x, limit=600):
    s = json.dumps(x, default=str)
    if len(s) <= limit * 3:
        return x
    def cut(v):
        if isinstance(v, str) and len(v) > 80:
            return v[:60] + f"...({len(v)} chars)"
        if isinstance(v, list):
            return [cut(a) for a in v[:12]] + ([f"...({len(v)} items)"] if len(v) > 12 else [])
        if isinstance(v, dict):
            return {k: cut(a) for k, a in v.items()}
        return v
    return cut(x)
