"""
Sandbox directory trees for the file-based sources (C11, C12, C14, C17).

Every modification bumps the file's mtime through os.utime with a strictly increasing
counter (one second per operation, starting far in the past). The version functions of
vinegar and Jinja's up-to-date check look at mtime_ns; with the kernel's own timestamps two
edits within one clock tick would be indistinguishable, which the code documents as out of
contract and which would otherwise produce spurious staleness (DESIGN.md §2 "Determinism").
"""
import os
import shutil
import tempfile

_BASE_NS = 1_000_000_000 * 1_000_000_000  # 2001-09-09, well before "now"


class Sandbox:
    def __init__(self, prefix="verif-fs-"):
        self.root = tempfile.mkdtemp(prefix=prefix)
        self._tick = 0

    # -- clock ---------------------------------------------------------------------------
    def _stamp(self, path):
        self._tick += 1
        t = _BASE_NS + self._tick * 1_000_000_000
        os.utime(path, ns=(t, t))

    # -- operations ----------------------------------------------------------------------
    def abspath(self, rel):
        return os.path.join(self.root, rel)

    def exists(self, rel):
        return os.path.lexists(self.abspath(rel))

    def remove(self, rel):
        p = self.abspath(rel)
        if os.path.isdir(p) and not os.path.islink(p):
            shutil.rmtree(p)
        elif os.path.lexists(p):
            os.unlink(p)

    def write(self, rel, text, keep_mtime=False):
        """create or replace a regular file (a directory of that name is removed first). keep_mtime: the file is
        REPLACED (new inode, new ctime, possibly another size) but keeps the modification time of the old one
        (`cp -p`, `rsync -t`, a restore) — still a change that version_for_file_path sees"""
        p = self.abspath(rel)
        if os.path.isdir(p):
            shutil.rmtree(p)
        os.makedirs(os.path.dirname(p), exist_ok=True)
        if keep_mtime and os.path.isfile(p):
            st = os.stat(p)
            tmp = p + ".replacement"
            with open(tmp, "w", encoding="utf-8", newline="") as f:
                f.write(text)
            os.replace(tmp, p)
            os.utime(p, ns=(st.st_atime_ns, st.st_mtime_ns))
            return
        with open(p, "w", encoding="utf-8", newline="") as f:
            f.write(text)
        self._stamp(p)

    def mkdir(self, rel):
        """make `rel` a directory (a file of that name is removed first)"""
        p = self.abspath(rel)
        if os.path.lexists(p) and not os.path.isdir(p):
            os.unlink(p)
        os.makedirs(p, exist_ok=True)
        self._stamp(p)

    def move(self, rel_from, rel_to):
        a, b = self.abspath(rel_from), self.abspath(rel_to)
        os.makedirs(os.path.dirname(b), exist_ok=True)
        os.rename(a, b)
        self._stamp(b)

    def close(self):
        shutil.rmtree(self.root, ignore_errors=True)

    def __enter__(self):
        return self

    def __exit__(self, *exc):
        self.close()
        return False
