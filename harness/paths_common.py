"""
Shared pieces of the C06 / C04 checks: sandbox trees, the probe template, conversion of a
case into a Lean driver request, canonicalisation of observations, the judge, shrinking.

Case (JSON):
  kind      "request" (default) | "unquote" | "utf8" | "normpath" | "splitjoin" | "translate" (validation batches)
  proto     "http" | "tftp"
  cfg       request_path, file | root_dir (relative to the sandbox top; key absent = not configured),
            file_suffix, lookup_key, placeholder, transform (vinegar chain), no_result, ds_error, template,
            client_address_key, client_address_list
  ds        find {value: system id | null}, find_raises, data {id: {tok, addrs}}, data_raises
  tree      nested dict: name -> marker string (regular file) | dict (directory)
  req       request string (HTTP URI / TFTP filename), method, client_ip
"""
import json

from core import Judgement

ENV = "paths"

TRUSTED_BASE = [
    "Lean 4.33.0 kernel; axioms of every listed theorem ⊆ {propext, Classical.choice, Quot.sound} (audited each run)",
    "correspondence harness: harness/paths_adapter.py (real handler classes in-process, recording data source, "
    "sys.addaudithook log of every open, sandbox tree under a temporary directory), harness/paths_common.py, "
    "the Lean driver executable (compiled, not kernel-checked)",
    "modelled concretely and validated against the real functions on exhaustive small scopes every run: "
    "urllib.parse.unquote (percent-decoding + UTF-8 'replace' decoding), str.split('/'), '/'.join, "
    "str.partition('?'), os.path.normpath (POSIX); os.path.join and open() on a tree without symbolic links are "
    "modelled and checked differentially through _translate_path and the sandbox",
    "modelled, not verified: CPython, Jinja2 as the renderer (a probe template reports the context it was given), "
    "POSIX path resolution of the kernel (no symbolic links in the served trees)",
]
ASSUMPTIONS = [
    "strings are sequences of Unicode scalar values (no lone surrogates)",
    "root_dir / file are absolute normalised paths (administrator-controlled); file_suffix contains no '/'",
    "request_path '/' denotes the empty prefix (as _init_request_path documents); in file mode it matches '/' and, "
    "for a caller that bypasses HttpServer (which rejects URIs not starting with '/'), the empty path",
    "access decisions use plain addresses compared for equality (CIDR matching belongs to C05)",
    "the transformation chain is a function parameter of the model: the harness tabulates the real chain on the "
    "candidate values of each request",
]

PROBE = ('{{ {"has_id": id is defined, "id": (id if id is defined else none), "has_data": data is defined, '
         '"tok": (data.get("tok") if data is defined else none)} | json }}')


def file_bytes(marker):
    """content of a sandbox file: its marker, then the probe template (served raw when templating is off)"""
    return (marker + "|" + PROBE).encode("utf-8")


def parse_body(body, template):
    """-> (marker, template context or None); anything unexpected is kept visible"""
    try:
        text = body.decode("utf-8")
    except UnicodeDecodeError:
        return "<<undecodable>>" + body.hex(), None
    marker, sep, rest = text.partition("|")
    if not sep:
        return "<<no-separator>>" + text, None
    if not template:
        if rest != PROBE:
            return "<<raw-body-differs>>" + text, None
        return marker, None
    try:
        j = json.loads(rest)
        ident = j["id"] if j["has_id"] else None
        if ident is not None and not isinstance(ident, str):
            ident = tagged(ident)       # the template saw a value that is not a str (42 is not '42')
        return marker, {"id": ident, "data": j["tok"] if j["has_data"] else None}
    except Exception:
        return "<<unparsable-render>>" + text, None


def sbx_token(n):
    """canonical name of the sandbox top directory, as long as the real one (PATH_MAX arithmetic)"""
    return "/SBX" + "_" * max(0, n - 4)


def slashed(name):
    return name if name.startswith("/") else "/" + name


def cps(s):
    return [ord(c) for c in s]


def ocps(s):
    return None if s is None else cps(s)


def uncps(a):
    return None if a is None else "".join(chr(x) for x in a)


# ------------------------------------------------------------------ trees
TREE_C06 = {
    "above.txt": "ABOVE",
    "srv": {
        "next.txt": "NEXT",
        "root": {"a.txt": "A", "abc": "ABCFILE", "b": {"c.txt": "C"}, "é.txt": "EACUTE", "a b": "SPACE"},
        "rootx": {"a.txt": "XA"},
    },
}
LONG = "n" * 300
TREE_C04 = {
    "above.txt": "ABOVE",
    "a.txt": "TOPA",
    "srv": {
        "next.txt": "NEXT",
        "a.txt": "SRVA",
        "root": {
            "a.txt": "A", "a.txt.j2": "AJ2", "%2e%2e": "PCT", "\\..": "BSDOTS", "..%2f": "PCTSLASH",
            "b": {"c.txt": "C", "c.txt.j2": "CJ2", "a.txt": "BA"},
            "x y.txt": "SPACED", "p+q.txt": "PLUS", "p q.txt": "PLUSASSPACE",
        },
        "rootx": {"a.txt": "XA"},
        "root.j2": "ROOTJ2",
        "roota.txt": "ROOTA",
    },
}


def tree_to_model(tree, sbx):
    def conv(node):
        if isinstance(node, dict):
            return {"d": [[cps(k), conv(v)] for k, v in node.items()]}
        return {"f": cps(node)}
    return {"d": [[cps(sbx[1:]), conv(tree)]]}


def tagged(v):
    """text form of a value that is NOT a str: the type is part of it (42 and '42' are different lookup values)"""
    return "\x00" + type(v).__name__ + ":" + repr(v)


# ------------------------------------------------------------------ transform tabulation
def _chain(spec):
    import sys, os
    repo = os.environ.get("VINEGAR_REPO", "/repo")
    if repo not in sys.path:
        sys.path.insert(0, repo)
    from vinegar.transform import get_transformation_chain
    return get_transformation_chain(spec)


def candidate_values(req):
    """every string the handler could extract from this request: substrings of the segments of
    the decoded path (long segments: prefixes and suffixes only)"""
    import urllib.parse
    out = set()
    for variant in (req, slashed(req)):
        path = urllib.parse.unquote(variant.partition("?")[0])
        for seg in path.split("/"):
            n = len(seg)
            if n <= 48:
                for i in range(n):
                    for j in range(i + 1, n + 1):
                        out.add(seg[i:j])
            else:
                for i in range(n + 1):
                    out.add(seg[:i]); out.add(seg[i:])
    out.discard("")
    return sorted(out)


def transform_steps(spec, req):
    if not spec:
        return []
    simple = []
    for st in spec:
        if isinstance(st, dict) and len(st) == 1:
            (name, arg), = st.items()
            if name == "string.add_prefix" and isinstance(arg, str):
                simple.append(["prefix", cps(arg)]); continue
            if name == "string.add_suffix" and isinstance(arg, str):
                simple.append(["suffix", cps(arg)]); continue
            # the same two with their argument given by keyword
            if name == "string.add_prefix" and isinstance(arg, dict) and list(arg) == ["prefix"] and isinstance(arg["prefix"], str):
                simple.append(["prefix", cps(arg["prefix"])]); continue
            if name == "string.add_suffix" and isinstance(arg, dict) and list(arg) == ["suffix"] and isinstance(arg["suffix"], str):
                simple.append(["suffix", cps(arg["suffix"])]); continue
        simple = None
        break
    if simple is not None:
        return simple
    f = _chain(spec)
    rows = []
    for v in candidate_values(req):
        try:
            r = f(v)
            rows.append([cps(v), cps(r) if isinstance(r, str) else cps(tagged(r))])
        except Exception:
            rows.append([cps(v), None])
    return [["table", rows]]


# ------------------------------------------------------------------ driver request
def cfg_to_model(cfg, tftp, sbx):
    def abs_or(v):
        return (sbx + "/" + v) if v else v
    return {
        "tftp": tftp,
        "request_path": cps(cfg["request_path"]),
        "file": ocps(abs_or(cfg["file"])) if "file" in cfg and cfg["file"] is not None else None,
        "root_dir": ocps(abs_or(cfg["root_dir"])) if "root_dir" in cfg and cfg["root_dir"] is not None else None,
        "file_suffix": ocps(cfg.get("file_suffix")),
        "lookup_key": ocps(cfg.get("lookup_key")),
        "placeholder": cps(cfg["placeholder"] if cfg.get("placeholder") is not None else "..."),
        "no_result_action": cps(cfg.get("no_result", "not_found")),
        "ds_error_action": cps(cfg.get("ds_error", "error")),
        "template": bool(cfg.get("template")),
        "client_address_key": ocps(cfg.get("client_address_key")),
        "client_address_list": [cps(a) for a in (cfg.get("client_address_list") or [])],
    }


def seen_to_model(o):
    """implementation observation -> the driver's `Seen` JSON (None if it cannot be expressed)"""
    if o is None or o.get("ctor") != "ok" or "accepted" not in o:
        return None
    calls = []
    for c in o["calls"]:
        if len(c) > (3 if c[0] == "find" else 2):
            return None
        calls.append([c[0]] + [cps(x) for x in c[1:]])
    oc = o.get("outcome")
    if oc is not None and oc[0] == "served":
        ctx = oc[3]
        oc = ["served", cps(oc[1] or ""), cps(oc[2] if oc[2] is not None else ""),
              None if ctx is None else {"id": ocps(ctx["id"] if (ctx["id"] is None or isinstance(ctx["id"], str))
                                                 else tagged(ctx["id"])), "data": ocps(ctx["data"])}]
    return {"accepted": o["accepted"], "calls": calls, "opens": [cps(p) for p in o["opens"]], "outcome": oc}


def errors_configured(case):
    ds = case.get("ds", {})
    cfg = case["cfg"]
    raising_ds = (ds.get("find_raises") or ds.get("data_raises")) and cfg.get("ds_error", "error") == "error"
    return bool(raising_ds or case.get("transform_may_raise"))


def model_request(case, obs):
    kind = case.get("kind", "request")
    if kind != "request":
        op = {"unquote": "paths_unquote", "normpath": "paths_normpath", "utf8": "paths_decode_utf8",
              "splitjoin": "paths_splitjoin", "translate": "paths_translate"}[kind]
        r = {"op": op, "items": case["items"] if kind == "utf8" else [cps(s) for s in case["items"]]}
        if kind == "translate":
            r["root"] = cps(case["root"]); r["suffix"] = cps(case["suffix"])
        return r
    sbx = (obs or {}).get("sbx") or sbx_token(25)
    if "@TOP" in case["req"]:
        case = dict(case, req=case["req"].replace("@TOP", sbx))    # the model's name of the sandbox directory
    ds = case.get("ds", {})
    tftp = case["proto"] == "tftp"
    r = {
        "op": "paths_request",
        "cfg": cfg_to_model(case["cfg"], tftp, sbx),
        "transform": transform_steps(case["cfg"].get("transform"), case["req"]),
        "ds": {
            "find_raises": bool(ds.get("find_raises")), "data_raises": bool(ds.get("data_raises")),
            "find_table": [[cps(k), ocps(v)] for k, v in ds.get("find", {}).items()],
            "data_table": [[cps(k), cps(v["tok"]), [cps(a) for a in v["addrs"]]] for k, v in ds.get("data", {}).items()],
        },
        "tree": tree_to_model(case["tree"], sbx),
        "client_ip": cps(case.get("client_ip", "192.0.2.1")),
        "method": cps(case.get("method", "GET")),
        "req": cps(case["req"]),
        "errors_configured": errors_configured(case),
        "impl": seen_to_model((obs or {}).get("main")),
        "twin": seen_to_model((obs or {}).get("twin")),
    }
    return r


# ------------------------------------------------------------------ canonical forms for the diff
def canon_model_seen(m):
    if m is None:
        return None
    oc = m["outcome"]
    if oc is not None and oc[0] == "served":
        ctx = oc[3]
        oc = ["served", uncps(oc[1]), uncps(oc[2]), None if ctx is None else {"id": uncps(ctx["id"]), "data": uncps(ctx["data"])}]
    return {"accepted": m["accepted"],
            "calls": [[c[0]] + [uncps(x) for x in c[1:]] for c in m["calls"]],
            "opens": [uncps(p) for p in m["opens"]], "outcome": oc}


def canon_impl_seen(o):
    return {"accepted": o["accepted"], "calls": o["calls"], "opens": o["opens"], "outcome": o.get("outcome")}


def diff_seen(m, i):
    return {k: {"model": m.get(k), "impl": i.get(k)} for k in ("accepted", "calls", "opens", "outcome") if m.get(k) != i.get(k)}


def outcome_class(o):
    if o is None:
        return "-"
    if o.get("ctor") != "ok":
        return "ctor:" + str(o.get("ctor"))
    if "accepted" not in o:
        return "prepare-raised"
    if not o["accepted"]:
        return "unmatched"
    oc = o.get("outcome")
    return oc[0] if oc else "unhandled"


# ------------------------------------------------------------------ judge
def project_c06(seen):
    """C06 constrains acceptance, the data-source calls and what a rendered template saw; which
    non-served outcome the file system leads to (and what was opened) is C04's subject"""
    oc = seen.get("outcome")
    if oc is not None and oc[0] not in ("served", "methodNotAllowed"):
        oc = ["not-served"]
    return {"accepted": seen["accepted"], "calls": seen["calls"], "outcome": oc}


def project_all(seen):
    return seen


def make_judge(prop_id, verdict_key, clauses, use_parity, project=project_all):
    """verdict_key: 'c06' or 'c04' (which Lean checker decides spec_ok); clauses in report order"""
    def judge(case, obs, resps):
        kind0 = case.get("kind", "request")
        resp = resps[0]
        if obs is None or "harness_exception" in (obs or {}):
            return Judgement(case, True, False, {"infrastructure": obs}, kind="infra", nontrivial=False)
        if "err" in resp:
            return Judgement(case, True, False, {"infrastructure": "driver: " + str(resp["err"])[:300]}, kind="infra",
                             nontrivial=False)
        r = resp["ok"]
        if kind0 != "request":
            return judge_batch(case, obs, r)
        main = obs["main"]
        meta = case.get("_meta", {})
        kind = f"{case['proto']}/{meta.get('style', '-')}/{outcome_class(main)}"
        # constructor
        if main.get("ctor") != "ok" or r["ctor"] != "ok":
            agree = main.get("ctor") == r["ctor"]
            return Judgement(case, True, agree, None if agree else {"ctor": {"model": r["ctor"], "impl": main.get("ctor")}},
                             kind=kind, nontrivial=False)
        if "accepted" not in main:
            return Judgement(case, True, False, {"prepare_context_raised": main.get("prepare_raised")}, kind=kind)
        m = canon_model_seen(r["model"])
        i = canon_impl_seen(main)
        agree, detail = True, None
        if project(m) != project(i):
            agree = False
            detail = {"observation_diff": diff_seen(project(m), project(i)), "exception": main.get("exception")}
        elif project is project_all and main.get("open_kinds") and r.get("open_result") not in ("none", main["open_kinds"][-1]):
            agree = False
            detail = {"open_result": {"model": r.get("open_result"), "impl_probe": main["open_kinds"][-1]}}
        # the model must satisfy every checker (theorem instances)
        for key in ("c06_model", "c04_model"):
            bad = [k for k, v in r[key].items() if not v]
            if bad:
                agree = False
                detail = {"model_fails_own_checker": {key: bad}, "model": m}
        if case["proto"] == "tftp" and r.get("parity_model") is False:
            agree = False
            detail = {"model_fails_own_checker": "parity"}
        # spec verdict on the implementation's observation
        spec_ok, clause = True, None
        vi = r.get(verdict_key + "_impl")
        if vi is None:
            agree = False
            detail = {"infrastructure": "implementation observation could not be passed to the checker", "impl": main}
        else:
            for c in clauses:
                if not vi[c]:
                    spec_ok, clause = False, c
                    break
            if spec_ok and use_parity and case["proto"] == "tftp" and r.get("parity_impl") is False:
                spec_ok, clause = False, "parity"
        if not spec_ok:
            detail = {"failed_clause": clause, "impl": i, "model": m, "exception": main.get("exception"),
                      "witnesses": [uncps(w) for w in r.get("witnesses", [])], "allowed_target": uncps(r.get("target"))}
            if clause == "parity":
                detail["http_twin"] = canon_impl_seen(obs["twin"]) if obs.get("twin", {}).get("ctor") == "ok" and "accepted" in obs["twin"] else obs.get("twin")
        nontrivial = bool(main.get("accepted"))
        return Judgement(case, spec_ok, agree, detail, kind=kind, nontrivial=nontrivial, failed_clause=clause)
    return judge


def judge_batch(case, obs, r):
    kind = case["kind"]
    impl = obs["results"]
    if kind in ("unquote", "normpath", "utf8"):
        model = [uncps(x) for x in r]
    elif kind == "splitjoin":
        model = [{"split": [uncps(s) for s in x["split"]], "cut": uncps(x["cut"]), "rejoin": uncps(x["rejoin"])} for x in r]
    else:  # translate: model = _translate_path, and the spec's reference resolution where the model answers
        model = [uncps(x["model"]) for x in r]
    bad = [(it, mo, im) for it, mo, im in zip(case["items"], model, impl) if mo != im]
    if bad:
        it, mo, im = bad[0]
        return Judgement(case, True, False, {"stdlib_model_differs": {"function": kind, "input": it, "model": mo, "impl": im,
                                                                       "count": len(bad)}}, kind="batch/" + kind)
    return Judgement(case, True, True, None, kind="batch/" + kind, nontrivial=True)


# ------------------------------------------------------------------ shrinking
def shrink_request(case):
    """smaller candidates, big steps first (the engine keeps the first one that still fails)"""
    c = case
    if c.get("kind", "request") != "request":
        items = c["items"]
        if len(items) > 1:
            h = len(items) // 2
            for part in (items[:h], items[h:]):
                d = dict(c); d["items"] = part; yield d
        return
    cfg = c["cfg"]
    # 1. the whole scenario reduced to its skeleton at once
    keep = {k: cfg[k] for k in ("request_path", "file", "root_dir", "lookup_key", "placeholder") if k in cfg}
    if keep != cfg:
        d = dict(c); d["cfg"] = keep; yield d
    if c.get("ds") and (c["ds"].get("find_raises") or c["ds"].get("data_raises") or len(c["ds"].get("data", {})) > 1):
        d = dict(c); d["ds"] = {"find": dict(list(c["ds"].get("find", {}).items())[:1]), "data": {}}; yield d
    if c.get("method", "GET") != "GET":
        d = dict(c); d["method"] = "GET"; yield d
    # 2. one option at a time
    for k, v in (("transform", None), ("template", False), ("client_address_list", None), ("client_address_key", None),
                 ("placeholder", None), ("file_suffix", None), ("no_result", None), ("ds_error", None)):
        if k in cfg and cfg[k] not in (v, None):
            d = dict(c); d["cfg"] = dict(cfg)
            if v is None:
                d["cfg"].pop(k, None)
            else:
                d["cfg"][k] = v
            yield d
    if c["proto"] == "tftp":
        d = dict(c); d["proto"] = "http"; d["req"] = slashed(c["req"]); yield d
    # 3. shorter request strings: drop the tail, a segment, shorten a long segment, drop a character
    req = c["req"]
    segs = req.split("/")
    if len(segs) > 2:
        d = dict(c); d["req"] = "/".join(segs[:len(segs) // 2 + 1]); yield d
    for i in range(len(segs) - 1, -1, -1):
        if len(segs) > 1:
            d = dict(c); d["req"] = "/".join(segs[:i] + segs[i + 1:]); yield d
    for i, s_ in enumerate(segs):
        if len(s_) > 8:
            for ns in (s_[:256], s_[:len(s_) // 2], s_[:1], s_[:len(s_) - 8], s_[:len(s_) - 1]):
                if len(ns) < len(s_):
                    d = dict(c); d["req"] = "/".join(segs[:i] + [ns] + segs[i + 1:]); yield d
    if len(req) <= 24:
        for i in range(len(req)):
            d = dict(c); d["req"] = req[:i] + req[i + 1:]; yield d


def neighbours_request(case, rng):
    if case.get("kind", "request") != "request":
        return
    req = case["req"]
    toks = ["/", "%2f", "..", ".", "%2e", "%00", "?", "//", "a.txt", "%252f", "é", "%c0%af"]
    for _ in range(60):
        i = rng.randrange(len(req) + 1)
        d = dict(case); d["req"] = req[:i] + rng.choice(toks) + req[i:]; yield d
    for proto in ("http", "tftp"):
        if proto != case["proto"]:
            d = dict(case); d["proto"] = proto; yield d
    if not req.startswith("/"):
        d = dict(case); d["req"] = "/" + req; yield d
    else:
        d = dict(case); d["req"] = req[1:]; yield d


def signature(case, j):
    """coarse description of a minimised failure (one VIOLATION line per distinct signature)"""
    s = {"clause": j.failed_clause, "kind": case.get("kind", "request")}
    if case.get("kind", "request") == "request":
        d = j.detail or {}
        exc = d.get("exception")
        if j.failed_clause in ("outcome",) and exc:
            s["exception"] = exc
        if case["proto"] == "tftp" and case["req"].lower().startswith("%2f"):
            s["tftp_name_starts_with"] = "%2f"
    return s


def strip_meta(case):
    return {k: v for k, v in case.items() if not k.startswith("_")}
