"""
C05 adapter (worker side): drives the REAL code from $VINEGAR_REPO in-process.

  subnet    vinegar.utils.socket._ip_address_in_subnet (when it still exists under that name)
  contains  vinegar.utils.socket.contains_ip_address
  handler   HttpFileRequestHandler / TftpFileRequestHandler (through get_instance_http / get_instance_tftp)
            and HttpSQLiteUpdateRequestHandler (through its get_instance_http), with
              * a recording data source (call log; scripted results and failures),
              * a sandbox directory below a per-worker temporary directory,
              * an audit hook (event `open`) logging every file open below the sandbox,
              * a recording proxy around the template engine (installed on vinegar.template before the
                handler module is imported, so either import style sees it),
              * a real SQLite file whose whole content is dumped before and after the request.

Observations are canonical and JSON-able; exceptions become class names.
"""
import http.client
import io
import os
import shutil
import sqlite3
import sys
import tempfile

import cidr_common as K

_STATE = {}


class DataSourceFailure(Exception):
    """what the scripted data source raises"""


class RecordingDataSource:
    def __init__(self, world, log):
        self.world = world
        self.log = log
        self.failed = False

    def find_system(self, lookup_key, lookup_value):
        self.log.append(["find_system", str(lookup_key), str(lookup_value)])
        f = self.world["find"]
        if f == "raises":
            self.failed = True
            raise DataSourceFailure("find_system")
        return K.SYSTEM_ID if f == "found" else None

    def get_data(self, system_id, preceding_data, preceding_data_version):
        self.log.append(["get_data", str(system_id)])
        d = self.world["data"]
        if d == "raises":
            self.failed = True
            raise DataSourceFailure("get_data")
        return K.dec(d), "v1"


class _EngineProxy:
    def __init__(self, inner):
        self._inner = inner

    def render(self, template_path, context):
        _STATE["renders"].append(str(template_path))
        return self._inner.render(template_path, context)

    def __getattr__(self, name):
        return getattr(self._inner, name)


def _audit(event, args):
    if event == "open" and _STATE.get("armed"):
        p = args[0]
        if isinstance(p, bytes):
            p = os.fsdecode(p)
        if isinstance(p, str) and p.startswith(_STATE["files_root"]):
            _STATE["opens"].append(os.path.relpath(p, _STATE["files_root"]))


def setup():
    """before vinegar is imported"""
    _STATE["tmp"] = tempfile.mkdtemp(prefix="c05-")
    _STATE["files_root"] = os.path.join(_STATE["tmp"], "files")
    os.makedirs(_STATE["files_root"])
    _STATE["opens"] = []
    _STATE["renders"] = []
    _STATE["armed"] = False
    sys.addaudithook(_audit)
    import atexit
    atexit.register(lambda: shutil.rmtree(_STATE["tmp"], ignore_errors=True))


def _imports():
    if "file_mod" in _STATE:
        return
    repo = os.environ.get("VINEGAR_REPO", "/repo")
    if repo not in sys.path:
        sys.path.insert(0, repo)
    import vinegar.template as vt
    real_get = vt.get_template_engine

    def get_template_engine(*a, **kw):
        return _EngineProxy(real_get(*a, **kw))

    vt.get_template_engine = get_template_engine
    import vinegar.utils.socket as vs
    import vinegar.request_handler.file as vf
    import vinegar.request_handler.sqlite_update as vu
    from vinegar.http.server import HttpRequestInfo
    from vinegar.tftp.server import TftpError
    _STATE.update(file_mod=vf, upd_mod=vu, sock_mod=vs, HttpRequestInfo=HttpRequestInfo, TftpError=TftpError)


def _exc_name(e):
    return type(e).__name__


# --------------------------------------------------------------------------- direct calls
def run_subnet(case):
    fn = getattr(_STATE["sock_mod"], "_ip_address_in_subnet", None)
    if fn is None:
        return {"impl": "absent"}
    try:
        r = fn(bytes.fromhex(case["ip"]), bytes.fromhex(case["net"]), case["bits"])
        return {"impl": bool(r)}
    except Exception as e:
        return {"impl": "raised", "exc": _exc_name(e)}


def run_contains(case):
    coll = K.build_collection(case["coll"], case["entries"])
    order = K.iteration_cands(coll)
    fn = _STATE["sock_mod"].contains_ip_address
    for prior in case.get("prior") or []:
        # earlier, unrelated decisions of the same process: they must not influence this one
        try:
            fn(K.build_collection("list", prior["entries"]), prior["client"])
        except Exception:
            pass
    try:
        if case.get("allow_mask", True):
            r = fn(coll, case["client"])
        else:
            r = fn(coll, case["client"], False)
        if r is True or r is False:
            return {"impl": "allowed" if r else "denied", "order": order}
        return {"impl": "raised", "exc": "non-bool:" + type(r).__name__, "order": order}
    except Exception as e:
        return {"impl": "raised", "exc": _exc_name(e), "order": order}


# --------------------------------------------------------------------------- handlers
def _dump_db(path):
    con = sqlite3.connect(path)
    try:
        out = []
        tables = [r[0] for r in con.execute("SELECT name FROM sqlite_master WHERE type='table' ORDER BY name")]
        for t in tables:
            rows = con.execute(f'SELECT * FROM "{t}"').fetchall()
            out.append([t, sorted([[repr(x) for x in r] for r in rows])])
        return out
    finally:
        con.close()


def _fresh_files(case):
    root = _STATE["files_root"]
    for n in os.listdir(root):
        p = os.path.join(root, n)
        shutil.rmtree(p) if os.path.isdir(p) and not os.path.islink(p) else os.unlink(p)
    template = case["cfg"].get("template")
    content = K.TEMPLATE_TEXT if template else K.FILE_TEXT
    st = case["world"]["file"]
    if st == "present" or st == "no_path":
        with open(os.path.join(root, K.FILE_NAME), "w", encoding="utf-8") as f:
            f.write(content)
    elif st == "dir":
        os.mkdir(os.path.join(root, K.FILE_NAME))
    # a decoy next to the requested file: must never be opened
    with open(os.path.join(root, "decoy.txt"), "w") as f:
        f.write("DECOY")


def run_handler(case):
    cfgc, world = case["cfg"], case["world"]
    kind = case["handler"]
    log = []
    ds = RecordingDataSource(world, log)
    _STATE["opens"].clear()
    _STATE["renders"].clear()
    obs = {"calls": log}
    db_path = None
    handler = None
    try:
        if kind in ("http", "tftp"):
            _fresh_files(case)
            conf = K.file_handler_config(cfgc, _STATE["files_root"])
            mod = _STATE["file_mod"]
            try:
                handler = mod.get_instance_http(conf) if kind == "http" else mod.get_instance_tftp(conf)
            except Exception as e:
                return {"config_error": _exc_name(e)}
            handler.set_data_source(ds)
            uri = K.request_uri(case)
        else:
            db_path = os.path.join(_STATE["tmp"], "store.db")
            for suffix in ("", "-journal", "-wal", "-shm"):
                if os.path.exists(db_path + suffix):
                    os.unlink(db_path + suffix)
            conf = K.sqlite_handler_config(cfgc, db_path)
            mod = _STATE["upd_mod"]
            try:
                handler = mod.get_instance_http(conf)
            except Exception as e:
                return {"config_error": _exc_name(e)}
            handler.set_data_source(ds)
            # pre-populate through the handler's own store module so that the schema is the real one
            from vinegar.utils.sqlite_store import open_data_store
            with open_data_store(db_path) as st:
                for sid, key, val in K.DB_ROWS:
                    st.set_value(sid, key, val)
            obs["db_before"] = _dump_db(db_path)
            uri = K.request_uri(case)
        def request(sub):
            """one request of `sub` (same handler object); (outcome, body bytes)"""
            uri = K.request_uri(sub)
            client_address = (sub["client"], 40000) if ":" not in sub["client"] else (sub["client"], 40000, 0, 0)
            body_bytes = None
            _STATE["armed"] = True
            try:
                if kind == "tftp":
                    fname = uri[1:] if sub.get("tftp_no_slash") else uri
                    ctx = handler.prepare_context(fname)
                    if not handler.can_handle(fname, ctx):
                        return "harness:request does not match the handler: " + fname, None
                    try:
                        f = handler.handle(fname, client_address, ("::", 69), ctx)
                        outcome = "served"
                        try:
                            body_bytes = f.read()
                        finally:
                            f.close()
                    except _STATE["TftpError"] as e:
                        code = int(getattr(e, "error_code", -1))
                        obs["tftp_error"] = code
                        outcome = {2: "forbidden", 1: "not_found"}.get(code, "other:tftp-%d" % code)
                else:
                    method = sub.get("method", "GET" if kind == "http" else "POST")
                    headers = http.client.HTTPMessage()
                    body = sub.get("body", "")
                    raw = bytes.fromhex(sub["body_hex"]) if "body_hex" in sub else body.encode()
                    if kind == "sqlite":
                        headers["Content-Length"] = sub.get("content_length", str(len(raw)))
                    ri = _STATE["HttpRequestInfo"](client_address=client_address, headers=headers, method=method,
                                                   server_address=("::", 80), uri=uri)
                    ctx = handler.prepare_context(uri)
                    if not handler.can_handle(uri, ctx):
                        return "harness:request does not match the handler: " + uri, None
                    status, hdrs, f = handler.handle(ri, io.BytesIO(raw), ctx)
                    status = int(status)
                    obs["status"] = status
                    if f is not None:
                        try:
                            body_bytes = f.read()
                        finally:
                            f.close()
                    outcome = {200: "served", 403: "forbidden", 404: "not_found", 400: "bad_request"}.get(status, "other:%d" % status)
            except DataSourceFailure:
                outcome = "ds_error"
            except Exception as e:  # whatever escapes the handler is an internal error of the server
                outcome = "internal_error"
                obs["exc"] = _exc_name(e)
            finally:
                _STATE["armed"] = False
            return outcome, body_bytes

        # earlier requests on the SAME handler object (other clients, other stored data): the handler keeps no
        # per-request state, so they must not change what the judged request gets
        if case.get("before"):
            for prev in case["before"]:
                sub = dict(case, **prev)
                ds.world = sub["world"]
                request(sub)
            ds.world = world
            ds.failed = False
            del log[:]
            _STATE["opens"].clear()
            _STATE["renders"].clear()
            for k_ in ("tftp_error", "status", "exc"):
                obs.pop(k_, None)
            if db_path is not None:
                from vinegar.utils.sqlite_store import open_data_store
                with open_data_store(db_path) as st:
                    for sid in list(st.list_systems()):
                        st.delete_data(sid)
                    for sid, key, val in K.DB_ROWS:
                        st.set_value(sid, key, val)
                obs["db_before"] = _dump_db(db_path)
        outcome, body_bytes = request(case)
        if isinstance(outcome, str) and outcome.startswith("harness:"):
            return {"harness_exception": outcome[8:]}
        obs["outcome"] = outcome
        obs["opens"] = sorted(set(_STATE["opens"]))
        obs["renders"] = len(_STATE["renders"])
        obs["body_len"] = None if body_bytes is None else len(body_bytes)
        if body_bytes is not None and kind != "sqlite":
            obs["body_expected"] = body_bytes == K.expected_body(case)
        obs["leaked_body"] = body_bytes is not None and outcome != "served"
        obs["ds_failed"] = ds.failed
        if db_path is not None:
            try:
                handler.close()
            except Exception:
                pass
            handler = None
            obs["db_after"] = _dump_db(db_path)
        return obs
    finally:
        if handler is not None and hasattr(handler, "close"):
            try:
                handler.close()
            except Exception:
                pass


def run(case):
    _imports()
    k = case["kind"]
    if k == "subnet":
        return run_subnet(case)
    if k == "contains":
        return run_contains(case)
    if k == "handler":
        return run_handler(case)
    return {"harness_exception": "unknown case kind " + str(k)}
