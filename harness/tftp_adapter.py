"""
Drives the REAL vinegar TFTP server (TftpServer.start(), its request-port loop and the
per-transfer threads) on the simulated network of sim_net.py and returns what it did.

A *session case*:
  cfg        raw constructor arguments {default_timeout_ticks, max_timeout, max_retries,
             max_block_size, wrap}
  datagram   hex of the datagram sent to the request port
  handlers   [{accept: [names] | None, result: {...}}]   (see HandlerResult of the model)
  script     events for the transfer socket
  pktinfo    bool (optional), dst (optional destination address of the datagram)
"""
import io
import logging
import os
import sys
import tempfile

import sim_net

_ready = False


def setup():
    global _ready
    if _ready:
        return
    sim_net.install()
    repo = os.environ.get("VINEGAR_REPO", "/repo")
    if repo not in sys.path:
        sys.path.insert(0, repo)
    lg = logging.getLogger("vinegar")
    lg.addHandler(sim_net.ExcLogHandler())
    lg.setLevel(logging.CRITICAL + 10)   # nothing printed; handlers still see exception records?
    # logger.exception is ERROR level: make sure records are created, but keep stderr quiet
    lg.setLevel(logging.ERROR)
    lg.propagate = False
    _ready = True


def _make_stream(res):
    content = bytes.fromhex(res["content"])
    caps = res.get("caps") or []
    kind = res.get("stream_kind", "bytesio" if res.get("size_known", True) else "raw")
    pre = res.get("offset", 0)
    if kind == "bytesio":
        if pre:
            s = sim_net.SimStream(b"\xee" * pre + content, caps, None)
            io.BytesIO.read(s, pre)
            return s, []
        return sim_net.SimStream(content, caps, res.get("fault_after_bytes")), []
    if kind == "raw":
        return sim_net.RawStream(content, caps), []
    if kind == "bare":
        # a file-like object that offers nothing but read / close / the context-manager protocol (no fileno, no tell):
        # whatever the server makes of it, it must close it
        class BareStream:
            def __init__(self, data):
                self._inner = io.BytesIO(data)
                self._closed = False

            def read(self, size=-1):
                return self._inner.read(size)

            def close(self):
                if not self._closed:
                    self._closed = True
                    tr = sim_net.current_transfer()
                    if tr is not None:
                        tr.log.append(["closeFile"])

            def __enter__(self):
                return self

            def __exit__(self, *a):
                self.close()
                return False
        return BareStream(content), []
    if kind == "file":
        fd, path = tempfile.mkstemp(prefix="vverif-tftp-")
        os.write(fd, b"\xee" * pre + content)
        os.close(fd)
        f = open(path, "rb")
        f.read(pre)
        return sim_net.FileStream(f, caps), [path]
    if kind == "pipe":
        r, w = os.pipe()
        os.write(w, content)   # small contents only (pipe buffer)
        os.close(w)
        f = os.fdopen(r, "rb", buffering=0)
        return sim_net.FileStream(f, caps), []
    raise ValueError(kind)


def run_session(case):
    setup()
    # the verbose code paths behind `logger.isEnabledFor(DEBUG)` are code of the server too
    logging.getLogger("vinegar").setLevel(logging.DEBUG if case.get("debug_log") else logging.ERROR)
    from vinegar.tftp.server import TftpServer, TftpRequestHandler, TftpError
    from vinegar.tftp.protocol import ErrorCode

    w = sim_net.new_world()
    w.pktinfo = bool(case.get("pktinfo", True))
    w.sockname = tuple(case.get("sockname", ["::", 69, 0, 0]))
    more = case.get("more") or []
    w.transfer_plans = [case.get("script", [])] + [m.get("script", []) for m in more]
    calls = []
    cleanup = []

    class H(TftpRequestHandler):
        def __init__(self, idx, spec):
            self.idx = idx
            self.spec = spec

        def _fault(self, where):
            if self.spec.get("raise_in") == where:
                # a bug in a handler (not in the server): whatever it raises, the request port must survive it
                raise {"KeyError": KeyError, "ValueError": ValueError, "RuntimeError": RuntimeError,
                       "OSError": OSError, "TypeError": TypeError, "AttributeError": AttributeError,
                       "LookupError": LookupError, "Exception": Exception,
                       "UnicodeDecodeError": lambda m: UnicodeDecodeError("ascii", b"\xff", 0, 1, m),
                       }[self.spec.get("raise_kind", "KeyError")]("simulated handler failure")

        def prepare_context(self, filename):
            calls.append(["prepare", self.idx, filename])
            self._fault("prepare")
            return ("ctx", self.idx, filename)

        def can_handle(self, filename, context):
            calls.append(["can_handle", self.idx, filename, list(context) if isinstance(context, tuple) else context])
            self._fault("can_handle")
            acc = self.spec.get("accept")
            return True if acc is None else (filename in acc)

        def handle(self, filename, client_address, server_address, context):
            calls.append(["handle", self.idx, filename, list(client_address), list(server_address),
                          list(context) if isinstance(context, tuple) else context])
            res = self.spec["result"]
            if res["kind"] == "tftp_error":
                raise TftpError("simulated", ErrorCode(res["code"]))
            if res["kind"] == "raised":
                raise RuntimeError("simulated handler failure")
            s, paths = _make_stream(res)
            cleanup.extend(paths)
            return s

    handlers = [H(i, h) for i, h in enumerate(case["handlers"])]
    cfg = case["cfg"]
    server = TftpServer(handlers, "::", 69,
                        default_timeout=cfg["default_timeout_ticks"] / sim_net.TICKS,
                        max_timeout=cfg["max_timeout"], max_retries=cfg["max_retries"],
                        max_block_size=cfg["max_block_size"],
                        block_counter_wrap_value=cfg["wrap"])
    obs = {}
    try:
        server.start()
        main = w.main_sockets[0]
        marks = []
        datagrams = [case["datagram"]] + [m["datagram"] for m in more]
        for i, dg in enumerate(datagrams):
            m0, c0, t0 = len(w.main_log), len(calls), len(w.threads)
            if not obs.get("port_dead"):
                main.push(bytes.fromhex(dg), sim_net.CLIENT_ADDR, case.get("dst"))
                port_thread = w.threads[0] if w.threads else None
                if not main.wait_processed(i + 1, alive=(port_thread.is_alive if port_thread is not None else None)):
                    # the thread serving the request port has ended although nobody stopped the server: this and
                    # every later datagram stay unanswered
                    obs["port_dead"] = True
            marks.append((m0, len(w.main_log), c0, len(calls), t0, len(w.threads)))
        # transfer threads were created by the request-port thread before it asked for the next
        # datagram; join them (they run on virtual time, so this is quick)
        for th in list(w.threads)[1:]:
            th.join(60.0)
            if th.is_alive():
                raise sim_net.InfraError("transfer thread did not end")
    finally:
        server.stop()
        for p in cleanup:
            try:
                os.unlink(p)
            except OSError:
                pass
    transfers = [w.transfers[k].log for k in sorted(w.transfers)]
    obs["main"] = [e for e in w.main_log if e[0] != "recv"]
    obs["transfers"] = transfers
    obs["calls"] = calls
    obs["exc"] = w.exc_records[:3]
    if w.harness_errors:
        obs["harness_exception"] = "; ".join(w.harness_errors[:3])
    obs["threads_alive"] = sum(1 for th in w.threads if th.is_alive())
    if any(w.transfers[k].runaway for k in w.transfers):
        obs["runaway"] = True
    obs["script_left"] = [len(w.transfers[k].script) for k in sorted(w.transfers)]
    if more:
        # one observation per datagram (they were pushed one after the other; their transfers ran concurrently)
        parts = []
        for (m0, m1, c0, c1, t0, t1) in marks:
            started = [k for k in range(t0, t1) if k in w.transfers]
            parts.append({"main": [e for e in w.main_log[m0:m1] if e[0] != "recv"],
                          "transfers": [w.transfers[k].log for k in started],
                          "calls": calls[c0:c1], "threads_alive": obs["threads_alive"],
                          "runaway": any(w.transfers[k].runaway for k in started)})
        obs["parts"] = parts
    return obs


def run_blocks(case):
    """reader functions only (no network): payload sequence for content/caps/bs"""
    setup()
    from vinegar.tftp import server as srv
    content = bytes.fromhex(case["content"])
    stream = sim_net.SimStream(content, case.get("caps") or [], None)
    import introspect as I
    mk = I.find_function(srv, "netascii" if case["netascii"] else "octet", "reader")
    if mk is None:
        # the reader helpers are private; without them the property is still checked through whole transfers
        return {"unobservable": "no module-level reader function found in vinegar.tftp.server"}
    rd = mk(stream)
    bs = case["bs"]
    blocks = []
    limit = 2 * len(content) + 4
    while True:
        b = rd(bs)
        blocks.append(bytes(b).hex())
        if len(b) != bs or len(blocks) > limit:
            break
    return {"blocks": blocks}


# --------------------------------------------------------------------------- lifecycle (C20)
def _lifecycle_server():
    from vinegar.tftp.server import TftpServer, TftpRequestHandler, TftpError
    from vinegar.tftp.protocol import ErrorCode
    served = []

    class H(TftpRequestHandler):
        def can_handle(self, filename, context):
            return True

        def handle(self, filename, client_address, server_address, context):
            served.append(filename)
            raise TftpError("done", ErrorCode.FILE_NOT_FOUND)

    return TftpServer([H()], "::", 69, default_timeout=1.0, max_timeout=5, max_retries=1), served


def _observe(w):
    """(request-port thread alive, listening socket open) of the most recent start()"""
    main_threads = [t for t in w.threads if getattr(t, "_target", None) is not None
                    and getattr(t._target, "__name__", "") == "_run"
                    and type(getattr(t._target, "__self__", None)).__name__ == "TftpServer"]
    # Thread._target is deleted when the thread ends; fall back to the registry kept below
    alive = any(t.is_alive() for t in w.lifecycle_threads)
    sock_open = any(not s._closed for s in w.main_sockets)
    return alive, sock_open


def run_lifecycle(case):
    setup()
    import threading
    import random as _random
    w = sim_net.new_world()
    w.lifecycle_threads = []
    # remember request-port threads as they are created (Thread objects created while start() runs)
    server, served = _lifecycle_server()
    errors = []

    def do(op, log):
        n_before = len(w.threads)
        try:
            if op == "start":
                server.start()
            elif op == "stop":
                server.stop()
            elif op == "request":
                open_socks = [s for s in w.main_sockets if not s._closed]
                ok = False
                if open_socks:
                    before = len(served)
                    s = open_socks[-1]
                    delivered = getattr(s, "_delivered", 0)
                    s.push(b"\x00\x01f\x00octet\x00", sim_net.CLIENT_ADDR, None)
                    try:
                        s.wait_processed(delivered + 1, real_timeout=5.0)
                    except sim_net.InfraError:
                        pass
                    for th in list(w.threads):
                        if th not in w.lifecycle_threads and th.ident is not None:
                            th.join(10.0)
                    ok = len(served) > before
                log.append(["request", ok])
                return
        except Exception as e:   # lifecycle calls must never raise
            errors.append([op, repr(e)])
        finally:
            with w.lock:
                for th in w.threads[n_before:]:
                    if getattr(th, "_target", None) is not None and getattr(th._target, "__name__", "") == "_run" \
                            and type(getattr(th._target, "__self__", None)).__name__ == "TftpServer":
                        w.lifecycle_threads.append(th)
        alive, sock_open = _observe(w)
        log.append([op, alive, sock_open])

    obs = {}
    if case["kind"] == "lifecycle_seq":
        log = []
        for op in case["ops"]:
            do(op, log)
        obs["steps"] = log
    else:
        rnd = _random.Random(case.get("seed", 0))
        plans = case["threads"]
        barrier = threading.Barrier(len(plans))
        logs = [[] for _ in plans]
        delays = [[rnd.choice([0, 0, 0.0005, 0.002]) for _ in p] for p in plans]

        def worker(i):
            barrier.wait()
            for op, d in zip(plans[i], delays[i]):
                if d:
                    sim_net._real_sleep(d)
                do(op, logs[i])

        ths = [sim_net._RealThread(target=worker, args=(i,), daemon=True) for i in range(len(plans))]
        for t in ths:
            t.start()
        hung = False
        for t in ths:
            t.join(30.0)
            hung = hung or t.is_alive()
        obs["hung"] = hung
        alive, sock_open = _observe(w)
        import introspect as I
        fr, fs = I.find_named(server, "running", kind=bool), I.find_named(server, "shutdown", kind=bool)
        obs["final"] = {"running": alive if fr is I.MISSING else bool(fr),
                        "shutdown_requested": False if fs is I.MISSING else bool(fs),
                        "thread_alive": alive, "socket_open": sock_open}
        # afterwards the object must still be usable: a quiescent stop releases, a start serves
        log = []
        if not hung:
            for op in ("stop", "start", "request", "stop"):
                do(op, log)
        obs["after"] = log
    obs["errors"] = errors
    obs["exc"] = w.exc_records[:3]
    try:
        server.stop()
    except Exception:
        pass
    return obs
