"""Sentences appended to the `level_claimed.text` of MANIFEST.json entries: what was added to a check after its
entry was first written (kept apart so that the original texts stay as they were reviewed)."""

ADDENDA = {
    "C01": "Quick tier: transfers of more than 65535 blocks for all three wrap configurations.",
    "C02": "The simulated socket supports non-blocking receives (only datagrams that follow their predecessor without delay "
           "are there to be read).",
    "C03": "Handler bodies are also real files, streams positioned behind a consumed preamble and plain streams; a stalled "
           "client must not keep other clients from being served; a missing response is an observation with evidence "
           "(request worker blocked in a receive), judged, not an infrastructure error. A client that stops reading in the middle of a multi-megabyte body and resumes later; storms of connections reset before their request head is complete followed by ordinary requests (an accepting thread that sits in the handling of one connection is the evidence for a missing response). Raising handlers raise eleven exception classes, connection errors among them.",
    "C04": "Served tree and request alphabet contain names with '+' and blanks. Requests with an embedded URL (://) in the query string or the path.",
    "C05": "A third of the handler cases run after one or two earlier requests on the SAME handler object. Update handler: the decodability of the request body is part of the model (bad_request only after the access decision; unauthorised_sqlite_body_irrelevant). IPv6 clients one bit away from the IPv4-mapped form of an allowed address are generated on every run.",
    "C09": "The request port starts a transfer only for a datagram of the RFC shape stated on the bytes (rfcShape, "
           "requestPort_transfer_only_rfc). foreign_noninterference is proved for whole transfers and evaluated on the "
           "implementation by twin runs without the foreign datagrams. HTTP: stalled clients. Handlers may raise in prepare_context / can_handle (processDatagramF and its theorems): the request is lost, the port keeps serving; a request-port thread that ends without stop() and a request left without any answer are violations. About one case in eight runs with the server's logger at DEBUG.",
    "C10": "Several datagrams per session (concurrent transfers judged one by one); HTTP handler lists whose first accepting "
           "handler answers with a bare status. Requests of 509..512 octets; handlers that raise while being asked; the HTTP half sees the query string.",
    "C11": "The target expressions of the top file are evaluated by the Lean matcher model as well (evalConcrete). Target expressions with not followed by and.",
    "C12": "Histories contain replacements that keep the old modification time and texts that differ only in leading white space. Histories in which a list is merged from several files and a later file changes; histories that only repeat an already applied file.",
    "C13": "Chains with a nested composite source (own merge flags) compared with the same composite hidden behind a plain "
           "wrapper source: differential on the implementation only.",
    "C14": "Histories contain in-place rewrites of equal length with the old mtime restored (only ctime differs). A liberal line format whose main expression also matches commented-out entries (the ignore expression wins), on every run.",
    "C15": "Deterministic kill points: the writer is SIGKILLed at the entry of its k-th pwrite64 / fdatasync / unlink / "
           "ftruncate (strace injection); a database a fresh process cannot read is a violation. Histories in which a long-lived source is asked for other systems between a change and the next read; a second connection's complete call placed between two SQL statements of a call (results and rows must be those of one of the two sequential orders computed by the model). Reads of 17 to 40 rows.",
    "C17": "Context values are also mappings, sets and numbers; include names absolute with a dot-dot segment; import_json / "
           "import_yaml of data files; replacements that keep the mtime and a rewrite landing right after the engine read "
           "the rendered file (both without root_dir only). Optional includes (ignore missing) are part of the template syntax of model and reference (Node.inclOpt, inclOpt_meaning). In-place rewrites of equal size with the old modification time restored (only the ctime differs).",
    "C06": "Every special character of URLs and pattern languages inside the looked-up value, the remaining path and next to "
           "a fixed segment, on every run; transformations given by keyword with other handlers of the same process using "
           "the same keyword names and other values. Values that are not str carry their type in every observation.",
    "C08": "The clause \"no transfer size is announced\" is evaluated on the trace (every OACK is the negotiated one, which "
           "has no tsize in netascii mode).",
    "C16": "A grid of prefix lengths in several spellings (/0, /00, /032 ...) on fixed addresses, on every run. IPv6 addresses whose text starts like a mapped address although ffff is their 4th or 5th group.",
    "C18": "The universe contains a system whose data values are present but falsy non-strings.",
    "C19": "The LRU component also exercises Mapping.get(key, default); a YAML scenario with a cache too small for two systems. Reads that fail inside the store between other calls (a lock left behind is a deadlock); text source without cache.",
    "C20": "The REAL start()/stop()/_run of both servers run under a deterministic scheduler (every source line a pre-emption "
           "point, every single pre-emption of pairs and triples of caller programs, plus random schedules; a busy request "
           "handler during stop(); bounded joins time out) and every run is replayed on the Lean lifecycle models. An HTTP/1.1 client that stays connected after its response (worker threads end with their response); handlers raising while being asked must not end the request-port thread. A POST whose handler reads the body, from a client that stays connected.",
}
