"""Sentences appended to the `level_claimed.text` of MANIFEST.json entries: what was added to a check after its
entry was first written (kept apart so that the original texts stay as they were reviewed)."""

ADDENDA = {
    "C01": "Quick tier: transfers of more than 65535 blocks for all three wrap configurations.",
    "C03": "Handler bodies are also real files, streams positioned behind a consumed preamble and plain streams; a stalled "
           "client must not keep other clients from being served; a missing response is an observation with evidence "
           "(request worker blocked in a receive), judged, not an infrastructure error.",
    "C04": "Served tree and request alphabet contain names with '+' and blanks.",
    "C05": "A third of the handler cases run after one or two earlier requests on the SAME handler object.",
    "C09": "The request port starts a transfer only for a datagram of the RFC shape stated on the bytes (rfcShape, "
           "requestPort_transfer_only_rfc). foreign_noninterference is proved for whole transfers and evaluated on the "
           "implementation by twin runs without the foreign datagrams. HTTP: stalled clients.",
    "C10": "Several datagrams per session (concurrent transfers judged one by one); HTTP handler lists whose first accepting "
           "handler answers with a bare status.",
    "C11": "The target expressions of the top file are evaluated by the Lean matcher model as well (evalConcrete).",
    "C12": "Histories contain replacements that keep the old modification time and texts that differ only in leading white space.",
    "C14": "Histories contain in-place rewrites of equal length with the old mtime restored (only ctime differs).",
    "C15": "Deterministic kill points: the writer is SIGKILLed at the entry of its k-th pwrite64 / fdatasync / unlink / "
           "ftruncate (strace injection); a database a fresh process cannot read is a violation.",
    "C17": "Context values are also mappings, sets and numbers; include names absolute with a dot-dot segment; import_json / "
           "import_yaml of data files; replacements that keep the mtime and a rewrite landing right after the engine read "
           "the rendered file (both without root_dir only).",
    "C18": "The universe contains a system whose data values are present but falsy non-strings.",
    "C19": "The LRU component also exercises Mapping.get(key, default); a YAML scenario with a cache too small for two systems.",
    "C20": "The REAL start()/stop()/_run of both servers run under a deterministic scheduler (every source line a pre-emption "
           "point, every single pre-emption of pairs and triples of caller programs, plus random schedules; a busy request "
           "handler during stop(); bounded joins time out) and every run is replayed on the Lean lifecycle models.",
}
