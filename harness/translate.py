"""
Translator: regenerates lean/Vinegar/Generated/Consts.lean from /repo's current
working tree on every run (DESIGN.md §3.1).

Only literals are extracted (integer constants, enum tables, option names, mode
strings, regular-expression patterns, literal tuples that gate behaviour), by
walking the Python AST. Function bodies are tied to the model by the
correspondence check, not by translation.

If a literal cannot be found (renamed, computed, removed) the pinned value is
emitted instead and the name is recorded in `drift`; the check that depends on it
then runs its correspondence with a raised budget.
"""
import ast
import hashlib
import json
import os
import sys

REPO = os.environ.get("VINEGAR_REPO", "/repo")
VERIF = os.path.dirname(os.path.dirname(os.path.abspath(__file__)))
OUT = os.path.join(VERIF, "lean", "Vinegar", "Generated", "Consts.lean")
META = os.path.join(VERIF, "lean", "Vinegar", "Generated", "meta.json")


def _parse(rel):
    with open(os.path.join(REPO, rel), "r", encoding="utf-8") as f:
        return ast.parse(f.read())


def _module_consts(tree):
    out = {}
    for node in tree.body:
        if isinstance(node, ast.Assign) and len(node.targets) == 1:
            t = node.targets[0]
            if isinstance(t, ast.Name):
                try:
                    out[t.id] = ast.literal_eval(node.value)
                except Exception:
                    # re.compile("...") and friends
                    v = node.value
                    if (
                        isinstance(v, ast.Call)
                        and isinstance(v.func, ast.Attribute)
                        and v.func.attr == "compile"
                        and v.args
                    ):
                        try:
                            out[t.id] = ("re", ast.literal_eval(v.args[0]),
                                         [ast.unparse(a) for a in v.args[1:]])
                        except Exception:
                            pass
    return out


def _enum_members(tree, cls):
    for node in tree.body:
        if isinstance(node, ast.ClassDef) and node.name == cls:
            out = {}
            for st in node.body:
                if isinstance(st, ast.Assign) and isinstance(st.targets[0], ast.Name):
                    try:
                        out[st.targets[0].id] = ast.literal_eval(st.value)
                    except Exception:
                        pass
            return out
    return {}


def _find_func(tree, qual):
    parts = qual.split(".")
    body = tree.body
    node = None
    for p in parts:
        node = None
        for n in body:
            if isinstance(n, (ast.FunctionDef, ast.ClassDef)) and n.name == p:
                node = n
                break
        if node is None:
            return None
        body = node.body
    return node


def _func_digest(tree, qual):
    node = _find_func(tree, qual)
    if node is None:
        return None
    # normalised: docstrings dropped, formatting irrelevant
    class Strip(ast.NodeTransformer):
        def visit_FunctionDef(self, n):
            self.generic_visit(n)
            if (n.body and isinstance(n.body[0], ast.Expr)
                    and isinstance(getattr(n.body[0], "value", None), ast.Constant)
                    and isinstance(n.body[0].value.value, str)):
                n.body = n.body[1:] or [ast.Pass()]
            return n
    import copy
    node = Strip().visit(copy.deepcopy(node))
    return hashlib.sha256(ast.dump(node).encode()).hexdigest()[:16]


def _from_str_literals(tree):
    """string literals compared against in TransferMode.from_str, in order"""
    node = _find_func(tree, "TransferMode.from_str")
    lits = []
    if node is not None:
        for n in ast.walk(node):
            if isinstance(n, ast.Compare):
                for c in n.comparators:
                    if isinstance(c, ast.Constant) and isinstance(c.value, str):
                        lits.append(c.value)
    return lits


def _ctor_defaults(tree, cls):
    node = _find_func(tree, cls + ".__init__")
    out = {}
    if node is None:
        return out
    args = node.args.args
    defaults = node.args.defaults
    for a, d in zip(args[len(args) - len(defaults):], defaults):
        try:
            out[a.arg] = ast.literal_eval(d)
        except Exception:
            if isinstance(d, ast.Name):
                out[a.arg] = ("name", d.id)
    return out


def lean_str(s):
    out = ['"']
    for ch in s:
        if ch == '"':
            out.append('\\"')
        elif ch == "\\":
            out.append("\\\\")
        elif ch == "\n":
            out.append("\\n")
        elif ch == "\t":
            out.append("\\t")
        elif ch == "\r":
            out.append("\\r")
        elif 32 <= ord(ch) < 127:
            out.append(ch)
        elif ord(ch) < 256:
            out.append("\\x%02x" % ord(ch))
        elif ord(ch) < 0x10000:
            out.append("\\u%04x" % ord(ch))
        else:
            out.append(ch)
    out.append('"')
    return "".join(out)


class Gen:
    def __init__(self):
        self.lines = []
        self.drift = []
        self.values = {}

    def nat(self, name, value, pinned):
        if not isinstance(value, int) or isinstance(value, bool) or value < 0:
            self.drift.append(name)
            value = pinned
        self.values[name] = value
        self.lines.append(f"def {name} : Nat := {value}")

    def string(self, name, value, pinned):
        if not isinstance(value, str):
            self.drift.append(name)
            value = pinned
        self.values[name] = value
        self.lines.append(f"def {name} : String := {lean_str(value)}")

    def strlist(self, name, value, pinned):
        if not (isinstance(value, (list, tuple)) and all(isinstance(x, str) for x in value)):
            self.drift.append(name)
            value = pinned
        value = list(value)
        self.values[name] = value
        self.lines.append(
            f"def {name} : List String := [" + ", ".join(lean_str(x) for x in value) + "]")

    def comment(self, text):
        self.lines.append(f"-- {text}")


def generate():
    g = Gen()
    digests = {}

    # ---------------- TFTP protocol -------------------------------------------------
    g.comment("vinegar/tftp/protocol.py")
    try:
        proto = _parse("vinegar/tftp/protocol.py")
        pc = _module_consts(proto)
        op = _enum_members(proto, "Opcode")
        ec = _enum_members(proto, "ErrorCode")
        modes = _from_str_literals(proto)
    except Exception:
        proto, pc, op, ec, modes = None, {}, {}, {}, []
    for name, pinned in [("DEFAULT_BLOCK_SIZE", 512), ("MAX_BLOCK_NUMBER", 65535),
                         ("MAX_BLOCK_SIZE", 65464), ("MAX_REQUEST_PACKET_SIZE", 512),
                         ("MAX_TIMEOUT", 255), ("MIN_BLOCK_SIZE", 8), ("MIN_TIMEOUT", 1)]:
        g.nat(name, pc.get(name), pinned)
    for name, pinned in [("OPTION_BLOCK_SIZE", "blksize"), ("OPTION_TIMEOUT", "timeout"),
                         ("OPTION_TRANSFER_SIZE", "tsize")]:
        g.string(name, pc.get(name), pinned)
    for name, pinned in [("READ_REQUEST", 1), ("WRITE_REQUEST", 2), ("DATA", 3), ("ACK", 4),
                         ("ERROR", 5), ("OPTIONS_ACK", 6)]:
        g.nat("OPCODE_" + name, op.get(name), pinned)
    g.nat("OPCODE_COUNT", len(op) if op else None, 6)
    for name, pinned in [("NOT_DEFINED", 0), ("FILE_NOT_FOUND", 1), ("ACCESS_VIOLATION", 2),
                         ("DISK_FULL", 3), ("ILLEGAL_OPERATION", 4), ("UNKNOWN_TRANSFER_ID", 5),
                         ("FILE_ALREADY_EXISTS", 6), ("NO_SUCH_USER", 7), ("TRANSFER_ABORTED", 8)]:
        g.nat("ERROR_" + name, ec.get(name), pinned)
    g.nat("ERROR_COUNT", len(ec) if ec else None, 9)
    for i, (name, pinned) in enumerate([("MODE_NETASCII", "netascii"), ("MODE_OCTET", "octet"),
                                        ("MODE_MAIL", "mail")]):
        g.string(name, modes[i] if i < len(modes) else None, pinned)

    # ---------------- TFTP server ---------------------------------------------------
    g.comment("vinegar/tftp/server.py")
    try:
        srv = _parse("vinegar/tftp/server.py")
        sc = _module_consts(srv)
        ctor = _ctor_defaults(srv, "TftpServer")
    except Exception:
        srv, sc, ctor = None, {}, {}
    rx = sc.get("_REGEXP_POSITIVE_INT")
    g.string("REGEXP_POSITIVE_INT", rx[1] if isinstance(rx, tuple) and not rx[2] else None,
             "[1-9][0-9]*")
    g.nat("NETASCII_CR", sc.get("_CR"), 13)
    g.nat("NETASCII_LF", sc.get("_LF"), 10)
    g.nat("TFTP_DEFAULT_MAX_RETRIES", ctor.get("max_retries"), 3)
    wrap = ctor.get("block_counter_wrap_value")
    g.nat("TFTP_DEFAULT_WRAP", wrap, 0)
    if srv is not None:
        for q in ["TftpServer._process_request", "TftpServer._process_read_request",
                  "TftpServer._run", "TftpServer.start", "TftpServer.stop",
                  "_TftpReadRequest.__init__", "_TftpReadRequest._process_request",
                  "_TftpReadRequest._process_transfer_size_option", "_TftpReadRequest._receive",
                  "_TftpReadRequest._receive_ack", "_TftpReadRequest._run",
                  "_TftpReadRequest._send_data", "_TftpReadRequest._send_data_block",
                  "_TftpReadRequest._send_options_ack", "_TftpReadRequest._set_socket_timeout",
                  "_TftpReadRequest._calc_next_block_number",
                  "_netascii_reader_function", "_octet_reader_function"]:
            digests["tftp/server.py:" + q] = _func_digest(srv, q)
    if proto is not None:
        for q in ["decode_ack", "decode_error", "decode_read_request", "error_packet",
                  "options_ack_packet", "data_packet", "TransferMode.from_str"]:
            digests["tftp/protocol.py:" + q] = _func_digest(proto, q)

    # ---------------- further sections are appended by property modules --------------
    for extra in EXTRA_SECTIONS:
        try:
            extra(g, digests)
        except Exception as e:  # a section that cannot be read is drift, not a crash
            g.drift.append(f"{extra.__name__}: {e!r}")

    body = "\n".join(g.lines)
    text = (
        "/- GENERATED by harness/translate.py from /repo's working tree. Do not edit. -/\n"
        "namespace Vinegar.Generated\n\n" + body + "\n\nend Vinegar.Generated\n"
    )
    return text, {"drift": g.drift, "digests": digests, "values": g.values}


EXTRA_SECTIONS = []


def _load_extra_sections():
    """property modules may contribute extraction sections (harness/translate_*.py)"""
    here = os.path.dirname(os.path.abspath(__file__))
    for fn in sorted(os.listdir(here)):
        if fn.startswith("translate_") and fn.endswith(".py"):
            modname = fn[:-3]
            sys.path.insert(0, here)
            try:
                mod = __import__(modname)
                EXTRA_SECTIONS.extend(getattr(mod, "SECTIONS", []))
            finally:
                sys.path.pop(0)


def main():
    EXTRA_SECTIONS.clear()
    _load_extra_sections()
    text, meta = generate()
    os.makedirs(os.path.dirname(OUT), exist_ok=True)
    old = None
    if os.path.exists(OUT):
        with open(OUT, "r", encoding="utf-8") as f:
            old = f.read()
    if old != text:
        with open(OUT, "w", encoding="utf-8") as f:
            f.write(text)
    with open(META, "w", encoding="utf-8") as f:
        json.dump(meta, f, indent=1, sort_keys=True)
    return meta


if __name__ == "__main__":
    m = main()
    print(json.dumps({"drift": m["drift"]}))
