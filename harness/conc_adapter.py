"""
C19 adapter: runs real vinegar components under the deterministic scheduler (sched.py) and
compares what the threads obtained with the sequential behaviours.

A case = scenario + schedule:
  {"comp": "lru"|"store"|"textfile"|"yaml", "cfg": {...}, "threads": [[op, ...], ...],
   "order": [thread indices], "preempt": [[step, thread], ...]}
An op is a JSON list: ["get", k], ["set", k, v], …; for file-backed components the pseudo-thread
op ["write", state_index] replaces the file(s) by the given state (atomically, with a fixed mtime).
"""
import itertools
import json
import os
import shutil
import sys
import tempfile

import sched

REPO = os.environ.get("VINEGAR_REPO", "/repo")
_cache = {}


def _canon(x):
    if isinstance(x, BaseException):
        return {"exc": type(x).__name__}
    if isinstance(x, (set, frozenset)):
        return {"set": sorted((_canon(i) for i in x), key=lambda v: json.dumps(v, sort_keys=True))}
    if isinstance(x, dict):
        return {"dict": [[_canon(k), _canon(v)] for k, v in x.items()]}
    if isinstance(x, (list, tuple)):
        return [_canon(i) for i in x]
    if isinstance(x, (str, int, float, bool)) or x is None:
        return x
    return repr(x)


def _call(f):
    try:
        return _canon(f())
    except sched.Deadlock:
        raise
    except Exception as e:
        return {"exc": type(e).__name__}


# ------------------------------------------------------------------ components
class LruComp:
    traced = ("vinegar/utils/cache.py",)

    def __init__(self, cfg, workdir):
        from vinegar.utils.cache import LRUCache, SynchronizedCache
        with sched.coop_locks():
            self.c = SynchronizedCache(LRUCache(cache_size=cfg["size"], mark_on_update=cfg.get("mark_on_update", True)))

    def do(self, op):
        c = self.c
        k = op[0]
        if k == "get":
            def f():
                return c[op[1]]
        elif k == "set":
            def f():
                c[op[1]] = op[2]
        elif k == "del":
            def f():
                del c[op[1]]
        elif k == "contains":
            def f():
                return op[1] in c
        elif k == "len":
            def f():
                return len(c)
        elif k == "clear":
            def f():
                c.clear()
        else:
            raise ValueError(op)
        return _call(f)

    def probe(self):
        return [self.do(["len"])] + [self.do(["contains", k]) for k in range(4)]

    def close(self):
        pass


class StoreComp:
    traced = ("vinegar/utils/sqlite_store.py",)

    def __init__(self, cfg, workdir):
        from vinegar.utils.sqlite_store import DataStore
        with sched.coop_locks():
            self.s = DataStore(os.path.join(workdir, "db.sqlite"))
        for sid, key, val in cfg.get("initial", []):
            self.s.set_value(sid, key, val)

    def do(self, op):
        s = self.s
        k = op[0]
        f = {
            "set": lambda: s.set_value(op[1], op[2], op[3]),
            "get": lambda: s.get_value(op[1], op[2]),
            "del": lambda: s.delete_value(op[1], op[2]),
            "del_all": lambda: s.delete_data(op[1]),
            "data": lambda: s.get_data(op[1]),
            "find": lambda: list(s.find_systems(op[1], op[2])),
            "list": lambda: list(s.list_systems()),
        }[k]
        return _call(f)

    def probe(self):
        return [self.do(["list"])] + [self.do(["data", sid]) for sid in ("a", "b")]

    def close(self):
        try:
            self.s.close()
        except Exception:
            pass


def _write_state(path, text, stamp):
    tmp = path + ".tmp"
    with open(tmp, "w") as f:
        f.write(text)
    os.utime(tmp, ns=(stamp, stamp))
    os.replace(tmp, path)


class TextFileComp:
    traced = ("vinegar/data_source/text_file.py",)

    def __init__(self, cfg, workdir):
        from vinegar.data_source.text_file import TextFileSource
        self.path = os.path.join(workdir, "hosts.txt")
        self.states = cfg["states"]
        _write_state(self.path, self.states[0], 1_000_000_000_000_000_000)
        conf = {"file": self.path,
                "regular_expression": r"(?P<mac>[0-9a-f:]+);(?P<ip>[0-9.]+);(?P<host>\w+)",
                "system_id": {"source": "host"},
                "variables": {"net:mac": {"source": "mac"}, "net:ip": {"source": "ip"}}}
        conf.update(cfg.get("conf", {}))
        with sched.coop_locks():
            self.src = TextFileSource(conf)

    def do(self, op):
        k = op[0]
        if k == "write":
            _write_state(self.path, self.states[op[1]], 1_000_000_000_000_000_000 + 1_000_000_000 * (op[1] + 1))
            return None
        if k == "get":
            return _call(lambda: self.src.get_data(op[1], {}, ""))
        if k == "find":
            return _call(lambda: self.src.find_system(op[1], op[2]))
        raise ValueError(op)

    def probe(self):
        return [self.do(["get", h]) for h in ("alpha", "beta", "gamma")] + [self.do(["find", "net:ip", "10.0.0.1"])]

    def close(self):
        pass


class YamlComp:
    traced = ("vinegar/data_source/yaml_target.py",)
    # call/return granularity inside the compiler, line granularity in the methods that touch the shared cache
    line_funcs = ("get_data", "compile_data", "find_system")

    def __init__(self, cfg, workdir):
        from vinegar.data_source.yaml_target import YamlTargetSource
        self.root = os.path.join(workdir, "tree")
        os.makedirs(self.root)
        self.states = cfg["states"]
        self._apply(0)
        conf = {"root_dir": self.root, "cache_size": cfg.get("cache_size", 4)}
        with sched.coop_locks():
            self.src = YamlTargetSource(conf)

    def _apply(self, idx):
        files = self.states[idx]
        base = 1_000_000_000_000_000_000 + 1_000_000_000 * (idx + 1)
        for rel, text in files.items():
            p = os.path.join(self.root, rel)
            os.makedirs(os.path.dirname(p), exist_ok=True)
            _write_state(p, text, base)

    def do(self, op):
        k = op[0]
        if k == "write":
            self._apply(op[1])
            return None
        if k == "get":
            return _call(lambda: self.src.get_data(op[1], {}, ""))
        raise ValueError(op)

    def probe(self):
        return [self.do(["get", h]) for h in ("alpha", "beta")]

    def close(self):
        pass


COMPS = {"lru": LruComp, "store": StoreComp, "textfile": TextFileComp, "yaml": YamlComp}


def _fresh(case):
    d = tempfile.mkdtemp(prefix="vverif-conc-")
    return COMPS[case["comp"]](case["cfg"], d), d


def _interleavings(lens):
    """all merges of the threads' op sequences, as sequences of thread indices"""
    total = sum(lens)

    def rec(done):
        if sum(done) == total:
            yield []
            return
        for i, n in enumerate(lens):
            if done[i] < n:
                d2 = list(done)
                d2[i] += 1
                for rest in rec(d2):
                    yield [i] + rest
    return rec([0] * len(lens))


def sequential_outcomes(case):
    """every per-thread result tuple that SOME sequential order of the calls produces (real code,
    fresh component per order), plus the probe afterwards"""
    key = json.dumps({k: case[k] for k in ("comp", "cfg", "threads")}, sort_keys=True)
    if key in _cache:
        return _cache[key]
    threads = case["threads"]
    out = set()
    for inter in _interleavings([len(t) for t in threads]):
        comp, d = _fresh(case)
        try:
            pos = [0] * len(threads)
            res = [[] for _ in threads]
            for i in inter:
                res[i].append(comp.do(threads[i][pos[i]]))
                pos[i] += 1
            probe = comp.probe()
        finally:
            comp.close()
            shutil.rmtree(d, ignore_errors=True)
        out.add(json.dumps([res, probe], sort_keys=True))
    _cache[key] = out
    return out


_steps_cache = {}


def _run_once(case, preempt):
    threads = case["threads"]
    comp, d = _fresh(case)
    results = [[] for _ in threads]
    try:
        def body(i):
            def run():
                for op in threads[i]:
                    results[i].append(comp.do(op))
            return run
        s = sched.Scheduler([body(i) for i in range(len(threads))], comp.traced,
                            preemptions=[tuple(p) for p in preempt], start_order=case.get("order"),
                            line_funcs=getattr(comp, "line_funcs", None))
        s.run()
        deadlock = s.deadlock
        errors = [type(w.error).__name__ for w in s.workers if w.error is not None]
        probe = comp.probe() if not deadlock else None
    finally:
        comp.close()
        shutil.rmtree(d, ignore_errors=True)
    return {"results": results, "probe": probe, "deadlock": deadlock, "errors": errors,
            "steps": s.step, "switches": s.switches, "trace": [list(t) for t in s.trace_points[:12]],
            "preempt": [list(p) for p in preempt]}


def _total_steps(case):
    key = json.dumps({k: case.get(k) for k in ("comp", "cfg", "threads", "order")}, sort_keys=True)
    if key not in _steps_cache:
        _steps_cache[key] = _run_once(case, [])["steps"]
    return _steps_cache[key]


def _judge_local(case, o):
    if case["comp"] != "lru" and not o["deadlock"]:
        allowed = sequential_outcomes(case)
        o["in_sequential_outcomes"] = json.dumps([o["results"], o["probe"]], sort_keys=True) in allowed
        o["n_sequential_outcomes"] = len(allowed)
    return o


def run_case(case):
    if REPO not in sys.path:
        sys.path.insert(0, REPO)
    n = len(case["threads"])
    if case.get("sweep"):
        # every single pre-emption: at every global step, to every other thread
        total = _total_steps(case)
        outs = []
        distinct = {}
        k, m = case["sweep"] if isinstance(case["sweep"], list) else (0, 1)
        for step in range(1, total + 1):
            if step % m != k:
                continue
            for target in range(n):
                o = _judge_local(case, _run_once(case, [[step, target]]))
                key = json.dumps([o["results"], o["probe"], o["deadlock"], o["errors"]], sort_keys=True)
                if key not in distinct:
                    distinct[key] = o
        return {"sweep": list(distinct.values()), "total_steps": total, "runs": (total // m + 1) * n}
    pre = case.get("preempt", [])
    if "preempt_frac" in case:
        total = _total_steps(case)
        pre = sorted([[1 + int(f * total), t] for f, t in case["preempt_frac"]])
    return _judge_local(case, _run_once(case, pre))
