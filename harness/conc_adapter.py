"""
C19 adapter: runs real vinegar components under the deterministic scheduler (sched.py) and
compares what the threads obtained with the sequential behaviours.

A case = scenario + schedule:
  {"comp": "lru"|"store"|"textfile"|"yaml", "cfg": {...}, "threads": [[op, ...], ...],
   "order": [thread indices], "preempt": [[step, thread], ...]}
An op is a JSON list: ["get", k], ["set", k, v], …; for file-backed components the pseudo-thread
op ["write", state_index] replaces the file(s) by the given state (atomically, with a fixed mtime).

Results are canonical JSON. For the components whose linearization search runs in Lean the results
ARE the observations of the property that owns the sequential model — `DataStore`: the observations
of C15 (`sqlite_adapter.Views.exec_step`: JSON texts, exception class names), `TextFileSource`: those
of C14 (`textfile_common`: ordered items, versions mapped to the model's "v" + line through the
inverse of `version_for_str` on the lines of the scenario) — and `lean_request` turns one run into
the request of the driver op `conc.lru` / `conc.store` / `conc.textfile`. The same results are
compared with the outcomes of the real code run sequentially (`sequential_outcomes`), which for
these components is only a cross-check of the two references.
"""
import itertools
import json
import os
import shutil
import sys
import tempfile

import sched

REPO = os.environ.get("VINEGAR_REPO", "/repo")
_cache = {}


def _canon(x):
    if isinstance(x, BaseException):
        return {"exc": type(x).__name__}
    if isinstance(x, (set, frozenset)):
        return {"set": sorted((_canon(i) for i in x), key=lambda v: json.dumps(v, sort_keys=True))}
    if isinstance(x, dict):
        return {"dict": [[_canon(k), _canon(v)] for k, v in x.items()]}
    if isinstance(x, (list, tuple)):
        return [_canon(i) for i in x]
    if isinstance(x, (str, int, float, bool)) or x is None:
        return x
    return repr(x)


def _call(f):
    try:
        return _canon(f())
    except sched.Deadlock:
        raise
    except Exception as e:
        return {"exc": type(e).__name__}


# ------------------------------------------------------------------ components
class LruComp:
    traced = ("vinegar/utils/cache.py",)

    def __init__(self, cfg, workdir):
        from vinegar.utils.cache import LRUCache, SynchronizedCache
        with sched.coop_locks():
            self.c = SynchronizedCache(LRUCache(cache_size=cfg["size"], mark_on_update=cfg.get("mark_on_update", True)))

    def do(self, op):
        c = self.c
        k = op[0]
        if k == "get":
            def f():
                return c[op[1]]
        elif k == "getd":
            # Mapping.get(key, default): a miss is the default, never an exception (what YamlTargetSource calls);
            # reported as the model's `get` reports a miss, while an exception that ESCAPES is none of its results
            def f():
                try:
                    r = c.get(op[1], "__MISS__")
                except Exception as e:  # noqa
                    raise type("Escaped" + type(e).__name__, (Exception,), {})()
                if r == "__MISS__":
                    raise KeyError(op[1])
                return r
        elif k == "set":
            def f():
                c[op[1]] = op[2]
        elif k == "del":
            def f():
                del c[op[1]]
        elif k == "contains":
            def f():
                return op[1] in c
        elif k == "len":
            def f():
                return len(c)
        elif k == "clear":
            def f():
                c.clear()
        else:
            raise ValueError(op)
        return _call(f)

    PROBE = [["len"]] + [["contains", k] for k in range(4)]

    def probe(self):
        return [self.do(op) for op in self.PROBE]

    def close(self):
        pass


def _tag(v):
    """a JSON value of a scenario in the tagged transport form of C15 (sqlite_common / Driver.Sqlite.valFromJson)"""
    import sqlite_common as Q
    if v is None:
        return ["n"]
    if isinstance(v, bool):
        return ["b", v]
    if isinstance(v, int):
        return Q.I(v)
    if isinstance(v, float):
        return Q.F(v)
    if isinstance(v, str):
        return Q.S(v)
    if isinstance(v, list):
        return ["l", [_tag(x) for x in v]]
    if isinstance(v, dict):
        return ["d", [[Q.S(k), _tag(x)] for k, x in v.items()]]
    raise ValueError("value outside the scenario domain: %r" % (v,))


def store_call(op):
    """a store op of a scenario as the `DataStore` step of C15's histories (view "s")"""
    from sqlite_adapter import cps
    k = op[0]
    st = {"view": "s"}
    if k == "set":
        st.update(op="set_value", sid=cps(op[1]), key=cps(op[2]), value=_tag(op[3]))
    elif k == "get":
        st.update(op="get_value", sid=cps(op[1]), key=cps(op[2]))
    elif k == "del":
        st.update(op="delete_value", sid=cps(op[1]), key=cps(op[2]))
    elif k == "del_all":
        st.update(op="delete_data", sid=cps(op[1]))
    elif k == "data":
        st.update(op="get_data", sid=cps(op[1]))
    elif k == "find":
        st.update(op="find_systems", key=cps(op[1]), value=_tag(op[2]))
    elif k == "list":
        st.update(op="list_systems")
    else:
        raise ValueError(op)
    return st


class StoreComp:
    traced = ("vinegar/utils/sqlite_store.py",)
    PROBE = [["list"], ["data", "a"], ["data", "b"]]
    STRICT = True        # DataStore(db_file): strict_value_checking defaults to True

    def __init__(self, cfg, workdir):
        from vinegar.utils.sqlite_store import DataStore
        import sqlite_adapter
        with sched.coop_locks():
            self.s = DataStore(os.path.join(workdir, "db.sqlite"))
        # C15's adapter performs the call and canonicalises the result; it is handed the store made above
        self.views = sqlite_adapter.Views.__new__(sqlite_adapter.Views)
        self.views.cfgs = {"s": {"kind": "store", "strict": self.STRICT}}
        self.views.obj = {"s": self.s}
        for sid, key, val in cfg.get("initial", []):
            self.do(["set", sid, key, val])

    def do(self, op):
        obs, _ = self.views.exec_step(store_call(op))
        if obs == {"exc": "Deadlock"}:
            raise sched.Deadlock("all threads blocked")
        return obs

    def probe(self):
        return [self.do(op) for op in self.PROBE]

    def close(self):
        try:
            self.s.close()
        except Exception:
            pass


def _write_state(path, text, stamp):
    tmp = path + ".tmp"
    with open(tmp, "w") as f:
        f.write(text)
    os.utime(tmp, ns=(stamp, stamp))
    os.replace(tmp, path)


TF_REGEX = r"(?P<mac>[0-9a-f:]+);(?P<ip>[0-9.]+);(?P<host>\w+)"
STAMP0 = 1_000_000_000_000_000_000


def tf_stamp(k):
    """the modification stamp the file gets when the pseudo-thread writes state k (None: the initial file)"""
    return STAMP0 if k is None else STAMP0 + 1_000_000_000 * (k + 1)


def tf_case(cfg):
    """the text-file scenario in the case format of C14 (textfile_common): regex + model configuration"""
    conf = dict(cfg.get("conf", {}))
    var = lambda src: {"source": src, "chain": [], "tnv": False, "unv": False}
    c = {"mismatch": conf.pop("mismatch_action", "warn"), "duplicate": conf.pop("duplicate_system_id_action", "warn"),
         "find_first": conf.pop("find_first_match", False), "cache": conf.pop("cache_enabled", True),
         "sys_id": var("host"), "vars": [["net:mac", var("mac")], ["net:ip", var("ip")]]}
    if conf:
        raise ValueError("configuration keys outside the scenario domain: %r" % sorted(conf))
    return {"regex": TF_REGEX, "ignore": None, "cfg": c}


class TextFileComp:
    traced = ("vinegar/data_source/text_file.py",)
    PROBE = [["get", h] for h in ("alpha", "beta", "gamma")] + [["find", "net:ip", "10.0.0.1"]]

    def __init__(self, cfg, workdir):
        import logging
        import textfile_common as T
        from vinegar.data_source.text_file import TextFileSource
        from vinegar.utils.version import version_for_str
        logging.disable(logging.CRITICAL)
        self.T = T
        self.path = os.path.join(workdir, "hosts.txt")
        self.states = cfg["states"]
        _write_state(self.path, self.states[0], tf_stamp(None))
        # version_for_str(line) -> the model's "v" + line, for the lines of this scenario (as C14 does)
        self.vtable = {}
        for text in sorted({t for st in self.states for t in T.split_lines(st)}):
            self.vtable.setdefault(version_for_str(text), []).append(text)
        with sched.coop_locks():
            self.src = TextFileSource(T.source_config(tf_case(cfg), self.path))

    def _version(self, v):
        if v == "":
            return ""
        if not isinstance(v, str):
            return "?" + repr(v)
        hit = self.vtable.get(v)
        if hit is None:
            return "?" + v
        return "v" + hit[0] if len(hit) == 1 else "!" + v

    def do(self, op):
        k = op[0]
        if k == "write":
            _write_state(self.path, self.states[op[1]], tf_stamp(op[1]))
            return None
        try:
            if k == "get":
                data, version = self.src.get_data(op[1], {}, "")
                return ["data", self.T.canon_items(data), self._version(version)]
            if k == "find":
                r = self.src.find_system(op[1], self.T.val_to_py(op[2]))
                return ["found", r if (r is None or isinstance(r, str)) else {"?": repr(r)}]
        except sched.Deadlock:
            raise
        except Exception as e:
            return ["raised", type(e).__name__]
        raise ValueError(op)

    def probe(self):
        return [self.do(op) for op in self.PROBE]

    def close(self):
        pass


_classified = {}


def tf_states(cfg):
    """every file state of the scenario with its lines pre-classified by the real `re` (textfile_common.classify)
    and the stamp it is written with: (initial file, states as the pseudo-thread writes them)"""
    import textfile_common as T
    key = json.dumps(cfg["states"])
    if key not in _classified:
        _classified[key] = [{"content": st, "lines": T.classify(TF_REGEX, None, st)} for st in cfg["states"]]
    cl = _classified[key]
    return dict(cl[0], stamp=tf_stamp(None)), [dict(c, stamp=tf_stamp(k)) for k, c in enumerate(cl)]


def lean_request(case, o, world=None):
    """the driver request that decides in Lean whether the outcome `o` of one run is linearizable; `world` = the
    tables of the model's world that the worker computed with the real libraries (yaml only)"""
    comp, cfg = case["comp"], case["cfg"]
    base = {"threads": case["threads"], "results": o["results"], "probe": COMPS[comp].PROBE, "probe_results": o["probe"]}
    if comp == "lru":
        # for the model `getd` is `get`
        ths = [[["get"] + list(op[1:]) if op[0] == "getd" else op for op in t] for t in case["threads"]]
        return dict(base, op="conc.lru", threads=ths, size=cfg["size"], mark_on_update=cfg.get("mark_on_update", True))
    if comp == "store":
        return dict(base, op="conc.store", strict=StoreComp.STRICT,
                    initial=[store_call(["set"] + list(i)) for i in cfg.get("initial", [])],
                    threads=[[store_call(op) for op in t] for t in case["threads"]],
                    probe=[store_call(op) for op in StoreComp.PROBE])
    if comp == "textfile":
        import textfile_common as T
        init, states = tf_states(cfg)
        return dict(base, op="conc.textfile", cfg=T.model_cfg(tf_case(cfg)["cfg"]), init=init, states=states)
    if comp == "yaml":
        return dict(base, op="conc.yaml", **world)
    return None


YAML_PDV = ""          # get_data(id, {}, ""): the version string of the (empty) preceding data
YAML_MODEL_CFG = {"merge_lists": False, "merge_sets": True, "allow_empty_top": False}   # defaults of YamlTargetSource
_yaml_setups = {}


def yaml_ids(case):
    return sorted({op[1] for t in case["threads"] for op in t if op[0] == "get"} | {op[1] for op in YamlComp.PROBE})


def yaml_setup(case):
    """the world of the Lean model for a yaml scenario, built as yaml_adapter.run_c12 builds it for C12 (every
    source text of every file state rendered by vinegar's template engine for every system id of the scenario,
    the rendered texts parsed by the real yaml.safe_load, the target expressions of the top file evaluated by
    the real matcher), plus the table that maps the version strings of the real source back to the model's:
    the model reports a version as the list of its pieces' text identifiers and tags (`Driver.Yaml.driverVer`),
    the op conc.yaml_versions lists the versions the model can produce in the trees of the scenario, and
    version_for_str / aggregate_version of the code under test are applied to them here"""
    import itertools
    import yaml_adapter as YA
    import yaml_common as Y
    cfg = case["cfg"]
    ids = yaml_ids(case)
    writes = [op[1] for t in case["threads"] for op in t if op[0] == "write"]
    variants = sorted({p for n in range(len(writes) + 1) for sub in itertools.combinations(writes, n)
                       for p in itertools.permutations(sub)})
    key = json.dumps([cfg["states"], cfg.get("cache_size", 4), ids, variants], sort_keys=True)
    if key in _yaml_setups:
        return _yaml_setups[key]
    from vinegar.utils.version import aggregate_version, version_for_str
    srcs, texts = YA.Interner("S"), YA.Interner("T")
    text_table, top_table, render_table, text_of = {}, {}, {}, {}
    d = tempfile.mkdtemp(prefix="vverif-conc-yaml-")
    try:
        for sid in ids:
            r = YA.Renderer("jinja", sid, {})
            for st in cfg["states"]:
                for rel, source in st.items():
                    sname = srcs.get(source)
                    if (sname, sid, YAML_PDV) in render_table:
                        continue
                    path = os.path.join(d, sname + "-" + sid + ".yaml")    # one path per template: no stale engine cache
                    with open(path, "w", encoding="utf-8") as f:
                        f.write(source)
                    t = r.render(path)
                    if t is None:
                        render_table[(sname, sid, YAML_PDV)] = None
                        continue
                    tid = texts.get(t)
                    text_of[tid] = t
                    render_table[(sname, sid, YAML_PDV)] = tid
                    if rel == "top.yaml":
                        top_table[(tid, sid, YAML_PDV)] = YA.parse_top_text(t, sid, {})
                    else:
                        text_table[tid] = YA.parse_data_text(t)
    finally:
        shutil.rmtree(d, ignore_errors=True)

    def edits(st):
        return [["setTop", ["file", srcs.get(src)]] if rel == "top.yaml" else
                ["write", rel[:-len(".yaml")].split("/"), srcs.get(src)] for rel, src in st.items()]

    s0 = cfg["states"][0]
    world = {"cfg": YAML_MODEL_CFG, "fuel": Y.FUEL, "cache_size": max(0, int(cfg.get("cache_size", 4))), "pdv": YAML_PDV,
             "texts": [[k, v] for k, v in text_table.items()],
             "tops": [[k[0], k[1], k[2], v] for k, v in top_table.items()],
             "render": [[k[0], k[1], k[2], v] for k, v in render_table.items()],
             "init": {"top": ["file", srcs.get(s0["top.yaml"])] if "top.yaml" in s0 else None,
                      "files": [[rel[:-len(".yaml")].split("/"), ["file", srcs.get(src)]]
                                for rel, src in s0.items() if rel != "top.yaml"]},
             "states": [edits(st) for st in cfg["states"]]}
    import core
    resp = core.driver_call([dict(world, op="conc.yaml_versions", variants=[list(v) for v in variants], ids=ids)])[0]
    if "ok" not in resp:
        raise RuntimeError("conc.yaml_versions: %r" % (resp,))
    vtable = {}
    for row in resp["ok"]:
        for mv in row:
            if mv is None:
                continue
            inner = mv[1:-1]
            pieces = []
            for part in (inner.split("|") if inner else []):
                tid, tag = part.rsplit(":", 1)
                pieces.append(version_for_str(text_of[tid]) + ":" + tag)
            vtable.setdefault(aggregate_version(pieces), set()).add(mv)
    _yaml_setups[key] = (world, {k: sorted(v) for k, v in vtable.items()})
    return _yaml_setups[key]


class YamlComp:
    traced = ("vinegar/data_source/yaml_target.py", "vinegar/template/jinja.py")
    # call/return granularity inside the compiler, line granularity in the methods that touch the shared cache and in
    # the template engine's render (the engine object and its compiled templates are shared by all calls)
    line_funcs = ("get_data", "compile_data", "find_system", "render")
    PROBE = [["get", h] for h in ("alpha", "beta")]

    def __init__(self, cfg, workdir, case=None):
        from vinegar.data_source.yaml_target import YamlTargetSource
        import yaml_adapter
        self.YA = yaml_adapter
        self.root = os.path.join(workdir, "tree")
        os.makedirs(self.root)
        self.states = cfg["states"]
        self._apply(0)
        self.vtable = yaml_setup(case)[1] if case is not None else {}
        conf = {"root_dir": self.root, "cache_size": cfg.get("cache_size", 4)}
        with sched.coop_locks():
            self.src = YamlTargetSource(conf)

    def _apply(self, idx):
        files = self.states[idx]
        base = 1_000_000_000_000_000_000 + 1_000_000_000 * (idx + 1)
        for rel, text in files.items():
            p = os.path.join(self.root, rel)
            os.makedirs(os.path.dirname(p), exist_ok=True)
            _write_state(p, text, base)

    def _version(self, v):
        hit = self.vtable.get(v)
        if hit is None:
            return "?" + v
        return hit[0] if len(hit) == 1 else "!" + v

    def do(self, op):
        k = op[0]
        if k == "write":
            self._apply(op[1])
            return None
        if k == "get":
            # the observation of C11/C12 (yaml_adapter.call): tagged ordered data + version, or the exception class
            o, _ = self.YA.call(self.src, op[1], {}, YAML_PDV)
            if o[:2] == ["err", "Deadlock"]:
                raise sched.Deadlock("all threads blocked")
            return ["ok", o[1], self._version(o[2])] if o[0] == "ok" else o[:2]
        raise ValueError(op)

    def probe(self):
        return [self.do(op) for op in self.PROBE]

    def close(self):
        pass


COMPS = {"lru": LruComp, "store": StoreComp, "textfile": TextFileComp, "yaml": YamlComp}


def _fresh(case):
    d = tempfile.mkdtemp(prefix="vverif-conc-")
    if case["comp"] == "yaml":
        return YamlComp(case["cfg"], d, case), d
    return COMPS[case["comp"]](case["cfg"], d), d


def _interleavings(lens):
    """all merges of the threads' op sequences, as sequences of thread indices"""
    total = sum(lens)

    def rec(done):
        if sum(done) == total:
            yield []
            return
        for i, n in enumerate(lens):
            if done[i] < n:
                d2 = list(done)
                d2[i] += 1
                for rest in rec(d2):
                    yield [i] + rest
    return rec([0] * len(lens))


def sequential_outcomes(case):
    """every per-thread result tuple that SOME sequential order of the calls produces (real code,
    fresh component per order), plus the probe afterwards"""
    key = json.dumps({k: case[k] for k in ("comp", "cfg", "threads")}, sort_keys=True)
    if key in _cache:
        return _cache[key]
    threads = case["threads"]
    out = set()
    for inter in _interleavings([len(t) for t in threads]):
        comp, d = _fresh(case)
        try:
            pos = [0] * len(threads)
            res = [[] for _ in threads]
            try:
                for i in inter:
                    res[i].append(comp.do(threads[i][pos[i]]))
                    pos[i] += 1
                probe = comp.probe()
            except sched.Deadlock:
                res, probe = "deadlock", None
        finally:
            comp.close()
            shutil.rmtree(d, ignore_errors=True)
        out.add(json.dumps([res, probe], sort_keys=True))
    _cache[key] = out
    return out


_steps_cache = {}


def _run_once(case, preempt):
    threads = case["threads"]
    comp, d = _fresh(case)
    results = [[] for _ in threads]
    try:
        def body(i):
            def run():
                for op in threads[i]:
                    results[i].append(comp.do(op))
            return run
        s = sched.Scheduler([body(i) for i in range(len(threads))], comp.traced,
                            preemptions=[tuple(p) for p in preempt], start_order=case.get("order"),
                            line_funcs=getattr(comp, "line_funcs", None))
        s.run()
        deadlock = s.deadlock
        errors = [type(w.error).__name__ for w in s.workers if w.error is not None]
        try:
            probe = comp.probe() if not deadlock else None
        except sched.Deadlock:
            # the component cannot serve the next call: a lock was left behind by a call that has ended
            deadlock, probe = True, None
    finally:
        comp.close()
        shutil.rmtree(d, ignore_errors=True)
    return {"results": results, "probe": probe, "deadlock": deadlock, "errors": errors,
            "steps": s.step, "switches": s.switches, "trace": [list(t) for t in s.trace_points[:12]],
            "preempt": [list(p) for p in preempt]}


def _total_steps(case):
    key = json.dumps({k: case.get(k) for k in ("comp", "cfg", "threads", "order")}, sort_keys=True)
    if key not in _steps_cache:
        _steps_cache[key] = _run_once(case, [])["steps"]
    return _steps_cache[key]


def _judge_local(case, o):
    # reference of the yaml source; cross-check of the Lean verdict for store / textfile
    if case["comp"] != "lru" and not o["deadlock"]:
        allowed = sequential_outcomes(case)
        o["in_sequential_outcomes"] = json.dumps([o["results"], o["probe"]], sort_keys=True) in allowed
        o["n_sequential_outcomes"] = len(allowed)
    return o


def run_case(case):
    if REPO not in sys.path:
        sys.path.insert(0, REPO)
    out = _run_case(case)
    if case["comp"] == "yaml":
        out["world"] = yaml_setup(case)[0]
    return out


def _run_case(case):
    n = len(case["threads"])
    if case.get("sweep"):
        # every single pre-emption: at every global step, to every other thread
        base = _run_once(case, [])
        if base["deadlock"] or base["errors"]:
            # already the run without any pre-emption fails: that is the outcome; sweeping it would take for ever
            return {"sweep": [_judge_local(case, base)], "total_steps": base["steps"], "runs": 1}
        total = _total_steps(case)
        outs = []
        distinct = {}
        k, m = case["sweep"] if isinstance(case["sweep"], list) else (0, 1)
        for step in range(1, total + 1):
            if step % m != k:
                continue
            for target in range(n):
                o = _judge_local(case, _run_once(case, [[step, target]]))
                key = json.dumps([o["results"], o["probe"], o["deadlock"], o["errors"]], sort_keys=True)
                if key not in distinct:
                    distinct[key] = o
        return {"sweep": list(distinct.values()), "total_steps": total, "runs": (total // m + 1) * n}
    pre = case.get("preempt", [])
    if "preempt_frac" in case:
        total = _total_steps(case)
        pre = sorted([[1 + int(f * total), t] for f, t in case["preempt_frac"]])
    return _judge_local(case, _run_once(case, pre))
