import Vinegar.Lemmas.Yaml
namespace Vinegar.Yaml

mutual
theorem Val.beq_refl : ∀ v : Val, Val.beq v v = true
  | .null => rfl
  | .bool b => by simp [Val.beq]
  | .int i => by simp [Val.beq]
  | .str s => by simp [Val.beq]
  | .float r => by simp [Val.beq]
  | .list xs => by simp [Val.beq, Val.beqList_refl xs]
  | .dict kvs => by simp [Val.beq, Val.beqKvs_refl kvs]
  | .set xs => by simp [Val.beq]
  | .opaque r => by simp [Val.beq]
theorem Val.beqList_refl : ∀ xs : List Val, Val.beqList xs xs = true
  | [] => rfl
  | x :: xs => by simp [Val.beqList, Val.beq_refl x, Val.beqList_refl xs]
theorem Val.beqKvs_refl : ∀ kvs : List (String × Val), Val.beqKvs kvs kvs = true
  | [] => rfl
  | (k, v) :: rest => by simp [Val.beqKvs, Val.beq_refl v, Val.beqKvs_refl rest]
end

theorem Mapping.beq_refl (m : Mapping) : Mapping.beq m m = true := Val.beqKvs_refl m

/-! key order of merge -/

theorem mergeEntries_keys (ml ms : Bool) (a b m : Mapping) (h : mergeEntries ml ms a b = some m) :
    m.map (·.1) = a.map (·.1) := by
  induction a generalizing m with
  | nil => simp [mergeEntries] at h; subst h; rfl
  | cons p rest ih =>
    obtain ⟨k, v⟩ := p
    rw [mergeEntries] at h
    cases hl : lookup k b with
    | none =>
      simp only [hl] at h
      cases hr : mergeEntries ml ms rest b with
      | none => simp [hr] at h
      | some r => simp [hr] at h; subst h; simp [ih r hr]
    | some w =>
      simp only [hl] at h
      cases hv : mergeVal ml ms v w with
      | none => simp [hv] at h
      | some v' =>
        simp only [hv] at h
        cases hr : mergeEntries ml ms rest b with
        | none => simp [hr] at h
        | some r => simp [hr] at h; subst h; simp [ih r hr]

theorem merge_keys (ml ms : Bool) (a b m : Mapping) (h : merge ml ms a b = some m) :
    m.map (·.1) = a.map (·.1) ++ (b.filter (fun p => !hasKey p.1 a)).map (·.1) := by
  unfold merge at h
  cases he : mergeEntries ml ms a b with
  | none => simp [he] at h
  | some e => simp [he] at h; subst h; simp [mergeEntries_keys ml ms a b e he]

theorem foldMerge_keys (cfg : Cfg) (acc : Mapping) (ps : List Mapping) (d : Mapping)
    (h : foldMerge cfg acc ps = .ok d) :
    ∀ k, k ∈ d.map (·.1) → k ∈ acc.map (·.1) ∨ ∃ p, p ∈ ps ∧ k ∈ p.map (·.1) := by
  induction ps generalizing acc with
  | nil => simp [foldMerge] at h; subst h; intro k hk; exact Or.inl hk
  | cons p rest ih =>
    rw [foldMerge] at h
    cases hm : merge cfg.mergeLists cfg.mergeSets acc p with
    | none => simp [hm] at h
    | some acc' =>
      simp only [hm] at h
      intro k hk
      cases ih acc' h k hk with
      | inr h2 => obtain ⟨q, hq, hkq⟩ := h2; exact Or.inr ⟨q, List.mem_cons_of_mem _ hq, hkq⟩
      | inl h1 =>
        rw [merge_keys _ _ _ _ _ hm, List.mem_append] at h1
        cases h1 with
        | inl h1 => exact Or.inl h1
        | inr h1 =>
          refine Or.inr ⟨p, List.mem_cons_self, ?_⟩
          rw [List.mem_map] at h1 ⊢
          obtain ⟨x, hx, rfl⟩ := h1
          exact ⟨x, (List.mem_filter.1 hx).1, rfl⟩

end Vinegar.Yaml
