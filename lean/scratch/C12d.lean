import Vinegar.Lemmas.YamlCache
namespace Vinegar.Yaml

section
variable (vf : VerFns) (W : World) (old : List (Name × CFile)) (tree : VTree)

theorem loadFile_sim (hver : VerOK vf) (hold : OldOK vf W old) (st : CState) (name res : Name) (node : VNode)
    (hinv : InvSt vf W tree st) (hres : resolveFileV tree name = .ok (res, node)) :
    match loadPure vf W node with
    | .error e => loadFile vf W old st name node = .error e
    | .ok l => ∃ st', loadFile vf W old st name node = .ok (l.1, l.2, st') ∧ InvSt vf W tree st' := by
  unfold loadFile
  cases hl : lookupFile name st.files with
  | some c =>
    obtain ⟨res', t, kvs, h1, h2, h3, h4⟩ := hinv.1 name c hl
    rw [hres] at h1
    cases h1
    simp only [loadPure, h3]
    exact ⟨st, by rw [h4, h2], hinv⟩
  | none =>
    cases node with
    | dir => simp [loadPure]
    | renderError => simp [loadPure]
    | text t =>
      simp only [loadPure]
      cases ho : lookupFile name old with
      | some c =>
        obtain ⟨t0, kvs0, g1, g2, g3⟩ := hold name c ho
        by_cases hv : c.ver = vf.ver t
        · have : t0 = t := hver.ver_inj _ _ (by rw [← g1, hv])
          subst this
          simp only [hv, if_true, g2]
          exact ⟨_, by rw [g3], invSt_insert vf W tree st name res t0 kvs0 c hinv hl hres hv g2 g3⟩
        · simp only [hv, if_false]
          cases hp : W.parse t with
          | error => simp
          | nonMapping => simp
          | mapping kvs =>
            exact ⟨_, rfl, invSt_insert vf W tree st name res t kvs ⟨processContent kvs, vf.ver t⟩ hinv hl hres rfl hp rfl⟩
      | none =>
        cases hp : W.parse t with
        | error => simp
        | nonMapping => simp
        | mapping kvs =>
          exact ⟨_, rfl, invSt_insert vf W tree st name res t kvs ⟨processContent kvs, vf.ver t⟩ hinv hl hres rfl hp rfl⟩

/-- T1: the cached expansion computes what the cache-less reference computes -/
theorem expandFileC_sim (hver : VerOK vf) (hold : OldOK vf W old) (fuel : Nat) :
    ∀ (parents : List Name) (st : CState) (name res : Name) (node : VNode),
      InvSt vf W tree st → resolveFileV tree name = .ok (res, node) →
      Sim (InvSt vf W tree) (expandFileV vf W tree fuel parents name res node)
        (expandFileC vf W old tree fuel parents st name res node) := by
  induction fuel with
  | zero => intro parents st name res node _ _; simp [expandFileV, expandFileC, Sim]
  | succ f ih =>
    intro parents st name res node hinv hres
    rw [expandFileV.eq_def, expandFileC.eq_def]
    by_cases hc : name ∈ parents
    · simp [hc, Sim]
    · simp only [hc, if_false]
      have hload := loadFile_sim vf W old tree hver hold st name res node hinv hres
      cases hl : loadPure vf W node with
      | error e =>
        rw [hl] at hload
        simp [bindE, hload, Sim]
      | ok l =>
        rw [hl] at hload
        obtain ⟨st1, hlf, hinv1⟩ := hload
        simp only [bindE, hlf]
        cases hi : includeNames l.1.2.1 with
        | error e => simp [Sim]
        | ok incs =>
          simp only []
          cases hn : mapE (fun i => resolveRelative i res) incs with
          | error e => simp [Sim]
          | ok names =>
            simp only []
            cases hr : resolveAllV tree names with
            | error e => simp [Sim]
            | ok rs =>
              simp only []
              have hsim := mapAccE_sim (InvSt vf W tree)
                (fun r => expandFileV vf W tree f (parents ++ [name]) r.1 r.2.1 r.2.2)
                (fun s r => expandFileC vf W old tree f (parents ++ [name]) s r.1 r.2.1 r.2.2) rs
                (fun s r hs hr' => ih (parents ++ [name]) s r.1 r.2.1 r.2.2 hs (resolveAllV_mem tree names rs hr r hr'))
                st1 hinv1
              unfold expandAllV expandAllC
              cases hm : mapE (fun r => expandFileV vf W tree f (parents ++ [name]) r.1 r.2.1 r.2.2) rs with
              | error e =>
                rw [hm] at hsim
                simp only [Sim] at hsim
                simp [bindE, hsim, Sim]
              | ok pss =>
                rw [hm] at hsim
                obtain ⟨st2, hacc, hinv2⟩ := hsim
                simp only [bindE, hacc, Sim]
                exact ⟨st2, rfl, hinv2⟩

theorem expandListC_sim (hver : VerOK vf) (hold : OldOK vf W old) (fuel : Nat) (parents : List Name)
    (st : CState) (names : List Name) (hinv : InvSt vf W tree st) :
    Sim (InvSt vf W tree) (expandListV vf W tree fuel parents names)
      (expandListC vf W old tree fuel parents st names) := by
  unfold expandListV expandListC
  cases hr : resolveAllV tree names with
  | error e => simp [bindE, Sim]
  | ok rs =>
    simp only [bindE]
    have hsim := mapAccE_sim (InvSt vf W tree)
      (fun r => expandFileV vf W tree fuel parents r.1 r.2.1 r.2.2)
      (fun s r => expandFileC vf W old tree fuel parents s r.1 r.2.1 r.2.2) rs
      (fun s r hs hr' => expandFileC_sim vf W old tree hver hold fuel parents s r.1 r.2.1 r.2.2 hs
        (resolveAllV_mem tree names rs hr r hr'))
      st hinv
    unfold expandAllV expandAllC
    cases hm : mapE (fun r => expandFileV vf W tree fuel parents r.1 r.2.1 r.2.2) rs with
    | error e =>
      rw [hm] at hsim
      simp only [Sim] at hsim
      simp [bindE, hsim, Sim]
    | ok pss =>
      rw [hm] at hsim
      obtain ⟨st2, hacc, hinv2⟩ := hsim
      simp only [bindE, hacc, Sim]
      exact ⟨st2, rfl, hinv2⟩

end
end Vinegar.Yaml
