import Vinegar.Lemmas.Yaml
namespace Vinegar.Yaml

/-! ## the cache-less, state-less reference of the versioned expansion -/

def loadPure (vf : VerFns) (W : World) : VNode → Except Err (Parts × String)
  | .dir => .error .render
  | .renderError => .error .render
  | .text t =>
    match W.parse t with
    | .error => .error .parse
    | .nonMapping => .error .nonMapping
    | .mapping kvs => .ok (processContent kvs, vf.ver t)

def expandAllV (g : Name → Name → VNode → Except Err (List (Mapping × String)))
    (rs : List (Name × Name × VNode)) : Except Err (List (Mapping × String)) :=
  bindE (mapE (fun r => g r.1 r.2.1 r.2.2) rs) (fun pss => .ok pss.flatten)

def expandFileV (vf : VerFns) (W : World) (tree : VTree) :
    Nat → List Name → Name → Name → VNode → Except Err (List (Mapping × String))
  | 0, _, _, _, _ => .error .fuel
  | fuel + 1, parents, name, resName, node =>
    if name ∈ parents then .error .cycle else
    bindE (loadPure vf W node) fun l =>
    bindE (includeNames l.1.2.1) fun incs =>
    bindE (mapE (fun i => resolveRelative i resName) incs) fun names =>
    bindE (resolveAllV tree names) fun rs =>
    bindE (expandAllV (fun n r nd => expandFileV vf W tree fuel (parents ++ [name]) n r nd) rs) fun mid =>
    .ok (vpiecesOf l.1.1 mid l.1.2.2 l.2)

def expandListV (vf : VerFns) (W : World) (tree : VTree) (fuel : Nat) (parents : List Name)
    (names : List Name) : Except Err (List (Mapping × String)) :=
  bindE (resolveAllV tree names) fun rs =>
  expandAllV (fun n r nd => expandFileV vf W tree fuel parents n r nd) rs

/-- `y` computes what `x` computes and leaves a state satisfying `Inv` -/
def Sim {β : Type} (Inv : CState → Prop) (x : Except Err β) (y : Except Err (β × CState)) : Prop :=
  match x with
  | .error e => y = .error e
  | .ok b => ∃ s', y = .ok (b, s') ∧ Inv s'

theorem mapAccE_sim {α β : Type} (Inv : CState → Prop) (g : α → Except Err β)
    (f : CState → α → Except Err (β × CState)) (l : List α)
    (h : ∀ s a, Inv s → a ∈ l → Sim Inv (g a) (f s a)) (s0 : CState) (h0 : Inv s0) :
    Sim Inv (mapE g l) (mapAccE f s0 l) := by
  induction l generalizing s0 with
  | nil => exact ⟨s0, rfl, h0⟩
  | cons a as ih =>
    have ha := h s0 a h0 List.mem_cons_self
    rw [mapE, mapAccE]
    cases hg : g a with
    | error e =>
      rw [hg] at ha
      simp only [Sim] at ha ⊢
      simp [ha]
    | ok b =>
      rw [hg] at ha
      obtain ⟨s1, hf, h1⟩ := ha
      have ih' := ih (fun s x hs hx => h s x hs (List.mem_cons_of_mem _ hx)) s1 h1
      simp only [hf]
      cases hm : mapE g as with
      | error e =>
        rw [hm] at ih'
        simp only [Sim] at ih' ⊢
        simp [ih']
      | ok bs =>
        rw [hm] at ih'
        obtain ⟨s2, hf2, h2⟩ := ih'
        exact ⟨s2, by simp [hf2], h2⟩

theorem resolveAllV_mem (tree : VTree) (names : List Name) (rs : List (Name × Name × VNode))
    (h : resolveAllV tree names = .ok rs) : ∀ r, r ∈ rs → resolveFileV tree r.1 = .ok (r.2.1, r.2.2) := by
  induction names generalizing rs with
  | nil => simp [resolveAllV, mapE] at h; subst h; intro r hr; cases hr
  | cons n ns ih =>
    unfold resolveAllV at h
    rw [mapE_ok_cons_iff] at h
    obtain ⟨b, bs, h1, h2, rfl⟩ := h
    intro r hr
    cases List.mem_cons.1 hr with
    | inl heq =>
      subst heq
      rw [bindE_ok_iff] at h1
      obtain ⟨a, ha, hb⟩ := h1
      cases hb
      exact ha
    | inr hmem => exact ih bs h2 r hmem

section
variable (vf : VerFns) (W : World) (old : List (Name × CFile)) (tree : VTree)

/-- every per-file entry of the OLD cache item was computed from some text with that version -/
def OldOK : Prop :=
  ∀ n c, lookupFile n old = some c →
    ∃ t kvs, c.ver = vf.ver t ∧ W.parse t = .mapping kvs ∧ c.parts = processContent kvs

/-- every per-file entry of the NEW cache was computed from the file the name denotes NOW;
every rendered name has an entry and was rendered once -/
def InvSt (st : CState) : Prop :=
  (∀ n c, lookupFile n st.files = some c →
    ∃ res t kvs, resolveFileV tree n = .ok (res, .text t) ∧ c.ver = vf.ver t ∧
      W.parse t = .mapping kvs ∧ c.parts = processContent kvs) ∧
  st.reads.Nodup ∧ (∀ n, n ∈ st.reads → lookupFile n st.files ≠ none)

theorem lookupFile_cons (n m : Name) (c : CFile) (l : List (Name × CFile)) :
    lookupFile n ((m, c) :: l) = if m = n then some c else lookupFile n l := by
  rw [lookupFile]

theorem invSt_insert (st : CState) (name res : Name) (t : String) (kvs : Mapping) (c : CFile)
    (hinv : InvSt vf W tree st) (hmiss : lookupFile name st.files = none)
    (hres : resolveFileV tree name = .ok (res, .text t)) (hc1 : c.ver = vf.ver t)
    (hc2 : W.parse t = .mapping kvs) (hc3 : c.parts = processContent kvs) :
    InvSt vf W tree { files := (name, c) :: st.files, reads := st.reads ++ [name] } := by
  obtain ⟨h1, h2, h3⟩ := hinv
  refine ⟨?_, ?_, ?_⟩
  · intro n c' hl
    rw [lookupFile_cons] at hl
    by_cases hn : name = n
    · subst hn; simp at hl; subst hl; exact ⟨res, t, kvs, hres, hc1, hc2, hc3⟩
    · simp [hn] at hl; exact h1 n c' hl
  · rw [List.nodup_append]
    refine ⟨h2, by simp, ?_⟩
    intro a ha b hb
    simp at hb; subst hb
    intro e; subst e
    exact h3 a ha hmiss
  · intro n hn
    rw [lookupFile_cons]
    by_cases hnn : name = n
    · simp [hnn]
    · simp only [hnn, if_false]
      rw [List.mem_append] at hn
      cases hn with
      | inl h => exact h3 n h
      | inr h => simp at h; exact absurd h.symm hnn

end
end Vinegar.Yaml
