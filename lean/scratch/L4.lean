import Vinegar.Lemmas.Yaml
namespace Vinegar.Yaml

theorem bindE_ok_iff {α β ε : Type} (x : Except ε α) (k : α → Except ε β) (b : β) :
    bindE x k = .ok b ↔ ∃ a, x = .ok a ∧ k a = .ok b := by
  cases x with
  | error e => simp [bindE]
  | ok a => simp [bindE]

theorem bindE_error_iff {α β ε : Type} (x : Except ε α) (k : α → Except ε β) (e : ε) :
    bindE x k = .error e ↔ x = .error e ∨ ∃ a, x = .ok a ∧ k a = .error e := by
  cases x with
  | error e' => simp [bindE]
  | ok a => simp [bindE]

theorem resolveAll_nil (tree : Tree) : resolveAll tree [] = .ok [] := rfl

theorem resolveAll_cons_ok_iff (tree : Tree) (n : Name) (ns : List Name) (rs : List (Name × Name × FileNode)) :
    resolveAll tree (n :: ns) = .ok rs ↔
      ∃ place node rs', resolveFile tree n = .ok (place, node) ∧ resolveAll tree ns = .ok rs' ∧
        rs = (n, place, node) :: rs' := by
  unfold resolveAll
  rw [mapE_ok_cons_iff]
  simp only [bindE_ok_iff]
  constructor
  · rintro ⟨b, bs, ⟨⟨place, node⟩, h1, h2⟩, h3, rfl⟩
    cases h2
    exact ⟨place, node, bs, h1, h3, rfl⟩
  · rintro ⟨place, node, rs', h1, h2, rfl⟩
    exact ⟨(n, place, node), rs', ⟨(place, node), h1, rfl⟩, h2, rfl⟩

theorem expandAll_nil (g : Name → Name → FileNode → Except Err (List Mapping)) : expandAll g [] = .ok [] := rfl

theorem expandAll_cons_ok_iff (g : Name → Name → FileNode → Except Err (List Mapping))
    (r : Name × Name × FileNode) (rs : List (Name × Name × FileNode)) (ps : List Mapping) :
    expandAll g (r :: rs) = .ok ps ↔
      ∃ p q, g r.1 r.2.1 r.2.2 = .ok p ∧ expandAll g rs = .ok q ∧ ps = p ++ q := by
  unfold expandAll
  simp only [bindE_ok_iff, mapE_ok_cons_iff]
  constructor
  · rintro ⟨pss, ⟨b, bs, h1, h2, rfl⟩, h3⟩
    cases h3
    exact ⟨b, bs.flatten, h1, ⟨bs, h2, rfl⟩, by simp⟩
  · rintro ⟨p, q, h1, ⟨bs, h2, h3⟩, rfl⟩
    cases h3
    exact ⟨p :: bs, ⟨p, bs, h1, h2, rfl⟩, by simp⟩

theorem expandList_nil (f : Nat) (tree : Tree) (parents : List Name) :
    expandList f tree parents [] = .ok [] := rfl

theorem expandList_cons_ok_iff (f : Nat) (tree : Tree) (parents : List Name) (n : Name) (ns : List Name)
    (ps : List Mapping) :
    expandList f tree parents (n :: ns) = .ok ps ↔
      ∃ place node p q, resolveFile tree n = .ok (place, node) ∧
        expandFile f tree parents n place node = .ok p ∧
        expandList f tree parents ns = .ok q ∧ ps = p ++ q := by
  unfold expandList
  simp only [bindE_ok_iff, resolveAll_cons_ok_iff]
  constructor
  · rintro ⟨rs, ⟨place, node, rs', h1, h2, rfl⟩, h3⟩
    rw [expandAll_cons_ok_iff] at h3
    obtain ⟨p, q, h4, h5, rfl⟩ := h3
    exact ⟨place, node, p, q, h1, h4, ⟨rs', h2, h5⟩, rfl⟩
  · rintro ⟨place, node, p, q, h1, h4, ⟨rs', h2, h5⟩, rfl⟩
    refine ⟨(n, place, node) :: rs', ⟨place, node, rs', h1, h2, rfl⟩, ?_⟩
    rw [expandAll_cons_ok_iff]
    exact ⟨p, q, h4, h5, rfl⟩

theorem expandFile_zero (tree : Tree) (parents : List Name) (n r : Name) (nd : FileNode) :
    expandFile 0 tree parents n r nd = .error .fuel := rfl

theorem expandFile_succ_ok_iff (f : Nat) (tree : Tree) (parents : List Name) (name place : Name)
    (node : FileNode) (ps : List Mapping) :
    expandFile (f + 1) tree parents name place node = .ok ps ↔
      name ∉ parents ∧ ∃ kvs incs names mid, node = .file (.mapping kvs) ∧
        includeNames (splitAtInclude kvs).2.1 = .ok incs ∧
        mapE (fun i => resolveRelative i place) incs = .ok names ∧
        expandList f tree (parents ++ [name]) names = .ok mid ∧
        ps = piecesOf (splitAtInclude kvs).1 mid (splitAtInclude kvs).2.2 := by
  rw [expandFile.eq_def]
  by_cases hc : name ∈ parents
  · simp [hc]
  · simp only [hc, if_false, not_false_eq_true, true_and]
    cases node with
    | dir => simp
    | renderError => simp
    | file p =>
      cases p with
      | error => simp
      | nonMapping => simp
      | mapping kvs =>
        simp only [bindE_ok_iff, processContent_eq_split, expandList]
        constructor
        · rintro ⟨incs, h1, names, h2, rs, h3, mid, h4, h5⟩
          cases h5
          exact ⟨kvs, incs, names, mid, rfl, h1, h2, ⟨rs, h3, h4⟩, rfl⟩
        · rintro ⟨kvs', incs, names, mid, h0, h1, h2, ⟨rs, h3, h4⟩, rfl⟩
          cases h0
          exact ⟨incs, h1, names, h2, rs, h3, mid, h4, rfl⟩

theorem docList_nil (tree : Tree) (f : Nat) (parents : List Name) : docList tree f parents [] = some [] := by
  simp [docList, mapO]

theorem docList_cons_some_iff (tree : Tree) (f : Nat) (parents : List Name) (n : Name) (ns : List Name)
    (dps : List Mapping) :
    docList tree f parents (n :: ns) = some dps ↔
      ∃ d1 d2, docFile tree f parents n = some d1 ∧ docList tree f parents ns = some d2 ∧ dps = d1 ++ d2 := by
  unfold docList
  simp only [Option.map_eq_some_iff, mapO_some_cons_iff]
  constructor
  · rintro ⟨l, ⟨b, bs, h1, h2, rfl⟩, rfl⟩
    exact ⟨b, bs.flatten, h1, ⟨bs, h2, rfl⟩, by simp⟩
  · rintro ⟨d1, d2, h1, ⟨bs, h2, rfl⟩, rfl⟩
    exact ⟨d1 :: bs, ⟨d1, bs, h1, h2, rfl⟩, by simp⟩

theorem docFile_zero (tree : Tree) (parents : List Name) (n : Name) : docFile tree 0 parents n = none := rfl

theorem toOpt_eq_some_iff {ε α : Type} (x : Except ε α) (a : α) : toOpt x = some a ↔ x = .ok a := by
  cases x <;> simp [toOpt]

theorem docFile_succ_some_iff (tree : Tree) (f : Nat) (parents : List Name) (name : Name) (dps : List Mapping) :
    docFile tree (f + 1) parents name = some dps ↔
      name ∉ parents ∧ ∃ place kvs incs names mid, docResolveFile tree name = some (place, kvs) ∧
        includeNames (splitAtInclude kvs).2.1 = .ok incs ∧
        mapO (fun i => docResolve i place) incs = some names ∧
        docList tree f (parents ++ [name]) names = some mid ∧
        dps = [(splitAtInclude kvs).1] ++ mid ++ [(splitAtInclude kvs).2.2] := by
  rw [docFile]
  by_cases hc : name ∈ parents
  · simp [hc]
  · simp only [hc, if_false, not_false_eq_true, true_and, Option.bind_eq_some_iff, toOpt_eq_some_iff, docList,
      Option.map_eq_some_iff]
    constructor
    · rintro ⟨⟨place, kvs⟩, h0, incs, h1, names, h2, pss, h3, h4⟩
      cases h4
      exact ⟨place, kvs, incs, names, pss.flatten, h0, h1, h2, ⟨pss, h3, rfl⟩, rfl⟩
    · rintro ⟨place, kvs, incs, names, mid, h0, h1, h2, ⟨pss, h3, rfl⟩, rfl⟩
      exact ⟨(place, kvs), h0, incs, h1, names, h2, pss, h3, rfl⟩

end Vinegar.Yaml
