import Vinegar.Spec.Yaml
namespace Vinegar.Yaml

theorem splitAtInclude_noKey (kvs : Mapping) (h : hasKey INCLUDE kvs = false) :
    splitAtInclude kvs = (kvs, none, []) := by
  induction kvs with
  | nil => rfl
  | cons p rest ih =>
    obtain ⟨k, v⟩ := p
    simp [hasKey, List.any_cons] at h
    have hk : ¬ k = INCLUDE := h.1
    have hr : hasKey INCLUDE rest = false := by
      simp [hasKey]; exact h.2
    simp [splitAtInclude, hk, ih hr]

theorem processContent_eq_split (kvs : Mapping) : processContent kvs = splitAtInclude kvs := by
  unfold processContent
  by_cases h : hasKey INCLUDE kvs = true
  · simp [h]
    cases kvs with
    | nil => rfl
    | cons p rest =>
      obtain ⟨k, v⟩ := p
      by_cases hk : k = INCLUDE
      · simp [hk, splitAtInclude]
      · simp [hk]
  · have h' : hasKey INCLUDE kvs = false := by simpa using h
    simp [h', splitAtInclude_noKey kvs h']

theorem mergeEntries_nil (ml ms : Bool) (a : Mapping) : mergeEntries ml ms a [] = some a := by
  induction a with
  | nil => simp [mergeEntries]
  | cons p rest ih =>
    obtain ⟨k, v⟩ := p
    simp [mergeEntries, lookup, ih]

theorem merge_nil_right (ml ms : Bool) (a : Mapping) : merge ml ms a [] = some a := by
  simp [merge, mergeEntries_nil]

theorem merge_nil_left (ml ms : Bool) (b : Mapping) : merge ml ms [] b = some b := by
  simp [merge, mergeEntries, hasKey]

end Vinegar.Yaml
