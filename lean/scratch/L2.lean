import Vinegar.Spec.Yaml
namespace Vinegar.Yaml

def toOpt {ε α : Type} : Except ε α → Option α
  | .ok a => some a
  | .error _ => none

theorem leadingDots_cons_ne {s : String} (rest : Name) (hs : s ≠ "") : leadingDots (s :: rest) = 0 := by
  unfold leadingDots
  split
  · rename_i h; injection h with h1 _; exact absurd h1 hs
  · rfl

theorem stripDots_cons_ne {s : String} (rest par : Name) (hs : s ≠ "") :
    stripDots (s :: rest) par = .ok (s :: rest, par) := by
  unfold stripDots
  split
  all_goals first
    | rfl
    | (rename_i h; injection h with h1 _; exact absurd h1 hs)

theorem stripDots_spec (inc par : Name) :
    stripDots inc par =
      if leadingDots inc ≤ par.length then
        .ok (inc.drop (leadingDots inc), par.take (par.length - leadingDots inc))
      else .error .aboveRoot := by
  induction inc generalizing par with
  | nil => simp [stripDots, leadingDots]
  | cons s rest ih =>
    by_cases hs : s = ""
    · subst hs
      cases par with
      | nil => simp [stripDots, leadingDots]
      | cons p ps =>
        simp only [stripDots, leadingDots]
        rw [ih]
        simp only [List.length_dropLast, List.length_cons, Nat.add_sub_cancel, Nat.add_le_add_iff_right]
        by_cases hk : leadingDots rest ≤ ps.length
        · simp only [hk, if_true, List.drop_succ_cons]
          congr 2
          rw [List.dropLast_eq_take, List.take_take]
          simp only [List.length_cons, Nat.add_sub_cancel]
          congr 1
          omega
        · simp [hk]
    · rw [leadingDots_cons_ne rest hs, stripDots_cons_ne rest par hs]
      simp

theorem resolveRelative_doc (inc par : Name) :
    toOpt (resolveRelative inc par) = docResolve inc par := by
  unfold resolveRelative docResolve
  by_cases h1 : inc = [""]
  · subst h1; simp [toOpt, leadingDots]
  · simp only [h1, if_false]
    cases inc with
    | nil => simp [toOpt, leadingDots]
    | cons s rest =>
      by_cases hs : s = ""
      · subst hs
        simp only [stripDots_spec]
        have hk : leadingDots ("" :: rest) ≠ 0 := by simp [leadingDots]
        simp only [hk, if_false]
        by_cases hle : leadingDots ("" :: rest) ≤ par.length
        · simp only [hle, if_true]
          have hgt : ¬ leadingDots ("" :: rest) > par.length := by omega
          simp only [hgt, if_false]
          cases hd : List.drop (leadingDots ("" :: rest)) ("" :: rest) with
          | nil => simp [toOpt]
          | cons a b => simp [toOpt]
        · simp only [hle, if_false]
          have hgt : leadingDots ("" :: rest) > par.length := by omega
          simp only [hgt, if_true, toOpt]
          split <;> rfl
      · simp only [leadingDots_cons_ne rest hs, if_true]
        split
        · rename_i h; injection h with h1 _; exact absurd h1 hs
        · rfl

end Vinegar.Yaml
