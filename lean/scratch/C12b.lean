import Vinegar.Lemmas.Yaml
namespace Vinegar.Yaml

/-! ## hypotheses on the hash functions -/

/-- no `|` in the string (`aggregate_version` joins with `|`) -/
def SepFree (s : String) : Prop := '|' ∉ s.toList

/-- "no hash collisions": `version_for_str` is injective and yields separator-free strings,
`aggregate_version` is injective on lists of separator-free strings. HYPOTHESES of the C12
theorems, never axioms. -/
structure VerOK (vf : VerFns) : Prop where
  ver_inj : ∀ a b, vf.ver a = vf.ver b → a = b
  ver_sepFree : ∀ a, SepFree (vf.ver a)
  agg_inj : ∀ l1 l2, (∀ v ∈ l1, SepFree v) → (∀ v ∈ l2, SepFree v) → vf.agg l1 = vf.agg l2 → l1 = l2

theorem sepFree_append (a b : String) (ha : SepFree a) (hb : SepFree b) : SepFree (a ++ b) := by
  unfold SepFree at *
  rw [String.toList_append]
  simp [ha, hb]

theorem sepFree_tag0 : SepFree TAG0 := by unfold SepFree TAG0; decide
theorem sepFree_tag1 : SepFree TAG1 := by unfold SepFree TAG1; decide

theorem append_tag_inj (a b : String) (t : String) (h : a ++ t = b ++ t) : a = b := by
  have := congrArg String.toList h
  rw [String.toList_append, String.toList_append] at this
  exact String.toList_inj.1 (List.append_cancel_right this)

theorem tag0_ne_tag1 (a b : String) : a ++ TAG0 ≠ b ++ TAG1 := by
  intro h
  have := congrArg String.toList h
  rw [String.toList_append, String.toList_append] at this
  have h2 : TAG0.toList.length = TAG1.toList.length := by decide
  have := (List.append_inj' this h2).2
  revert this
  decide

end Vinegar.Yaml
