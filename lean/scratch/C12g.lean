import Vinegar.Lemmas.YamlCache
namespace Vinegar.Yaml

theorem mapE_map {α β γ ε : Type} (g : β → Except ε γ) (h : α → β) (l : List α) :
    mapE g (l.map h) = mapE (fun a => g (h a)) l := by
  induction l with
  | nil => rfl
  | cons a as ih => simp only [List.map_cons, mapE, ih]

theorem mapE_bindE_ok {α β γ ε : Type} (g : α → Except ε β) (φ : β → γ) (l : List α) :
    mapE (fun a => bindE (g a) (fun b => .ok (φ b))) l = bindE (mapE g l) (fun bs => .ok (bs.map φ)) := by
  induction l with
  | nil => rfl
  | cons a as ih =>
    simp only [mapE, ih]
    cases g a with
    | error e => rfl
    | ok b =>
      simp only [bindE]
      cases mapE g as with
      | error e => rfl
      | ok bs => rfl

section
variable (vf : VerFns) (W : World)

/-- the parsed tree a call sees -/
def ptree (tree : VTree) : Tree := fun p => (tree p).map (parseNode W)

theorem resolveFile_ptree (tree : VTree) (name : Name) :
    resolveFile (ptree W tree) name =
      bindE (resolveFileV tree name) (fun r => .ok (r.1, parseNode W r.2)) := by
  unfold resolveFile resolveFileV ptree
  by_cases hp : pathOf name = []
  · simp [hp, bindE]
  · simp only [hp, if_false]
    cases h1 : tree (pathOf name) with
    | none =>
      simp only [Option.map_none]
      cases h2 : tree (pathOf name ++ ["init"]) with
      | none => simp [bindE]
      | some n => simp [bindE]
    | some n =>
      cases n with
      | dir =>
        simp only [Option.map_some, parseNode]
        cases h2 : tree (pathOf name ++ ["init"]) with
        | none => simp [bindE]
        | some n => cases n <;> simp [bindE, parseNode]
      | renderError => simp [parseNode, bindE]
      | text t => simp [parseNode, bindE]

theorem resolveAll_ptree (tree : VTree) (names : List Name) :
    resolveAll (ptree W tree) names =
      bindE (resolveAllV tree names) (fun rs => .ok (rs.map (fun r => (r.1, r.2.1, parseNode W r.2.2)))) := by
  unfold resolveAll resolveAllV
  have : (fun n => bindE (resolveFile (ptree W tree) n) (fun r => (.ok (n, r) : Except Err _))) =
      (fun n => bindE (bindE (resolveFileV tree n) (fun r => (.ok (n, r) : Except Err (Name × Name × VNode))))
        (fun r => .ok (r.1, r.2.1, parseNode W r.2.2))) := by
    funext n
    rw [resolveFile_ptree]
    cases resolveFileV tree n with
    | error e => rfl
    | ok r => rfl
  rw [this, mapE_bindE_ok]

theorem vpiecesOf_fst (pre post : Mapping) (mid : List (Mapping × String)) (fv : String) :
    (vpiecesOf pre mid post fv).map (·.1) = piecesOf pre (mid.map (·.1)) post := by
  unfold vpiecesOf piecesOf
  cases pre <;> cases post <;> simp

theorem expandFile_ptree (tree : VTree) (fuel : Nat) :
    ∀ (parents : List Name) (name res : Name) (node : VNode),
      expandFile fuel (ptree W tree) parents name res (parseNode W node) =
        bindE (expandFileV vf W tree fuel parents name res node) (fun vps => .ok (vps.map (·.1))) := by
  induction fuel with
  | zero => intro parents name res node; rfl
  | succ f ih =>
    intro parents name res node
    rw [expandFile.eq_def, expandFileV.eq_def]
    by_cases hc : name ∈ parents
    · simp [hc, bindE]
    · simp only [hc, if_false]
      cases node with
      | dir => simp [parseNode, loadPure, bindE]
      | renderError => simp [parseNode, loadPure, bindE]
      | text t =>
        simp only [parseNode, loadPure]
        cases hp : W.parse t with
        | error => simp [bindE]
        | nonMapping => simp [bindE]
        | mapping kvs =>
          simp only [bindE]
          cases hi : includeNames (processContent kvs).2.1 with
          | error e => rfl
          | ok incs =>
            simp only []
            cases hn : mapE (fun i => resolveRelative i res) incs with
            | error e => rfl
            | ok names =>
              simp only [resolveAll_ptree]
              cases hr : resolveAllV tree names with
              | error e => simp [bindE]
              | ok rs =>
                simp only [bindE]
                unfold expandAll expandAllV
                rw [mapE_map]
                have : (fun (a : Name × Name × VNode) =>
                    expandFile f (ptree W tree) (parents ++ [name]) a.1 a.2.1 (parseNode W a.2.2)) =
                    (fun a => bindE (expandFileV vf W tree f (parents ++ [name]) a.1 a.2.1 a.2.2)
                      (fun vps => .ok (vps.map (·.1)))) := by
                  funext a; exact ih _ _ _ _
                simp only [this, mapE_bindE_ok]
                cases mapE (fun (r : Name × Name × VNode) =>
                    expandFileV vf W tree f (parents ++ [name]) r.1 r.2.1 r.2.2) rs with
                | error e => rfl
                | ok pss =>
                  simp only [bindE, vpiecesOf_fst, List.map_flatten]

theorem expandList_ptree (tree : VTree) (fuel : Nat) (parents : List Name) (names : List Name) :
    expandList fuel (ptree W tree) parents names =
      bindE (expandListV vf W tree fuel parents names) (fun vps => .ok (vps.map (·.1))) := by
  unfold expandList expandListV
  rw [resolveAll_ptree]
  cases hr : resolveAllV tree names with
  | error e => rfl
  | ok rs =>
    simp only [bindE]
    unfold expandAll expandAllV
    rw [mapE_map]
    have : (fun (a : Name × Name × VNode) =>
        expandFile fuel (ptree W tree) parents a.1 a.2.1 (parseNode W a.2.2)) =
        (fun a => bindE (expandFileV vf W tree fuel parents a.1 a.2.1 a.2.2)
          (fun vps => .ok (vps.map (·.1)))) := by
      funext a; exact expandFile_ptree vf W tree fuel _ _ _ _
    simp only [this, mapE_bindE_ok]
    cases mapE (fun (r : Name × Name × VNode) => expandFileV vf W tree fuel parents r.1 r.2.1 r.2.2) rs with
    | error e => rfl
    | ok pss =>
      simp only [bindE, List.map_flatten]

/-- the top file a call sees, parsed -/
def topViewOf (id pdv : String) : VTop → TopView
  | .missing => .missing
  | .renderError => .renderError
  | .text t => .parsed (W.topParse t id pdv)

/-- T2: the data part of the cache-less versioned compilation is the C11 model -/
theorem compileV_data (cfg : Cfg) (fuel : Nat) (id pdv : String) (top : VTop) (tree : VTree) :
    compile cfg fuel (topViewOf W id pdv top) (ptree W tree) =
      bindE (compileV vf W cfg fuel id pdv top tree) (fun dv => .ok dv.1) := by
  unfold compile compileV
  cases top with
  | missing => rfl
  | renderError => rfl
  | text t =>
    simp only [topViewOf, processTop, pureTop]
    cases ht : topOutcome cfg.allowEmptyTop (W.topParse t id pdv) with
    | error e => rfl
    | ok o =>
      simp only [bindE]
      cases o with
      | none =>
        simp only [expandTop, expandTopV, List.map_nil]
        cases foldMerge cfg [] [] with
        | error e => rfl
        | ok d => rfl
      | some ns =>
        simp only [expandTop, expandTopV, expandList_ptree vf W]
        cases expandListV vf W tree fuel [TOPFILE] ns with
        | error e => rfl
        | ok vps =>
          simp only [bindE]
          cases foldMerge cfg [] (vps.map (·.1)) with
          | error e => rfl
          | ok d => rfl

end
end Vinegar.Yaml
