import Vinegar.Spec.Yaml
namespace Vinegar.Yaml

def toOpt {ε α : Type} : Except ε α → Option α
  | .ok a => some a
  | .error _ => none

def nonEmpties (ps : List Mapping) : List Mapping := ps.filter (fun p => !p.isEmpty)

theorem nonEmpties_append (a b : List Mapping) : nonEmpties (a ++ b) = nonEmpties a ++ nonEmpties b := by
  simp [nonEmpties]

theorem nonEmpties_nonEmpties (a : List Mapping) : nonEmpties (nonEmpties a) = nonEmpties a := by
  simp [nonEmpties]

theorem piecesOf_eq (pre post : Mapping) (mid : List Mapping) :
    piecesOf pre (nonEmpties mid) post = nonEmpties ([pre] ++ mid ++ [post]) := by
  unfold piecesOf nonEmpties
  cases pre <;> cases post <;> simp [List.filter_cons]

/-! mapE / mapO -/

theorem mapE_ok_cons_iff {α β ε : Type} (f : α → Except ε β) (a : α) (as : List α) (ys : List β) :
    mapE f (a :: as) = .ok ys ↔ ∃ b bs, f a = .ok b ∧ mapE f as = .ok bs ∧ ys = b :: bs := by
  simp only [mapE]
  cases h1 : f a with
  | error e => simp
  | ok b =>
    cases h2 : mapE f as with
    | error e => simp
    | ok bs =>
      simp only [Except.ok.injEq]
      constructor
      · intro h; exact ⟨b, bs, rfl, rfl, h.symm⟩
      · rintro ⟨b', bs', hb, hbs, rfl⟩; cases hb; cases hbs; rfl

theorem mapO_some_cons_iff {α β : Type} (f : α → Option β) (a : α) (as : List α) (ys : List β) :
    mapO f (a :: as) = some ys ↔ ∃ b bs, f a = some b ∧ mapO f as = some bs ∧ ys = b :: bs := by
  simp only [mapO]
  cases h1 : f a with
  | none => simp
  | some b =>
    cases h2 : mapO f as with
    | none => simp
    | some bs =>
      simp only [Option.some.injEq]
      constructor
      · intro h; exact ⟨b, bs, rfl, rfl, h.symm⟩
      · rintro ⟨b', bs', hb, hbs, rfl⟩; cases hb; cases hbs; rfl

theorem mapE_ok_iff_mapO {α β ε : Type} (f : α → Except ε β) (l : List α) (ys : List β) :
    mapE f l = .ok ys ↔ mapO (fun a => toOpt (f a)) l = some ys := by
  induction l generalizing ys with
  | nil => simp [mapE, mapO]
  | cons a as ih =>
    rw [mapE_ok_cons_iff, mapO_some_cons_iff]
    constructor
    · rintro ⟨b, bs, h1, h2, rfl⟩
      exact ⟨b, bs, by simp [h1, toOpt], (ih bs).1 h2, rfl⟩
    · rintro ⟨b, bs, h1, h2, rfl⟩
      refine ⟨b, bs, ?_, (ih bs).2 h2, rfl⟩
      cases hf : f a with
      | error e => simp [hf, toOpt] at h1
      | ok b' => simp [hf, toOpt] at h1; rw [h1]

/-! foldMerge ignores empty pieces -/

theorem foldMerge_nonEmpties (cfg : Cfg) (acc : Mapping) (ps : List Mapping) :
    foldMerge cfg acc (nonEmpties ps) = foldMerge cfg acc ps := by
  induction ps generalizing acc with
  | nil => rfl
  | cons p rest ih =>
    cases p with
    | nil =>
      have : nonEmpties ([] :: rest) = nonEmpties rest := by simp [nonEmpties]
      rw [this, ih]
      simp only [foldMerge]
      have : merge cfg.mergeLists cfg.mergeSets acc [] = some acc := by
        simp [merge]
        have : ∀ a : Mapping, mergeEntries cfg.mergeLists cfg.mergeSets a [] = some a := by
          intro a
          induction a with
          | nil => simp [mergeEntries]
          | cons q r ih2 => obtain ⟨k, v⟩ := q; simp [mergeEntries, lookup, ih2]
        simp [this]
      rw [this]
    | cons q r =>
      have : nonEmpties ((q :: r) :: rest) = (q :: r) :: nonEmpties rest := by simp [nonEmpties]
      rw [this]
      simp only [foldMerge]
      cases merge cfg.mergeLists cfg.mergeSets acc (q :: r) with
      | none => rfl
      | some a => exact ih a

/-! top file -/

theorem topNames_doc (es : List (MatchRes × TopList)) : toOpt (topNames es) = docTopNames es := by
  induction es with
  | nil => rfl
  | cons e rest ih =>
    obtain ⟨m, l⟩ := e
    cases l with
    | names ns =>
      simp only [topNames, docTopNames]
      by_cases hn : [""] ∈ ns
      · simp [hn, toOpt]
      · simp only [hn, if_false]
        have : ns.contains [""] = false := by simpa using hn
        simp only [this]
        cases m with
        | yes =>
          simp only []
          rw [← ih]
          cases topNames rest <;> simp [toOpt]
        | no =>
          simp only []
          rw [← ih]
          cases topNames rest <;> simp [toOpt]
        | error c => simp [toOpt]
    | str => simp [topNames, docTopNames, toOpt]
    | notSeq => simp [topNames, docTopNames, toOpt]
    | unsupported => simp [topNames, docTopNames, toOpt]

/-! file resolution -/

theorem docResolveFile_iff (tree : Tree) (name place : Name) (kvs : Mapping) :
    docResolveFile tree name = some (place, kvs) ↔ resolveFile tree name = .ok (place, .file (.mapping kvs)) := by
  unfold docResolveFile resolveFile
  by_cases hp : pathOf name = []
  · simp [hp]
  · simp only [hp, if_false]
    cases h1 : tree (pathOf name) with
    | none =>
      simp only []
      cases h2 : tree (pathOf name ++ ["init"]) with
      | none => simp
      | some n =>
        cases n with
        | dir => simp
        | renderError => simp
        | file p => cases p <;> simp
    | some n =>
      cases n with
      | dir =>
        simp only []
        cases h2 : tree (pathOf name ++ ["init"]) with
        | none => simp
        | some n =>
          cases n with
          | dir => simp
          | renderError => simp
          | file p => cases p <;> simp
      | renderError => simp
      | file p => cases p <;> simp

theorem resolves_of_resolveFile (tree : Tree) (name place : Name) (node : FileNode)
    (h : resolveFile tree name = .ok (place, node)) : Resolves tree name place node ∨ node = .dir := by
  unfold resolveFile at h
  by_cases hp : pathOf name = []
  · simp [hp] at h
  · simp only [hp, if_false] at h
    cases h1 : tree (pathOf name) with
    | none =>
      simp only [h1] at h
      cases h2 : tree (pathOf name ++ ["init"]) with
      | none => simp [h2] at h
      | some n =>
        simp only [h2, Except.ok.injEq, Prod.mk.injEq] at h
        obtain ⟨rfl, rfl⟩ := h
        exact Or.inl (Resolves.init hp (Or.inl h1) h2)
    | some n =>
      cases n with
      | dir =>
        simp only [h1] at h
        cases h2 : tree (pathOf name ++ ["init"]) with
        | none => simp [h2] at h
        | some n =>
          simp only [h2, Except.ok.injEq, Prod.mk.injEq] at h
          obtain ⟨rfl, rfl⟩ := h
          exact Or.inl (Resolves.init hp (Or.inr h1) h2)
      | renderError =>
        simp only [h1, Except.ok.injEq, Prod.mk.injEq] at h
        obtain ⟨rfl, rfl⟩ := h
        exact Or.inl (Resolves.direct hp h1 (by simp))
      | file p =>
        simp only [h1, Except.ok.injEq, Prod.mk.injEq] at h
        obtain ⟨rfl, rfl⟩ := h
        exact Or.inl (Resolves.direct hp h1 (by simp))

theorem resolveFile_of_resolves (tree : Tree) (name place : Name) (node : FileNode)
    (h : Resolves tree name place node) : resolveFile tree name = .ok (place, node) := by
  unfold resolveFile
  cases h with
  | direct hp h1 hd =>
    simp only [hp, if_false, h1]
    cases node with
    | dir => exact absurd rfl hd
    | renderError => rfl
    | file p => rfl
  | init hp h1 h2 =>
    simp only [hp, if_false]
    cases h1 with
    | inl h1 => simp [h1, h2]
    | inr h1 => simp [h1, h2]

end Vinegar.Yaml
