import Vinegar.Lemmas.Yaml
namespace Vinegar.Yaml

/-! A: the executable evaluator is sound for the relation -/

theorem docResolveFile_resolves (tree : Tree) (name place : Name) (kvs : Mapping)
    (h : docResolveFile tree name = some (place, kvs)) : Resolves tree name place (.file (.mapping kvs)) := by
  have := (docResolveFile_iff tree name place kvs).1 h
  cases resolves_of_resolveFile tree name place _ this with
  | inl h => exact h
  | inr h => cases h

theorem Expands.append_single {tree : Tree} {parents : List Name} {n : Name} {ns : List Name}
    {d1 d2 : List Mapping} (h1 : Expands tree parents [n] d1) (h2 : Expands tree parents ns d2) :
    Expands tree parents (n :: ns) (d1 ++ d2) := by
  cases h1 with
  | cons hn hr hi hm he hrest =>
    cases hrest
    have := Expands.cons hn hr hi hm he h2
    simpa [List.append_assoc] using this

theorem docSound (tree : Tree) (f : Nat) :
    (∀ parents name dps, docFile tree f parents name = some dps → Expands tree parents [name] dps) ∧
    (∀ parents names dps, docList tree f parents names = some dps → Expands tree parents names dps) := by
  induction f with
  | zero =>
    have hfile : ∀ parents name dps, docFile tree 0 parents name = some dps → Expands tree parents [name] dps := by
      intro parents name dps h; simp [docFile_zero] at h
    refine ⟨hfile, ?_⟩
    intro parents names dps h
    cases names with
    | nil => simp [docList_nil] at h; subst h; exact Expands.nil
    | cons n ns =>
      rw [docList_cons_some_iff] at h
      obtain ⟨d1, d2, h1, _, _⟩ := h
      simp [docFile_zero] at h1
  | succ f ih =>
    have hfile : ∀ parents name dps, docFile tree (f + 1) parents name = some dps →
        Expands tree parents [name] dps := by
      intro parents name dps h
      rw [docFile_succ_some_iff] at h
      obtain ⟨hn, place, kvs, incs, names, mid, h0, h1, h2, h3, rfl⟩ := h
      have := Expands.cons hn (docResolveFile_resolves tree name place kvs h0) h1 h2 (ih.2 _ _ _ h3) Expands.nil
      simpa using this
    refine ⟨hfile, ?_⟩
    intro parents names
    induction names with
    | nil => intro dps h; simp [docList_nil] at h; subst h; exact Expands.nil
    | cons n ns ihn =>
      intro dps h
      rw [docList_cons_some_iff] at h
      obtain ⟨d1, d2, h1, h2, rfl⟩ := h
      exact Expands.append_single (hfile _ _ _ h1) (ihn _ h2)

/-! D: every derivation is found by the evaluator, for every sufficiently large depth -/

theorem docFile_mono_aux (tree : Tree) (f : Nat) :
    (∀ parents name dps, docFile tree f parents name = some dps → docFile tree (f + 1) parents name = some dps) ∧
    (∀ parents names dps, docList tree f parents names = some dps → docList tree (f + 1) parents names = some dps) := by
  induction f with
  | zero =>
    refine ⟨fun _ _ _ h => by simp [docFile_zero] at h, ?_⟩
    intro parents names dps h
    cases names with
    | nil => simpa [docList_nil] using h
    | cons n ns =>
      rw [docList_cons_some_iff] at h
      obtain ⟨d1, d2, h1, _, _⟩ := h
      simp [docFile_zero] at h1
  | succ f ih =>
    have hfile : ∀ parents name dps, docFile tree (f + 1) parents name = some dps →
        docFile tree (f + 1 + 1) parents name = some dps := by
      intro parents name dps h
      rw [docFile_succ_some_iff] at h ⊢
      obtain ⟨hn, place, kvs, incs, names, mid, h0, h1, h2, h3, rfl⟩ := h
      exact ⟨hn, place, kvs, incs, names, mid, h0, h1, h2, ih.2 _ _ _ h3, rfl⟩
    refine ⟨hfile, ?_⟩
    intro parents names
    induction names with
    | nil => intro dps h; simpa [docList_nil] using h
    | cons n ns ihn =>
      intro dps h
      rw [docList_cons_some_iff] at h ⊢
      obtain ⟨d1, d2, h1, h2, rfl⟩ := h
      exact ⟨d1, d2, hfile _ _ _ h1, ihn _ h2, rfl⟩

theorem docList_mono (tree : Tree) {f g : Nat} (hfg : f ≤ g) (parents : List Name) (names : List Name)
    (dps : List Mapping) (h : docList tree f parents names = some dps) :
    docList tree g parents names = some dps := by
  induction hfg with
  | refl => exact h
  | step _ ih => exact (docFile_mono_aux tree _).2 _ _ _ ih

theorem resolves_docResolveFile (tree : Tree) (name place : Name) (kvs : Mapping)
    (h : Resolves tree name place (.file (.mapping kvs))) : docResolveFile tree name = some (place, kvs) :=
  (docResolveFile_iff tree name place kvs).2 (resolveFile_of_resolves tree name place _ h)

theorem docComplete (tree : Tree) (parents : List Name) (names : List Name) (dps : List Mapping)
    (h : Expands tree parents names dps) : ∃ f0, ∀ f, f0 ≤ f → docList tree f parents names = some dps := by
  induction h with
  | nil => exact ⟨0, fun f _ => docList_nil tree f _⟩
  | @cons parents name rest place kvs incs names ps qs hn hr hi hm _ _ ih1 ih2 =>
    obtain ⟨f1, h1⟩ := ih1
    obtain ⟨f2, h2⟩ := ih2
    refine ⟨max (f1 + 1) f2, ?_⟩
    intro f hf
    have hf1 : f1 + 1 ≤ f := Nat.le_trans (Nat.le_max_left _ _) hf
    have hf2 : f2 ≤ f := Nat.le_trans (Nat.le_max_right _ _) hf
    obtain ⟨f', rfl⟩ : ∃ f', f = f' + 1 := ⟨f - 1, by omega⟩
    rw [docList_cons_some_iff]
    refine ⟨[(splitAtInclude kvs).1] ++ ps ++ [(splitAtInclude kvs).2.2], qs, ?_, h2 _ hf2, by simp⟩
    rw [docFile_succ_some_iff]
    exact ⟨hn, place, kvs, incs, names, ps, resolves_docResolveFile tree name place kvs hr, hi, hm,
      h1 f' (by omega), rfl⟩

end Vinegar.Yaml
